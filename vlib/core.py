"""Core of the /verif check pipeline (python3, stdlib only).

  Ctx          paths, tier, seed, timing
  build        harness from /repo's current working tree (cmake + ninja + ccache, fixed scratch dir)
  translate    source-derived Lean data (SqfModel/Generated/*.lean)
  lean_build   lake build of the property's theorem module + the driver
  audit        forbidden-token grep + `#print axioms` for every property theorem
  run_pair     same case file through the harness (implementation) and the Lean driver (model)
  Report       mismatches / oracle failures -> VIOLATION lines, KNOWN-FINDING lines, evidence file
"""
import fcntl
import hashlib
import json
import os
import re
import subprocess
import sys
import time

VERIF = os.path.dirname(os.path.dirname(os.path.abspath(__file__)))
REPO = os.environ.get('VERIF_REPO', '/repo')
SCRATCH = os.environ.get('VERIF_SCRATCH', '/var/tmp/sqfvm-verif')
LEAN_DIR = os.path.join(VERIF, 'lean')
GEN_DIR = os.path.join(LEAN_DIR, 'SqfModel', 'Generated')
ALLOWED_AXIOMS = {'propext', 'Classical.choice', 'Quot.sound'}
FORBIDDEN = re.compile(r'\bsorry\b|\badmit\b|^\s*axiom\s|native_decide|bv_decide|implemented_by|\bunsafe\s|maxHeartbeats\s+0|@\[extern')


class SplitMix64:
    """The single PRNG: every random choice of a check derives from VERIF_SEED through it."""
    MASK = (1 << 64) - 1

    def __init__(self, seed):
        self.s = seed & self.MASK

    def next(self):
        self.s = (self.s + 0x9E3779B97F4A7C15) & self.MASK
        z = self.s
        z = ((z ^ (z >> 30)) * 0xBF58476D1CE4E5B9) & self.MASK
        z = ((z ^ (z >> 27)) * 0x94D049BB133111EB) & self.MASK
        return z ^ (z >> 31)

    def below(self, n):
        return self.next() % n if n > 0 else 0

    def chance(self, num, den):
        return self.below(den) < num

    def choice(self, seq):
        return seq[self.below(len(seq))]

    def weighted(self, pairs):
        total = sum(w for _, w in pairs)
        r = self.below(total)
        for v, w in pairs:
            if r < w:
                return v
            r -= w
        return pairs[-1][0]

    def fork(self, tag):
        h = hashlib.sha256((str(self.s) + ':' + tag).encode()).digest()
        return SplitMix64(int.from_bytes(h[:8], 'little'))


def hexf(b):
    if isinstance(b, str):
        b = b.encode('latin-1')
    return b.hex() if b else '-'


def unesc(s):
    """inverse of the output escaping of vh / sqfmodel -> bytes"""
    out = bytearray()
    i = 0
    while i < len(s):
        if s[i] == '\\' and s[i + 1:i + 2] == 'x':
            out.append(int(s[i + 2:i + 4], 16))
            i += 4
        else:
            out.append(ord(s[i]))
            i += 1
    return bytes(out)


class Lock:
    def __init__(self, name):
        os.makedirs(SCRATCH, exist_ok=True)
        self.path = os.path.join(SCRATCH, name + '.lock')

    def __enter__(self):
        self.f = open(self.path, 'w')
        fcntl.flock(self.f, fcntl.LOCK_EX)
        return self

    def __exit__(self, *a):
        fcntl.flock(self.f, fcntl.LOCK_UN)
        self.f.close()


def sh(cmd, cwd=None, timeout=3600, env=None, stdin=None):
    e = dict(os.environ)
    if env:
        e.update(env)
    p = subprocess.run(cmd, cwd=cwd, timeout=timeout, env=e, input=stdin,
                       stdout=subprocess.PIPE, stderr=subprocess.STDOUT, shell=isinstance(cmd, str))
    return p.returncode, p.stdout.decode('utf-8', 'replace')


class Ctx:
    def __init__(self, pid, tier, seed):
        self.pid = pid
        self.tier = tier
        self.seed = seed
        self.t0 = time.time()
        self.rng = SplitMix64(seed).fork(pid)
        self.notes = []
        self.broken = []          # broken proof obligations / ties: (kind, detail)
        self.checker_cmds = []
        self.obligations = 0
        self.discharged = 0
        self.theorems = []
        self.variant = 'rel'

    # ---- build of the harness from the current working tree ---------------------------------
    def build_dir(self, variant='rel'):
        return os.path.join(SCRATCH, 'build-' + variant)

    def vh(self, variant='rel'):
        return os.path.join(self.build_dir(variant), 'vh')

    def build(self, variant='rel'):
        """(Re)build the harness against /repo's working tree. ninja rebuilds exactly the translation
        units whose sources changed; ccache only accelerates. Returns (ok, log)."""
        bd = self.build_dir(variant)
        flags = {'rel': '-O1', 'asan': '-O1 -g -fsanitize=address,undefined,float-cast-overflow -fno-sanitize-recover=undefined,float-cast-overflow -fno-omit-frame-pointer'}[variant]
        with Lock('build-' + variant):
            os.makedirs(bd, exist_ok=True)
            env = {'CCACHE_DIR': os.path.join(SCRATCH, 'ccache'), 'CCACHE_MAXSIZE': '2G'}
            rc, out = sh(['cmake', '-G', 'Ninja', '-DCMAKE_BUILD_TYPE=Release', '-DCMAKE_CXX_FLAGS_RELEASE=' + flags,
                          '-DSQFVM_REPO=' + REPO, os.path.join(VERIF, 'harness')], cwd=bd, env=env)
            if rc != 0:
                return False, out
            rc, out2 = sh(['ninja', '-j', str(os.cpu_count() or 8)], cwd=bd, env=env, timeout=3600)
            return rc == 0, out + out2

    # ---- translators -----------------------------------------------------------------------
    @staticmethod
    def _generate(cmd, out_path):
        """run a translator into a temporary file and move it over the generated module only when the content differs:
        another check running at the same time (its `lake build` holds another lock) never reads a half-written module, and
        an unchanged module keeps its time stamp"""
        tmp = '%s.tmp.%d' % (out_path, os.getpid())
        rc, out = sh(cmd + [tmp])
        try:
            if rc == 0:
                new = open(tmp, 'rb').read()
                old = open(out_path, 'rb').read() if os.path.exists(out_path) else None
                if new != old:
                    os.replace(tmp, out_path)
        finally:
            if os.path.exists(tmp):
                os.remove(tmp)
        return rc, out

    def translate_registry(self):
        os.makedirs(GEN_DIR, exist_ok=True)
        dump = os.path.join(SCRATCH, 'registry.dump')
        with Lock('build-rel'):       # not while the harness is being re-linked
            rc, out = sh([self.vh(), '--dump-registry'], timeout=120)
        if rc != 0:
            return False, out
        with Lock('gen'):
            open(dump, 'w', encoding='utf-8').write(out)
            rc, out = self._generate([sys.executable, os.path.join(VERIF, 'translators', 'registry.py'), dump],
                                     os.path.join(GEN_DIR, 'Registry.lean'))
        return rc == 0, out

    def translate_diag(self):
        os.makedirs(GEN_DIR, exist_ok=True)
        with Lock('gen'):
            rc, out = self._generate([sys.executable, os.path.join(VERIF, 'translators', 'diag.py'),
                                      os.path.join(REPO, 'src', 'runtime', 'logging.h')], os.path.join(GEN_DIR, 'Diag.lean'))
        return rc == 0, out

    def translate_statics(self):
        """process-wide statics of the library built from the current tree (nm) -> Generated/Statics.lean"""
        os.makedirs(GEN_DIR, exist_ok=True)
        lib = os.path.join(os.path.dirname(self.vh()), 'libsqfvm_static.a')
        with Lock('gen'):
            with Lock('build-rel'):       # the library is not being re-linked while nm reads it
                rc, out = self._generate([sys.executable, os.path.join(VERIF, 'translators', 'statics.py'), lib], os.path.join(GEN_DIR, 'Statics.lean'))
        return rc == 0, out

    def translate_grammars(self):
        """LALR tables, semantic actions, symbol names and the yylex classification of the SQF and the config grammar,
        read out of the checked-in parser.tab.cc files of the current tree -> Generated/{Sqf,Cfg}Grammar.lean"""
        os.makedirs(GEN_DIR, exist_ok=True)
        ok, log = True, ''
        with Lock('gen'):
            for sub, kindsrc, ns in (('sqf', 'astnode.hpp', 'SqfGrammar'), ('config', 'parser.tab.hh', 'CfgGrammar')):
                d = os.path.join(REPO, 'src', 'parser', sub)
                target = os.path.join(GEN_DIR, ns + '.lean')
                tmp = '%s.tmp.%d' % (target, os.getpid())
                rc, out = sh([sys.executable, os.path.join(VERIF, 'translators', 'lalr.py'), os.path.join(d, 'parser.tab.cc'),
                              os.path.join(d, 'parser.tab.hh'), os.path.join(d, kindsrc), tmp, ns])
                if rc == 0 and (not os.path.exists(target) or open(tmp, 'rb').read() != open(target, 'rb').read()):
                    os.replace(tmp, target)
                if os.path.exists(tmp):
                    os.remove(tmp)
                ok = ok and rc == 0
                log += out
        return ok, log

    def translate_all(self):
        ok, out = self.translate_registry()
        ok2, out2 = self.translate_diag()
        ok3, out3 = self.translate_statics()
        ok4, out4 = self.translate_grammars()
        return ok and ok2 and ok3 and ok4, out + out2 + out3 + out4

    # ---- Lean ---------------------------------------------------------------------------------
    def lean_build(self, targets):
        with Lock('lake'):
            cmd = ['lake', 'build'] + targets
            self.checker_cmds.append('cd lean && ' + ' '.join(cmd))
            rc, out = sh(cmd, cwd=LEAN_DIR, timeout=3600)
        return rc == 0, out

    def driver(self):
        return os.path.join(LEAN_DIR, '.lake', 'build', 'bin', 'sqfmodel')

    def theorem_names(self, module_file, namespace):
        """theorem names declared in a Props file (the obligations of the property)"""
        src = open(os.path.join(LEAN_DIR, module_file), encoding='utf-8').read()
        src = strip_lean_comments(src)
        return [namespace + '.' + m for m in re.findall(r'^\s*theorem\s+([A-Za-z_][A-Za-z0-9_\.\']*)', src, re.M)]

    def audit(self, modules, props_file, namespace):
        """grep for forbidden constructs in every Lean source the property depends on, then
        `#print axioms` for each property theorem. Fills obligations / discharged."""
        ok = True
        # 1. forbidden tokens (comments stripped) over the whole library
        hits = []
        for root, _, files in os.walk(LEAN_DIR):
            if '.lake' in root or os.sep + 'Audit' in root:
                continue
            for fn in files:
                if fn.endswith('.lean'):
                    p = os.path.join(root, fn)
                    text = strip_lean_comments(open(p, encoding='utf-8').read())
                    for i, line in enumerate(text.split('\n')):
                        if FORBIDDEN.search(line):
                            hits.append('%s:%d: %s' % (os.path.relpath(p, VERIF), i + 1, line.strip()[:120]))
        if hits:
            ok = False
            self.broken.append(('audit-forbidden-token', '; '.join(hits[:5])))
        # 2. axioms
        names = self.theorem_names(props_file, namespace)
        self.theorems = names
        self.obligations = len(names)
        adir = os.path.join(LEAN_DIR, 'Audit')
        os.makedirs(adir, exist_ok=True)
        afile = os.path.join(adir, self.pid + '.lean')
        with open(afile, 'w') as f:
            for m in modules:
                f.write('import %s\n' % m)
            for n in names:
                f.write('#print axioms %s\n' % n)
        cmd = ['lake', 'env', 'lean', os.path.join('Audit', self.pid + '.lean')]
        self.checker_cmds.append('cd lean && ' + ' '.join(cmd))
        with Lock('lake'):
            rc, out = sh(cmd, cwd=LEAN_DIR, timeout=1800)
        good = 0
        seen = {}
        for m in re.finditer(r"'([^']+)' (depends on axioms: \[([^\]]*)\]|does not depend on any axioms)", out):
            name = m.group(1)
            axs = set(a.strip() for a in (m.group(3) or '').split(',') if a.strip())
            seen[name] = axs
        for n in names:
            if n in seen and seen[n] <= ALLOWED_AXIOMS:
                good += 1
            else:
                ok = False
                self.broken.append(('axiom-audit', '%s: %s' % (n, sorted(seen.get(n, ['<not checked>'])))))
        if rc != 0:
            ok = False
            self.broken.append(('axiom-audit', out[-400:]))
        self.discharged = good
        self.axioms_seen = sorted(set().union(*seen.values())) if seen else []
        return ok

    def leanchecker(self, module):
        cmd = ['lake', 'env', 'leanchecker', module]
        self.checker_cmds.append('cd lean && ' + ' '.join(cmd))
        with Lock('lake'):
            rc, out = sh(cmd, cwd=LEAN_DIR, timeout=3600)
        if rc != 0:
            self.broken.append(('leanchecker', out[-400:]))
        return rc == 0

    # ---- correspondence -----------------------------------------------------------------------
    def run_pair(self, lines, variant='rel', timeout_ms=4000, model=True, tag='cases'):
        """lines: list of protocol lines (without newline). Returns (impl: {id: text}, model: {id: text})."""
        data = ('\n'.join(lines) + '\n').encode()
        wd = os.path.join(SCRATCH, 'run-%s-%d' % (self.pid, os.getpid()))
        os.makedirs(wd, exist_ok=True)
        try:
            p1 = None
            for attempt in range(60):
                # another check may be re-linking the harness at this very moment (the new file exists before it is made
                # executable): wait for it instead of failing
                try:
                    p1 = subprocess.Popen([self.vh(variant)], stdin=subprocess.PIPE, stdout=subprocess.PIPE, stderr=subprocess.DEVNULL,
                                          cwd=wd, env=dict(os.environ, VH_TIMEOUT_MS=str(timeout_ms), VH_MAX_TIMEOUTS=('5' if getattr(self, '_retrying', False) else '10'), ASAN_OPTIONS='detect_leaks=0:abort_on_error=1', UBSAN_OPTIONS='halt_on_error=1:abort_on_error=1'))
                    break
                except (PermissionError, FileNotFoundError, OSError):
                    if attempt == 59:
                        raise
                    time.sleep(1)
            p2 = None
            if model:
                p2 = subprocess.Popen([self.driver()], stdin=subprocess.PIPE, stdout=subprocess.PIPE, stderr=subprocess.DEVNULL, cwd=wd)
            import threading
            res = {}

            def feed(p, key):
                o, _ = p.communicate(data)
                res[key] = o

            th = [threading.Thread(target=feed, args=(p1, 'impl'))]
            if p2:
                th.append(threading.Thread(target=feed, args=(p2, 'model')))
            for t in th:
                t.start()
            for t in th:
                t.join()
        finally:
            subprocess.run(['rm', '-rf', wd])

        def parse(b):
            d = {}
            for ln in b.decode('latin-1').split('\n'):
                if not ln:
                    continue
                sp = ln.find(' ')
                if sp < 0:
                    d[ln] = ''
                else:
                    d[ln[:sp]] = ln[sp + 1:]
            return d
        impl = parse(res.get('impl', b''))
        # A time-out may be the machine's, not the implementation's (other processes side by side): the cases that
        # timed out run once more, alone, with three times the limit. A real hang times out again.
        # After ten time-outs the harness answers "timeout-skipped" without running the case (a change that makes most
        # cases hang must not cost cases x limit); the first forty of the late and skipped cases are run again. A case that
        # is still skipped then counts as timed out.
        late = [ln for ln in lines if impl.get(ln.split(' ')[1] if ' ' in ln else '', '') in ('timeout', 'timeout-skipped')]
        if late and not getattr(self, '_retrying', False):
            self._retrying = True
            try:
                again, _ = self.run_pair(late[:40], variant=variant, timeout_ms=timeout_ms * 3, model=False, tag=tag)
                impl.update(again)
            finally:
                self._retrying = False
            for ln in late:
                k = ln.split(' ')[1]
                if impl.get(k) == 'timeout-skipped':
                    impl[k] = 'timeout'
            self.notes.append('%d cases timed out or were skipped behind time-outs (%s)' % (len(late), tag))
        return impl, parse(res.get('model', b''))

    def elapsed(self):
        return time.time() - self.t0


def strip_lean_comments(src):
    """remove /- -/ (nested) and -- comments; string literals are kept"""
    out = []
    i, n, depth = 0, len(src), 0
    in_str = False
    while i < n:
        c = src[i]
        if depth == 0 and not in_str and c == '"':
            in_str = True
            out.append(c)
            i += 1
        elif in_str:
            out.append(c)
            if c == '\\' and i + 1 < n:
                out.append(src[i + 1])
                i += 2
                continue
            if c == '"':
                in_str = False
            i += 1
        elif src.startswith('/-', i):
            depth += 1
            i += 2
        elif depth > 0 and src.startswith('-/', i):
            depth -= 1
            i += 2
        elif depth > 0:
            if c == '\n':
                out.append(c)
            i += 1
        elif src.startswith('--', i):
            while i < n and src[i] != '\n':
                i += 1
        else:
            out.append(c)
            i += 1
    return ''.join(out)


class Report:
    """Collects violations and known findings, prints the protocol lines, writes evidence."""

    def __init__(self, ctx):
        self.ctx = ctx
        self.violations = []      # (what, replay_path, found_input: bool)
        self.known = []           # strings
        self.findings = load_known_findings(ctx.pid)

    def violation(self, what, replay_obj, found_input=True):
        os.makedirs(os.path.join(VERIF, 'replays'), exist_ok=True)
        body = json.dumps(replay_obj, indent=1, sort_keys=True, default=str)
        digest = hashlib.sha256(body.encode()).hexdigest()[:12]
        path = os.path.join(VERIF, 'replays', '%s-%s.replay' % (self.ctx.pid, digest))
        with open(path, 'w') as f:
            f.write(body + '\n')
        self.violations.append((what, path, found_input))

    def known_finding(self, entry):
        self.known.append(entry)

    def finish(self, coverage, assumptions, level='proof'):
        ctx = self.ctx
        # a broken obligation with no exhibited failing input is still a violation
        if ctx.broken and not any(v[2] for v in self.violations):
            self.violation('broken-obligation', {
                'property': ctx.pid, 'kind': 'no-failing-input-found', 'seed': ctx.seed, 'tier': ctx.tier,
                'broken': [{'obligation': k, 'detail': d} for k, d in ctx.broken],
                'note': 'a proof obligation or the model/code tie no longer checks; the search did not exhibit an input on which the property fails'},
                found_input=False)
        for e in self.known:
            print('KNOWN-FINDING: property=%s %s' % (ctx.pid, e))
        for what, path, found in self.violations:
            print('VIOLATION property=%s replay=%s%s' % (ctx.pid, path, '' if found else ' no-failing-input-found'))
        cov = dict(coverage)
        cov.setdefault('obligations', ctx.obligations)
        cov.setdefault('discharged', ctx.discharged)
        cov.setdefault('checker_cmd', ' ; '.join(ctx.checker_cmds) or 'lake build')
        cov.setdefault('trusted_base', TRUSTED_BASE)
        cov['theorems'] = ctx.theorems
        cov['axioms_used'] = getattr(ctx, 'axioms_seen', [])
        cov['broken_obligations'] = [{'obligation': k, 'detail': d} for k, d in ctx.broken]
        cov['known_findings_fired'] = self.known
        ev = {
            'property_id': ctx.pid, 'tier': ctx.tier, 'seed': ctx.seed, 'level': level,
            'coverage': cov, 'assumptions': assumptions, 'wall_s': round(ctx.elapsed(), 2),
            'violations': len(self.violations),
        }
        os.makedirs(os.path.join(VERIF, 'evidence'), exist_ok=True)
        with open(os.path.join(VERIF, 'evidence', ctx.pid + '.json'), 'w') as f:
            json.dump(ev, f, indent=1, sort_keys=True, default=str)
            f.write('\n')
        return 1 if self.violations else 0


TRUSTED_BASE = [
    'Lean 4.33.0 kernel; axioms limited to propext, Classical.choice, Quot.sound (audited by #print axioms on every run); no native_decide / bv_decide / sorry',
    'Lean compiler for the model driver (compiled form of the same definitions the theorems are about)',
    'translators/*.py (source -> Lean data) and the registry dump of the harness',
    'the correspondence check (differential testing of model vs implementation; bounded by generator quality)',
    'g++/libstdc++ (stod, snprintf %g, std::hash), Bison LALR skeleton and tables in parser.tab.cc: modelled, exercised, not verified',
]


def load_known_findings(pid):
    path = os.path.join(VERIF, 'known_findings.jsonl')
    out = []
    if os.path.exists(path):
        for line in open(path):
            line = line.strip()
            if not line or line.startswith('#'):
                continue
            try:
                o = json.loads(line)
            except ValueError:
                continue
            if o.get('property') == pid and 'fixed' not in o:
                out.append(o)
    return out
