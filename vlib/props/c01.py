"""C01 — expressions group by precedence, left-assoc, unary tightest, operands in order."""
import os
import sys

from .. import core
from ..core import hexf, unesc

sys.path.insert(0, os.path.join(core.VERIF, 'gen'))
import exprgen  # noqa: E402

PROPS_FILE = 'SqfModel/Props/C01.lean'
NAMESPACE = 'Sqf.Props.C01'
MODULES = ['SqfModel.Props.C01']


def gen_cases(ctx, n_real, n_syn, n_mal, depth):
    """returns list of (id, line, meta) — meta carries the oracle expectation when there is one"""
    cases = []
    dump = os.path.join(core.SCRATCH, 'registry.dump')
    pools = {'real': exprgen.Pools.from_dump(dump), 'syn': exprgen.Pools.synthetic()}
    stats = {}
    for mode, n in (('real', n_real), ('syn', n_syn)):
        g = exprgen.ExprGen(ctx.rng.fork('gen-' + mode), pools[mode], max_depth=depth)
        for i in range(n):
            stmts = [g.statement(0) for _ in range(1 + g.rng.below(2))]
            text = g.render_program(stmts)
            exp = b'ok ' + b' '.join(exprgen.expected_stmts(stmts))
            cid = '%s%d' % (mode[0], i)
            cases.append((cid, 'asm %s %s %s' % (cid, hexf(text), hexf(mode)), {'text': text, 'expected': exp, 'mode': mode,
                                                                                   'size': sum(exprgen.tree_size(s) for s in stmts)}))
        stats[mode] = g.stats
    # malformed stream: token deletions / duplications / swaps of well-formed renderings; no oracle,
    # only model-vs-implementation agreement (accept/reject and listing)
    g = exprgen.ExprGen(ctx.rng.fork('gen-mal'), pools['syn'], max_depth=max(2, depth - 2))
    r = g.rng
    for i in range(n_mal):
        stmts = [g.statement(0) for _ in range(1 + r.below(2))]
        toks = g.stmt_toks(stmts)
        for _ in range(1 + r.below(2)):
            if not toks:
                break
            op = r.below(4)
            j = r.below(len(toks))
            if op == 0:
                del toks[j]
            elif op == 1:
                toks.insert(j, toks[j])
            elif op == 2 and len(toks) > 1:
                k = r.below(len(toks))
                toks[j], toks[k] = toks[k], toks[j]
            else:
                toks.insert(j, r.choice([b'(', b')', b'[', b']', b'{', b'}', b';', b',', b'=', b'bun3', b'bu2', b'bn1', b'un', b'u', b'n', b'b5', b'private', b'-', b'"s"', b'7', b'?', b'.']))
        text = g.join(toks)
        cid = 'm%d' % i
        cases.append((cid, 'asm %s %s %s' % (cid, hexf(text), hexf('syn')), {'text': text, 'expected': None, 'mode': 'syn', 'size': len(toks)}))
    return cases, stats


def exhaustive_shapes(ctx):
    """all (outer operator class x level, inner operator class x level, side) shapes of the synthetic
    registry, rendered without parentheses *and* with the inner operand parenthesised: the model must
    predict the grouping of every one of them (thorough tier; the space is finite and enumerated
    completely)."""
    cases = []
    cls = ['b', 'bu', 'bn', 'bun']
    i = 0
    for oc in cls:
        for ol in range(1, 11):
            for ic in cls:
                for il in range(1, 11):
                    for form in ('x %s%d y %s%d z', '(x %s%d y) %s%d z', 'x %s%d (y %s%d z)'):
                        text = (form % (oc, ol, ic, il)).encode()
                        cid = 'e%d' % i
                        i += 1
                        cases.append((cid, 'asm %s %s %s' % (cid, hexf(text), hexf('syn')), {'text': text, 'expected': None, 'mode': 'syn', 'size': 5}))
    for uc in ['u', 'un', 'bu3', 'bun7', '-', '!', 'private']:
        for ic in cls:
            for il in range(1, 11):
                for form in ('%s x %s%d y', '%s (x %s%d y)', 'x %s%d %s y'):
                    if form.startswith('x'):
                        text = (form % (ic, il, uc)).encode()
                    else:
                        text = (form % (uc, ic, il)).encode()
                    cid = 'e%d' % i
                    i += 1
                    cases.append((cid, 'asm %s %s %s' % (cid, hexf(text), hexf('syn')), {'text': text, 'expected': None, 'mode': 'syn', 'size': 4}))
    return cases


def run(ctx):
    rep = core.Report(ctx)
    quick = ctx.tier == 'quick'
    ok, log = ctx.build()
    if not ok:
        ctx.broken.append(('harness-build', log[-600:]))
        return rep.finish({'evaluations': 0, 'distinct_nontrivial': 0, 'rule': 'harness did not build', 'samples': []}, [])
    ok, log = ctx.translate_registry()
    if not ok:
        ctx.broken.append(('translator-registry', log[-600:]))
    ok, log = ctx.translate_grammars()
    if not ok:
        ctx.broken.append(('translator-grammar', log[-600:]))
    ok, log = ctx.lean_build(MODULES + ['sqfmodel'])
    if not ok:
        ctx.broken.append(('lake-build', core_tail(log)))
    ctx.audit(MODULES, PROPS_FILE, NAMESPACE)
    if not quick:
        ctx.leanchecker('SqfModel.Props.C01')

    n_real, n_syn, n_mal, depth = (4000, 4000, 2000, 5) if quick else (60000, 60000, 30000, 7)
    cases, stats = gen_cases(ctx, n_real, n_syn, n_mal, depth)
    corpus = load_corpus()
    cases = corpus + cases
    exhaustive = False
    if not quick:
        cases += exhaustive_shapes(ctx)
        exhaustive = True
    impl, model = ctx.run_pair([c[1] for c in cases]) if os.path.exists(ctx.driver()) else (ctx.run_pair([c[1] for c in cases], model=False)[0], {})
    # the same inputs through the LALR tables and actions translated from parser.tab.cc (model side only): the
    # hand-written parser model, about which the theorems are, must agree with the tables of the current tree
    n_tab = 0
    if model:
        import subprocess
        lr_lines = [('asmlr ' + c[1][4:]) for c in cases if c[1].startswith('asm ')]
        p = subprocess.run([ctx.driver()], input=('\n'.join(lr_lines) + '\n').encode(), stdout=subprocess.PIPE, stderr=subprocess.DEVNULL)
        lr = {}
        for ln in p.stdout.decode('latin-1').split('\n'):
            if ln:
                k, _, v = ln.partition(' ')
                lr[k] = v
        for cid, line, meta in cases:
            if line.startswith('asm ') and lr.get(cid) != model.get(cid):
                n_tab += 1
                if n_tab <= 3:
                    rep.violation('correspondence', {'property': 'C01', 'kind': 'translated-LALR-tables-vs-hand-written-parser-model', 'seed': ctx.seed, 'case': cid,
                                                     'input': meta['text'].decode('latin-1'), 'input_hex': meta['text'].hex(), 'registry': meta['mode'],
                                                     'tables': lr.get(cid), 'model': model.get(cid), 'implementation': impl.get(cid), 'line': line})

    distinct = set()
    n_mismatch = n_oracle = 0
    samples = []
    sizes = {}
    for cid, line, meta in cases:
        got = impl.get(cid)
        mod = model.get(cid)
        text = meta['text']
        sizes[min(meta['size'], 40) // 5 * 5] = sizes.get(min(meta['size'], 40) // 5 * 5, 0) + 1
        if meta['size'] >= 3:
            distinct.add(text)
        if len(samples) < 6 and meta['size'] >= 4:
            samples.append({'input': text.decode('latin-1'), 'mode': meta['mode'], 'impl': got})
        exp = meta['expected']
        gotb = unesc(got) if got is not None else None
        if exp is not None and gotb != exp:
            n_oracle += 1
            if n_oracle <= 3:
                rep.violation('oracle', {'property': 'C01', 'kind': 'documented-reading', 'seed': ctx.seed, 'case': cid,
                                         'input': text.decode('latin-1'), 'input_hex': text.hex(), 'registry': meta['mode'],
                                         'expected_listing': exp.decode('latin-1'), 'implementation': got, 'model': mod,
                                         'line': line})
        elif model and got != mod:
            n_mismatch += 1
            if n_mismatch <= 3:
                rep.violation('correspondence', {'property': 'C01', 'kind': 'model-vs-implementation', 'seed': ctx.seed, 'case': cid,
                                                 'input': text.decode('latin-1'), 'input_hex': text.hex(), 'registry': meta['mode'],
                                                 'implementation': got, 'model': mod, 'line': line})
    cov = {
        'evaluations': len(cases), 'distinct_nontrivial': len(distinct),
        'rule': 'random expression/statement trees over the live registry (%d names) and a synthetic registry with every operator class at every level, rendered with required + redundant parentheses, random white space and letter case; malformed token streams; non-trivial = at least 3 tree nodes, distinct by text' % (sum(1 for _ in open(os.path.join(core.SCRATCH, 'registry.dump'))) if os.path.exists(os.path.join(core.SCRATCH, 'registry.dump')) else 0),
        'samples': samples, 'oracle_failures': n_oracle, 'model_mismatches': n_mismatch, 'table_driver_mismatches': n_tab,
        'size_histogram': {str(k): v for k, v in sorted(sizes.items())},
        'generator_stats': stats, 'exhaustive': exhaustive,
        'exhaustive_note': 'thorough tier enumerates all (outer class x level, inner class x level, side/paren form) shapes of the synthetic registry' if exhaustive else 'not in this tier',
    }
    return rep.finish(cov, ['operator semantics are irrelevant to C01: only the emitted instruction listing is compared',
                            'the LALR tables and semantic actions of parser.tab.cc are translated into the model on every run (translators/lalr.py, LR.lean) and run on every case beside the hand-written parser model; their agreement is observed on the generated inputs, it is not a theorem (no LR-correctness proof); the yylex classification is tied by kernel-checked obligations over the translated switch'])


def load_corpus():
    out = []
    d = os.path.join(core.VERIF, 'gen', 'corpus', 'C01')
    if os.path.isdir(d):
        for fn in sorted(os.listdir(d)):
            if fn.endswith('.case'):
                import json
                o = json.load(open(os.path.join(d, fn)))
                text = o['input'].encode('latin-1')
                cid = 'c' + fn[:-5]
                out.append((cid, 'asm %s %s %s' % (cid, hexf(text), hexf(o.get('registry', 'real'))),
                            {'text': text, 'expected': o['expected'].encode('latin-1') if o.get('expected') else None,
                             'mode': o.get('registry', 'real'), 'size': 9}))
    return out


def core_tail(log):
    lines = [l for l in log.split('\n') if l.startswith('error') or 'error:' in l]
    return '\n'.join(lines[:8]) if lines else log[-600:]
