"""C16 — the virtual file system resolves deterministically and never leaves the mapped roots."""
import os
import re
import sys

from .. import core
from ..core import hexf
from . import vmcommon as vc

sys.path.insert(0, os.path.join(core.VERIF, 'gen'))
import vfsgen  # noqa: E402


def run(ctx):
    rep = core.Report(ctx)
    if not vc.prepare(ctx, 'C16'):
        return rep.finish({'evaluations': 0, 'distinct_nontrivial': 0, 'rule': 'harness did not build', 'samples': []}, [])
    quick = ctx.tier == 'quick'
    n = 1500 if quick else 8000
    g = vfsgen.VfsGen(ctx.rng.fork('vfs'))
    cases = []
    for i in range(n):
        files, maps, reqs = g.case()
        # every operator-level request is paired with the info request for the same path
        full = []
        for q in reqs:
            full.append(q)
            if q[0] not in ('info', 'ninc'):
                full.append(('info', q[1], q[2], q[3]))
        fs = '\x01'.join('%s\x02%s' % (p, c) for p, c in files.items())
        ms = '\x01'.join('%s\x02%s' % (p, v) for p, v in maps)
        rs = '\x01'.join('\x02'.join(q) for q in full)
        cid = 'v%d' % i
        cases.append({'id': cid, 'files': files, 'maps': maps, 'reqs': full, 'line': 'vfs %s %s %s %s' % (cid, hexf(fs), hexf(ms), hexf(rs))})
    impl, model = vc.run_cases(ctx, cases, timeout_ms=30000)
    n_or = n_mm = n_req = n_found = n_clean = 0
    kinds = {}
    samples = []
    distinct = set()
    for c in cases:
        distinct.add(c['line'])
        a = (impl.get(c['id']) or '').split(' ; ')
        b = (model.get(c['id']) or '').split(' ; ') if model is not None else None
        bad = None
        if len(a) != len(c['reqs']):
            bad = {'expected': '%d answers' % len(c['reqs']), 'implementation': (impl.get(c['id']) or '')[:400]}
        else:
            for k, q in enumerate(c['reqs']):
                n_req += 1
                kinds[q[0]] = kinds.get(q[0], 0) + 1
                ans = a[k]
                if q[0] == 'info':
                    if ans.startswith('P='):
                        n_found += 1
                        ph = ans[2:].split('|V=')[0]
                        if not vfsgen.inside_some_root(ph, c['maps']):
                            bad = {'request': q, 'expected': 'a file below a mapped directory, or not found', 'implementation': ans}
                            break
                        if ph.replace('/$R/', '', 1) not in c['files'] and os.path.normpath(ph).replace('/$R/', '', 1) not in c['files']:
                            bad = {'request': q, 'expected': 'an existing file', 'implementation': ans}
                            break
                    clean = q[1] == '' and q[3].startswith('/') and not q[3].startswith('/$') and '..' not in q[3] and '//' not in q[3] and '\\' not in q[3] \
                        and '/./' not in q[3] and q[3] == q[3].strip() and not q[3].endswith('/')
                    if clean:
                        n_clean += 1
                        exp = vfsgen.reference_clean(c['files'], c['maps'], q[3])
                        got = ans[2:].split('|V=')[0] if ans.startswith('P=') else None
                        if exp != got:
                            bad = {'request': q, 'expected_by_the_resolution_rule': exp, 'implementation': ans}
                            break
                    if b is not None and k < len(b) and b[k] != ans:
                        n_mm += 1
                        if n_mm <= 3:
                            rep.violation('correspondence', {'property': 'C16', 'kind': 'model-vs-implementation', 'seed': ctx.seed, 'case': c['id'],
                                                             'mappings': c['maps'], 'request': q, 'implementation': ans, 'model': b[k], 'line': c['line'][:9000]})
                elif q[0] == 'ninc' and q[3].endswith('nest2_m.hpp'):
                    # the same relative spelling in two included files of different directories: each time the neighbour
                    text = bytes.fromhex(ans[2:]).decode('latin-1') if ans.startswith('T=') else ''
                    seq = re.findall(r'gx = (71\d\d);', text)
                    if seq != ['7101', '7102', '7101']:
                        bad = {'request': q, 'expected': 'sub/defs.hpp, sub/deep/defs.hpp, sub/defs.hpp (each include resolved beside the including file)',
                               'implementation': (text or ans)[:400]}
                        break
                elif q[0] == 'ninc':
                    # an include inside an included file is resolved from that file's place
                    if not ans.startswith('T=') or 'gx = 7001;'.encode().hex() not in ans or 'gx = 7002;'.encode().hex() in ans:
                        bad = {'request': q, 'expected': 'the text of sub/nest_b.hpp (the neighbour of the including file), not of nest_b.hpp beside the outermost file',
                               'implementation': (bytes.fromhex(ans[2:]).decode('latin-1') if ans.startswith('T=') else ans)[:400]}
                        break
                else:
                    # the operator must act on exactly the file the same request resolves to
                    info = a[k + 1]
                    content = None
                    if info.startswith('P='):
                        rel = os.path.normpath(info[2:].split('|V=')[0]).replace('/$R/', '', 1)
                        content = c['files'].get(rel)
                    if q[0] == 'load':
                        want = 'empty:"%s"' % (content or '')
                        if ans != want:
                            bad = {'request': q, 'expected': want, 'implementation': ans[:300]}
                    elif q[0] == 'pre':
                        if content is None:
                            if ans != 'empty:""':
                                bad = {'request': q, 'expected': 'empty:""', 'implementation': ans[:300]}
                        elif content not in ans:
                            bad = {'request': q, 'expected': 'the preprocessed text of the file', 'implementation': ans[:300]}
                    elif q[0] == 'exec':
                        want = 'empty:%s' % (re.match(r'gx = (\d+)', content).group(1) if content else '0')
                        if ans != want:
                            bad = {'request': q, 'expected (the script in the file ran)': want, 'implementation': ans[:300]}
                    elif q[0] == 'inc':
                        if content is not None and rel == q[2]:
                            content = None          # a file that includes itself: recursion, reported as an error
                        if content is None:
                            if ans != 'failed':
                                bad = {'request': q, 'expected': 'the include fails', 'implementation': ans[:300]}
                        elif not ans.startswith('T=') or content.encode().hex() not in ans:
                            bad = {'request': q, 'expected': 'the text of the included file', 'implementation': ans[:300]}
                    if bad:
                        break
        if len(samples) < 3:
            samples.append({'mappings': c['maps'], 'requests': c['reqs'][:6], 'answers': a[:6]})
        if bad:
            n_or += 1
            if n_or <= 3:
                rep.violation('oracle', {'property': 'C16', 'kind': 'resolution', 'seed': ctx.seed, 'case': c['id'], 'mappings': c['maps'],
                                         'files': sorted(c['files']), 'difference': bad, 'line': c['line'][:9000]})
    cov = {'evaluations': len(cases), 'requests': n_req, 'distinct_nontrivial': len(distinct),
           'rule': 'directory trees (six directories, up to four file names each) created on disk, one to four mappings of physical directories to virtual prefixes (nested and overlapping prefixes, several roots per prefix, backslash and trailing-slash spellings, the root prefix), 6-13 requests each: existing files, missing files, traversal attempts (.. in front of, inside and behind the mapped prefix, with backslashes, into an unmapped sibling directory, to a file outside all roots, to /etc/passwd), messy spellings (doubled separators, backslashes, surrounding blanks, ./, missing leading slash, trailing slash, other case), absolute physical paths inside and outside the roots, paths relative to a current file; unmapped sibling directories whose names extend the name of a mapped directory (absolute and ../ requests into them); nested prefixes whose inner mapping hides a directory of the outer root (requests for files that exist only there); one run whose includes in two directories spell the same relative name; through fileio.get_info and through loadFile, preprocessFile, execVM and #include; oracle: an answer is an existing file below a mapped directory; clean absolute requests resolve exactly as the rule says (deepest mapped prefix, first root holding the file); every operator acts on exactly the file get_info resolves the same request to; the Lean model must give the same answer (physical and virtual path) to every get_info request',
           'samples': samples, 'oracle_failures': n_or, 'model_mismatches': n_mm, 'requests_by_kind': kinds, 'requests_resolved': n_found,
           'clean_requests_checked_against_the_rule': n_clean, 'generator_counts': g.stats}
    return rep.finish(cov, ['symbolic links are not exercised: "below a mapped directory" is lexical, as in the property',
                            'the model root is one path component (/$R) while the real scratch directory is four levels deep; requests that climb above the root are outside every mapping in both',
                            'PBO-backed nodes are exercised by C17, not here'])
