"""C02 — control structures execute the statements SQF semantics prescribe."""
from .. import core
from . import vmcommon as vc


def run(ctx):
    rep = core.Report(ctx)
    if not vc.prepare(ctx, 'C02'):
        return rep.finish({'evaluations': 0, 'distinct_nontrivial': 0, 'rule': 'harness did not build', 'samples': []}, [])
    quick = ctx.tier == 'quick'
    n_ast, n_str, depth = (2500, 1000, 3) if quick else (40000, 15000, 4)
    cases = vc.load_corpus('C02')
    a, st1 = vc.gen_ast_cases(ctx, n_ast, 'a', depth=depth)
    b, st2 = vc.gen_str_cases(ctx, n_str, 's', depth=depth)
    cases += a + b
    impl, model = vc.run_cases(ctx, cases)
    n_or = n_mm = n_ref = 0
    distinct = set()
    samples = []
    for c in cases:
        got = impl.get(c['id'])
        obs = vc.parse_obs(got)
        distinct.add(c['text'])
        if len(samples) < 5 and len(c['text']) > 120:
            samples.append({'program': c['text'], 'observation': (got or '').split(' T: ')[0]})
        bad = vc.ref_oracle(c, obs) or vc.expect_oracle(c, obs)
        if c.get('ref_status') == 'ok':
            n_ref += 1
        if bad:
            n_or += 1
            if n_or <= 3:
                rep.violation('oracle', {'property': 'C02', 'kind': 'reference-semantics', 'seed': ctx.seed, 'case': c['id'],
                                         'program': c['text'], 'difference': bad, 'implementation': (got or '')[:2000],
                                         'line': c['line']})
        elif model is not None and got != model.get(c['id']):
            n_mm += 1
            if n_mm <= 3:
                rep.violation('correspondence', {'property': 'C02', 'kind': 'model-vs-implementation', 'seed': ctx.seed, 'case': c['id'],
                                                 'program': c['text'], 'implementation': (got or '')[:4000],
                                                 'model': (model.get(c['id']) or '')[:4000], 'line': c['line']})
    cov = {'evaluations': len(cases), 'distinct_nontrivial': len(distinct),
           'rule': 'type-directed random programs over if/then/else, exitWith, while, for (incl. negative step), forEach, count/select/apply/findIf with code, switch-case-default with fall-through, call, try-catch-throw, scopeName/breakOut, lazy &&/|| — every statement appends to a trace array; each program is run instruction by instruction on the implementation and on the Lean model (per-instruction frame bases + value stack compared) and its trace/globals/value are compared with an independent structured reference interpreter; distinct by program text',
           'samples': samples, 'oracle_failures': n_or, 'model_mismatches': n_mm, 'reference_decided': n_ref,
           'size_histogram': vc.histogram(cases), 'construct_counts': {'ast': st1, 'str': st2}}
    return rep.finish(cov, ['scalars stay in the exact-integer range of single floats', 'operators outside the modelled fragment are never generated',
                            'the reference interpreter (gen/sqfast.py) is the executable statement of the reference semantics'])
