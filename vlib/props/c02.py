"""C02 — control structures execute the statements SQF semantics prescribe."""
from .. import core
from . import vmcommon as vc


def run(ctx):
    rep = core.Report(ctx)
    if not vc.prepare(ctx, 'C02'):
        return rep.finish({'evaluations': 0, 'distinct_nontrivial': 0, 'rule': 'harness did not build', 'samples': []}, [])
    quick = ctx.tier == 'quick'
    n_ast, n_str, depth = (2500, 1000, 3) if quick else (40000, 15000, 4)
    cases = vc.load_corpus('C02')
    a, st1 = vc.gen_ast_cases(ctx, n_ast, 'a', depth=depth)
    b, st2 = vc.gen_str_cases(ctx, n_str, 's', depth=depth)
    cases += a + b
    impl, model = vc.run_cases(ctx, cases)
    n_or = n_mm = n_ref = 0
    distinct = set()
    samples = []
    for c in cases:
        got = impl.get(c['id'])
        obs = vc.parse_obs(got)
        distinct.add(c['text'])
        if len(samples) < 5 and len(c['text']) > 120:
            samples.append({'program': c['text'], 'observation': (got or '').split(' T: ')[0]})
        bad = vc.ref_oracle(c, obs) or vc.expect_oracle(c, obs)
        if c.get('ref_status') == 'ok':
            n_ref += 1
        if bad:
            n_or += 1
            if n_or <= 3:
                rep.violation('oracle', {'property': 'C02', 'kind': 'reference-semantics', 'seed': ctx.seed, 'case': c['id'],
                                         'program': c['text'], 'difference': bad, 'implementation': (got or '')[:2000],
                                         'line': c['line']})
        elif model is not None and got != model.get(c['id']):
            n_mm += 1
            if n_mm <= 3:
                rep.violation('correspondence', {'property': 'C02', 'kind': 'model-vs-implementation', 'seed': ctx.seed, 'case': c['id'],
                                                 'program': c['text'], 'implementation': (got or '')[:4000],
                                                 'model': (model.get(c['id']) or '')[:4000], 'line': c['line']})
    # while loops in unscheduled code under a small iteration cap (start verb, cap 7): a loop the cap ends has evaluated its
    # condition as often as it has run its body; a loop that ends by itself has evaluated it once more
    import re as _re
    from ..core import hexf as _hexf
    wr = ctx.rng.fork('while-cap')
    wcases = []
    for i in range(60 if quick else 600):
        k = 1 + wr.below(12)
        capped = k >= 7          # after 7 passes the cap ends the loop before the condition is evaluated again
        cond = wr.choice(['c = c + 1; c <= %d' % k, 'c = c + 1; c < %d' % (k + 1), 'c = c + 1; !(c > %d)' % k])
        body = wr.choice(['d = d + 1', 'd = d + 1; d', 'd = d + 1; call { d }', 'd = d + 1; if (d > 100) then { d = 0 }'])
        text = 'c = 0; d = 0; while { %s } do { %s }; done = 1' % (cond, body)
        cid = 'w%d' % i
        wcases.append({'id': cid, 'text': text, 'want': (7, 7) if capped else (k + 1, k),
                       'line': 'start %s %s %s %s %s %s' % (cid, _hexf(text), _hexf('c,d,done'), _hexf('0'), _hexf('7'), _hexf('0'))})
    wimpl, wmodel = ctx.run_pair([c['line'] for c in wcases], timeout_ms=8000)
    for c in wcases:
        got = wimpl.get(c['id']) or ''
        distinct.add(c['text'])
        m = _re.search(r' c=(\S+) d=(\S+) done=(\S+)$', got)
        bad = None
        if not m or (m.group(1), m.group(2), m.group(3)) != (str(c['want'][0]), str(c['want'][1]), '1'):
            bad = {'expected': 'condition evaluated %d times, body run %d times, the statement behind the loop reached' % c['want'], 'implementation': got[:300]}
        if bad:
            n_or += 1
            if n_or <= 3:
                rep.violation('oracle', {'property': 'C02', 'kind': 'while-under-the-iteration-cap', 'seed': ctx.seed, 'case': c['id'], 'program': c['text'],
                                         'max_loops': 7, 'difference': bad, 'line': c['line']})
        elif wmodel is not None and got != (wmodel.get(c['id']) or ''):
            n_mm += 1
            if n_mm <= 3:
                rep.violation('correspondence', {'property': 'C02', 'kind': 'model-vs-implementation (while under the iteration cap)', 'seed': ctx.seed, 'case': c['id'],
                                                 'program': c['text'], 'implementation': got[:1000], 'model': (wmodel.get(c['id']) or '')[:1000], 'line': c['line']})
    cov = {'evaluations': len(cases) + len(wcases), 'distinct_nontrivial': len(distinct), 'while_loops_under_a_cap': len(wcases),
           'rule': 'type-directed random programs over if/then/else, exitWith, while, for (incl. negative step), forEach, count/select/apply/findIf with code, switch-case-default with fall-through, call, try-catch-throw, scopeName/breakOut, lazy &&/|| — every statement appends to a trace array; each program is run instruction by instruction on the implementation and on the Lean model (per-instruction frame bases + value stack compared) and its trace/globals/value are compared with an independent structured reference interpreter; distinct by program text; plus while loops in unscheduled code under an iteration cap of 7 (condition and body count their evaluations)',
           'samples': samples, 'oracle_failures': n_or, 'model_mismatches': n_mm, 'reference_decided': n_ref,
           'size_histogram': vc.histogram(cases), 'construct_counts': {'ast': st1, 'str': st2}}
    return rep.finish(cov, ['scalars stay in the exact-integer range of single floats', 'operators outside the modelled fragment are never generated',
                            'the reference interpreter (gen/sqfast.py) is the executable statement of the reference semantics'])
