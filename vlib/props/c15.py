"""C15 — config tree: values read back, inheritance lookup, merge/delete/append, acyclic."""
import json
import os
import sys

from .. import core
from ..core import hexf
from . import vmcommon as vc

sys.path.insert(0, os.path.join(core.VERIF, 'gen'))
import cfggen  # noqa: E402
from . import cfgtext  # noqa: E402


def make_line(cid, texts, ser, qser):
    return 'cfg %s %s %s %s' % (cid, hexf('\x01'.join(texts)), hexf(ser), hexf(qser))


def load_corpus():
    out = []
    d = os.path.join(core.VERIF, 'gen', 'corpus', 'C15')
    if os.path.isdir(d):
        for fn in sorted(os.listdir(d)):
            if fn.endswith('.case'):
                o = json.load(open(os.path.join(d, fn)))
                cid = 'k' + fn[:-5]
                out.append({'id': cid, 'texts': o['texts'], 'ser': o['ast'], 'qser': o['queries'], 'expected': o['expected'],
                            'what': o.get('what', ''), 'line': make_line(cid, o['texts'], o['ast'], o['queries'])})
    return out


def run(ctx):
    rep = core.Report(ctx)
    if not vc.prepare(ctx, 'C15'):
        return rep.finish({'evaluations': 0, 'distinct_nontrivial': 0, 'rule': 'harness did not build', 'samples': []}, [])
    quick = ctx.tier == 'quick'
    n = 2500 if quick else 40000
    g = cfggen.CfgGen(ctx.rng.fork('cfg'))
    cases = load_corpus()
    for i in range(n):
        c = g.case()
        c['id'] = 'c%d' % i
        c['line'] = make_line(c['id'], c['texts'], c['ser'], c['qser'])
        cases.append(c)
    impl, model = vc.run_cases(ctx, cases, timeout_ms=10000)
    n_or = n_mm = 0
    nq = 0
    distinct = set()
    samples = []
    for c in cases:
        got = impl.get(c['id'])
        distinct.add(c['line'])
        parts = (got or '').split(' ; ')
        vals = [p.split('|')[0] for p in parts[1:]]
        nq += len(c['expected'])
        bad = None
        if not parts[0].startswith('load=') or '0' in parts[0].split('/')[0]:
            bad = {'expected': 'every generated text is accepted by the config parser', 'implementation': (got or '')[:300]}
        elif vals != list(c['expected']):
            k = next((i for i, (a, b) in enumerate(zip(vals, c['expected'])) if a != b), min(len(vals), len(c['expected'])))
            bad = {'query_index': k, 'query': c['qser'].split(';')[k] if k < len(c['qser'].split(';')) else None,
                   'expected': c['expected'][k] if k < len(c['expected']) else None, 'implementation': vals[k] if k < len(vals) else (got or '')[:200]}
        if len(samples) < 3:
            samples.append({'texts': [t[:300] for t in c['texts']], 'queries': c['qser'][:300], 'observation': (got or '')[:400]})
        if bad:
            n_or += 1
            if n_or <= 3:
                rep.violation('oracle', {'property': 'C15', 'kind': 'config-queries', 'seed': ctx.seed, 'case': c['id'], 'texts': c['texts'],
                                         'queries': c['qser'], 'difference': bad, 'line': c['line']})
        elif model is not None and got != model.get(c['id']):
            n_mm += 1
            if n_mm <= 3:
                rep.violation('correspondence', {'property': 'C15', 'kind': 'model-vs-implementation', 'seed': ctx.seed, 'case': c['id'],
                                                 'texts': c['texts'], 'queries': c['qser'], 'implementation': (got or '')[:3000],
                                                 'model': (model.get(c['id']) or '')[:3000], 'line': c['line']})
    texts = []
    for c in cases[:400]:
        texts.extend(c['texts'])
    ctcov = cfgtext.explore(ctx, rep, 'C15', 2500 if quick else 50000, extra_texts=texts)
    cov = {'evaluations': len(cases) + ctcov['config_texts'], 'queries': nq, 'config_text_front_end': ctcov, 'distinct_nontrivial': len(distinct),
           'rule': 'one to three config texts per case generated from an AST (nested classes to depth 3, base classes chosen from a small name pool so that undefined, self, forward and cyclic bases occur, forward declarations, re-opened classes, delete of fields and classes, scalar/string/bare-text fields, nested arrays, +=) loaded in order into one VM, followed by 8-15 queries (paths of >>, select, inheritsFrom ending in getNumber/getText/getArray/isNumber/isText/isArray/isClass/isNull/configName/count/configHierarchy/configClasses or the config itself); the implementation parses the text, the Lean model receives the AST; oracle: a Python reference with classes as objects (dictionary of entries, base, enclosing class); values compared with the reference, values and diagnostic codes with the model; distinct by case line',
           'samples': samples, 'oracle_failures': n_or, 'model_mismatches': n_mm, 'generator_counts': g.stats}
    return rep.finish(cov, ['the config text parser is modelled (SqfModel/CfgText.lean: tokenizer and the shift-preferring reading of the grammar) and compared tree for tree with the Bison parser of the current tree; the tree model (Config.lean) consumes the tree the generator built the text from',
                            'block comments are not generated: the config tokenizer leaves the closing */ behind (comments are normally removed by the preprocessor)',
                            'names are compared case-sensitively, as the implementation does',
                            'configProperties is not covered (its inherited mode is exercised by C09)'])
