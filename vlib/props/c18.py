"""C18 — C API contract: truthful return codes, complete logging, reusable instances."""
import os
import re
import sys

from .. import core
from ..core import hexf
from . import vmcommon as vc

sys.path.insert(0, os.path.join(core.VERIF, 'gen'))
import apigen  # noqa: E402


def load_corpus():
    import json
    out = []
    d = os.path.join(core.VERIF, 'gen', 'corpus', 'C18')
    if os.path.isdir(d):
        for fn in sorted(os.listdir(d)):
            if fn.endswith('.case'):
                o = json.load(open(os.path.join(d, fn)))
                cid = 'k' + fn[:-5]
                out.append({'id': cid, 'ops': o['ops'], 'exp': o['expected'], 'tags': [tuple(t) if t else None for t in o.get('tags', [None] * len(o['expected']))],
                            'line': 'api %s %s' % (cid, hexf(o['ops'])), 'what': o.get('what', '')})
    return out


def check_case(c, got):
    """oracle: return codes the history dictates, tags of every callback"""
    parts = (got or '').split(' ; ')
    if len(parts) != len(c['exp']):
        return {'expected': '%d operation results' % len(c['exp']), 'implementation': (got or '')[:400]}
    for k, (p, e, tg) in enumerate(zip(parts, c['exp'], c['tags'])):
        m = re.match(r'(ok|null|rc=-?\d+|bad-op)((?:\[-?\d+:\d+:\d+\])*)$', p)
        if not m:
            return {'op_index': k, 'op': c['ops'].split('\n')[k][:200], 'expected': e, 'implementation': p[:300]}
        if e is not None and m.group(1) != e:
            return {'op_index': k, 'op': c['ops'].split('\n')[k][:200], 'expected': e, 'implementation': m.group(1)}
        if tg is not None:
            for lv, us, ca in re.findall(r'\[(-?\d+):(\d+):(\d+)\]', m.group(2)):
                if int(us) != tg[0] or (tg[1] is not None and int(ca) != tg[1]):
                    return {'op_index': k, 'op': c['ops'].split('\n')[k][:200], 'expected_tags': list(tg), 'implementation': p[:300]}
    return None


def run(ctx):
    rep = core.Report(ctx)
    if not vc.prepare(ctx, 'C18'):
        return rep.finish({'evaluations': 0, 'distinct_nontrivial': 0, 'rule': 'harness did not build', 'samples': []}, [])
    quick = ctx.tier == 'quick'
    n = 3000 if quick else 20000
    g = apigen.ApiGen(ctx.rng.fork('api'))
    cases = load_corpus()
    for i in range(n):
        ops, exp, tags = g.history()
        cid = 'a%d' % i
        cases.append({'id': cid, 'ops': ops, 'exp': exp, 'tags': tags, 'line': 'api %s %s' % (cid, hexf(ops))})
    impl, model = vc.run_cases(ctx, cases, timeout_ms=15000)
    n_or = n_mm = nops = 0
    distinct = set()
    samples = []
    for c in cases:
        got = impl.get(c['id'])
        distinct.add(c['ops'])
        nops += len(c['exp'])
        bad = check_case(c, got)
        if len(samples) < 3:
            samples.append({'history': c['ops'][:700], 'observation': (got or '')[:500]})
        if bad:
            n_or += 1
            if n_or <= 3:
                rep.violation('oracle', {'property': 'C18', 'kind': 'api-history', 'seed': ctx.seed, 'case': c['id'], 'history': c['ops'],
                                         'difference': bad, 'implementation': (got or '')[:2000], 'line': c['line']})
        elif model is not None and got != model.get(c['id']):
            n_mm += 1
            if n_mm <= 3:
                rep.violation('correspondence', {'property': 'C18', 'kind': 'model-vs-implementation', 'seed': ctx.seed, 'case': c['id'],
                                                 'history': c['ops'], 'implementation': (got or '')[:3000], 'model': (model.get(c['id']) or '')[:3000],
                                                 'line': c['line']})
    cov = {'evaluations': len(cases), 'operations': nops, 'distinct_nontrivial': len(distinct),
           'rule': 'histories of 5-25 API operations on up to three instances created with different user data and time limits (none, 125 ms, 250 ms under a virtual clock): calls of every type (s, p, 1, unknown) with succeeding, runtime-failing, throwing, unparsable, unpreprocessable, non-terminating and spawning scripts, config loads (good, unparsable, unpreprocessable), status queries, destroy, entry points on a null and on a foreign handle; probe scripts turn "is this global set" into a return code, so persistence within an instance and isolation between instances are observed through the API alone; oracle: return code expected from the history, status 0 after every call, user data and call data of every callback; the model must reproduce return codes and the level, user data and call data of every callback; distinct by history text; histories also hold calls whose text is evaluated while it is preprocessed (__EVAL, also spawning a script in a call that executes nothing), calls that end their run with exit__, texts with #define / #ifdef of one macro name spread over the calls, assembly texts that are rejected, calls that select a print mode (toFixed) and later calls that print numbers',
           'samples': samples, 'oracle_failures': n_or, 'model_mismatches': n_mm, 'generator_counts': g.stats}
    return rep.finish(cov, ['the preprocessor is a parameter of the model: the histories use texts it passes through unchanged or rejects (#bogus)',
                            "the assembly ('a') and SQC ('c') call types are not exercised",
                            'use of a handle after sqfvm_destroy_instance is outside the contract (the handle memory is freed) and not exercised',
                            'the text handed to the callback is not compared, only severity, user data and call data'])
