"""C05 — operand stack partitioned per scope; a scope yields exactly one value."""
from .. import core
from . import vmcommon as vc


def run(ctx):
    rep = core.Report(ctx)
    if not vc.prepare(ctx, 'C05'):
        return rep.finish({'evaluations': 0, 'distinct_nontrivial': 0, 'rule': 'harness did not build', 'samples': []}, [])
    quick = ctx.tier == 'quick'
    n_ast, n_str, depth = (1500, 2000, 3) if quick else (20000, 40000, 4)
    cases = vc.load_corpus('C05')
    a, st1 = vc.gen_ast_cases(ctx, n_ast, 'a', depth=depth, errors=True)
    b, st2 = vc.gen_str_cases(ctx, n_str, 's', depth=depth, errors=True)
    cases += a + b
    impl, model = vc.run_cases(ctx, cases)
    n_or = n_mm = n_steps = 0
    distinct = set()
    samples = []
    for c in cases:
        got = impl.get(c['id'])
        obs = vc.parse_obs(got)
        steps = vc.trace_steps(got)
        n_steps += len(steps)
        if len(steps) >= 10:
            distinct.add(c['text'])
        if len(samples) < 4 and 20 <= len(steps) <= 60:
            samples.append({'program': c['text'], 'trace': (got or '')[:1500]})
        viol = vc.inv_monitor(steps)
        bad = None
        if viol is not None:
            bad = {'monitor': 'bases not monotone / above the stack height', 'step': viol, 'state': steps[viol][:2]}
        else:
            bad = vc.expect_oracle(c, obs) or vc.ref_oracle(c, obs)
        if bad:
            n_or += 1
            if n_or <= 3:
                rep.violation('oracle', {'property': 'C05', 'kind': 'stack-discipline', 'seed': ctx.seed, 'case': c['id'],
                                         'program': c['text'], 'difference': bad, 'implementation': (got or '')[:4000], 'line': c['line']})
        elif model is not None and got != model.get(c['id']):
            n_mm += 1
            if n_mm <= 3:
                rep.violation('correspondence', {'property': 'C05', 'kind': 'model-vs-implementation (per-instruction bases and value stack)',
                                                 'seed': ctx.seed, 'case': c['id'], 'program': c['text'],
                                                 'implementation': (got or '')[:4000], 'model': (model.get(c['id']) or '')[:4000], 'line': c['line']})
    cov = {'evaluations': len(cases), 'distinct_nontrivial': len(distinct),
           'rule': 'random programs that nest value-yielding constructs inside pending expressions (array literals, operands), exit early, break out, throw, raise runtime errors; the implementation is single-stepped and after every instruction the frame bases and the whole value stack are compared with the Lean model; the partition invariant is additionally evaluated on the implementation\'s own trace; non-trivial = at least 10 instructions executed, distinct by text',
           'samples': samples, 'oracle_failures': n_or, 'model_mismatches': n_mm, 'instruction_boundaries_checked': n_steps,
           'size_histogram': vc.histogram(cases), 'construct_counts': {'ast': st1, 'str': st2}}
    return rep.finish(cov, ['context switches between scheduled scripts are covered by C12 (each context owns its stack in the model and in the code)'])
