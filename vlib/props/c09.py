"""C09 — every operator is total and memory-safe on all type-correct arguments."""
import os
import subprocess
import sys
import threading

from .. import core
from ..core import hexf
from . import vmcommon as vc

sys.path.insert(0, os.path.join(core.VERIF, 'gen'))
import opgen  # noqa: E402
import kerngen  # noqa: E402


def run_sharded(ctx, variant, lines, shards=12, timeout_ms=6000, mem_mb=None):
    """the `op` cases are independent: several harness processes work through them side by side"""
    res = {}

    def work(k, chunk):
        wd = os.path.join(core.SCRATCH, 'op-%d-%d' % (os.getpid(), k))
        os.makedirs(wd, exist_ok=True)
        env = dict(os.environ, VH_TIMEOUT_MS=str(timeout_ms), UBSAN_OPTIONS='halt_on_error=1:abort_on_error=1',
                   ASAN_OPTIONS='detect_leaks=0:abort_on_error=1:hard_rss_limit_mb=6000:max_allocation_size_mb=3000')
        if mem_mb:
            env['VH_MEM_MB'] = str(mem_mb)
        try:
            p = subprocess.Popen([ctx.vh(variant)], stdin=subprocess.PIPE, stdout=subprocess.PIPE, stderr=subprocess.DEVNULL, cwd=wd, env=env)
            o, _ = p.communicate(('\n'.join(chunk) + '\n').encode())
            for ln in o.decode('latin-1').split('\n'):
                if ln:
                    sp = ln.find(' ')
                    res[ln[:sp] if sp > 0 else ln] = ln[sp + 1:] if sp > 0 else ''
        finally:
            subprocess.run(['rm', '-rf', wd])
    th = []
    for k in range(shards):
        chunk = lines[k::shards]
        if chunk:
            t = threading.Thread(target=work, args=(k, chunk))
            t.start()
            th.append(t)
    for t in th:
        t.join()
    return res


def classify(ans, mem_limit_mb=400):
    """None when the call completed with a value or an SQF diagnostic; else what went wrong"""
    if ans is None:
        return 'no answer from the harness'
    if ans.startswith('crash') or ans.startswith('timeout') or ans.startswith('cpp-exception') or ans.startswith('exit:'):
        return ans
    if ans.startswith('res='):
        f = dict(x.split('=', 1) for x in ans.split(' ') if '=' in x)
        if f.get('res') not in ('empty', 'runtime_error', 'ok', 'limit', 'timeout_error'):
            return 'the VM ended in state %s' % f.get('res')
        try:
            if int(f.get('dmem', '0')) > mem_limit_mb:
                return 'resident memory grew by %s MB' % f['dmem']
        except ValueError:
            pass
        return None
    if ans in ('parse-error', 'setup-parse-error'):
        return None
    return 'unexpected answer: ' + ans[:60]


def run(ctx):
    rep = core.Report(ctx)
    if not vc.prepare(ctx, 'C09'):
        return rep.finish({'evaluations': 0, 'distinct_nontrivial': 0, 'rule': 'harness did not build', 'samples': []}, [])
    quick = ctx.tier == 'quick'
    dump = os.path.join(core.SCRATCH, 'registry.dump')
    sigs = opgen.load_signatures(dump)
    g = opgen.OpGen(ctx.rng.fork('ops'), sigs)
    cases = g.cases(5 if quick else 14, full_product_up_to=500 if quick else 3000)
    lines = ['op c%d %s %s' % (i, hexf(t.encode('latin-1', 'replace')), hexf(s.encode('latin-1')) or '-') for i, (sig, t, s) in enumerate(cases)]
    variants = [('rel', 4000)]
    if not quick:
        ok, log = ctx.build('asan')
        if ok:
            variants.append(('asan', None))
        else:
            ctx.broken.append(('sanitizer-build', log[-400:]))
    n_bad = 0
    per_variant = {}
    worst = {}
    for variant, mem in variants:
        res = run_sharded(ctx, variant, lines, mem_mb=mem)
        # the sanitizer's allocator keeps freed memory in quarantine: growth of the resident set means less there
        limit = 400 if variant == 'rel' else 2500
        # a time-out may be the machine's (many processes side by side): such cases run once more, one at a time, with a wide limit
        again = [i for i in range(len(cases)) if (res.get('c%d' % i) or 'timeout').startswith('timeout') or res.get('c%d' % i) is None]
        if again:
            res.update(run_sharded(ctx, variant, [lines[i] for i in again], shards=2, timeout_ms=30000, mem_mb=mem))
        bad_here = 0
        for i, (sig, t, s) in enumerate(cases):
            c = classify(res.get('c%d' % i), limit)
            if c:
                bad_here += 1
                key = (sig[1], c.split(':')[0])
                worst.setdefault(key, []).append((t, s, c, variant))
        per_variant[variant] = {'cases': len(cases), 'failures': bad_here}
    for (name, kind), lst in sorted(worst.items()):
        n_bad += 1
        if n_bad <= 5:
            t, s, c, variant = lst[0]
            rep.violation('oracle', {'property': 'C09', 'kind': 'operator call did not complete', 'seed': ctx.seed, 'operator': name, 'build': variant,
                                     'expression': t, 'setup': s, 'difference': {'expected': 'a value or an SQF diagnostic', 'implementation': c},
                                     'other_expressions_of_this_operator_failing_the_same_way': [x[0] for x in lst[1:6]],
                                     'line': 'op x %s %s' % (hexf(t.encode('latin-1', 'replace')), hexf(s.encode('latin-1')) or '-')})
    # value for value: the modelled operators on boundary values
    kg = kerngen.KernGen(ctx.rng.fork('kern'))
    kcases = []
    for i in range(1500 if quick else 20000):
        p = kg.program()
        kcases.append({'id': 'k%d' % i, 'text': p, 'line': 'run k%d %s %s %s' % (i, hexf(p.encode('latin-1')), hexf('tr,g1,g2,gx'), hexf('20000'))})
    impl, model = vc.run_cases(ctx, kcases, timeout_ms=8000)
    n_mm = 0
    distinct = set()
    samples = []
    for c in kcases:
        distinct.add(c['text'])
        a = impl.get(c['id'])
        b = model.get(c['id']) if model is not None else None
        if len(samples) < 3:
            samples.append({'program': c['text'], 'observation': (a or '')[:200]})
        if a is None or a.startswith('crash') or a.startswith('timeout') or a.startswith('cpp-exception'):
            n_bad += 1
            if n_bad <= 8:
                rep.violation('oracle', {'property': 'C09', 'kind': 'operator call did not complete', 'seed': ctx.seed, 'program': c['text'],
                                         'difference': {'expected': 'a value or an SQF diagnostic', 'implementation': a}, 'line': c['line']})
        elif b is not None and a != b:
            n_mm += 1
            if n_mm <= 3:
                rep.violation('correspondence', {'property': 'C09', 'kind': 'model-vs-implementation', 'seed': ctx.seed, 'program': c['text'],
                                                 'implementation': a, 'model': b, 'line': c['line']})
    # containers that operators tried to make cyclic (through arrays, hash map values and hash map keys) handed to the
    # operators that walk a whole value — printing, comparing, copying, hashing as a key: every one must complete
    import heapgen
    cg = heapgen.CycleGen(ctx.rng.fork('walk'))
    wcases = []
    for i in range(300 if quick else 4000):
        text, _, _ = cg.history()
        text += ('; tr = [str g1, str g2, str gx, count (str ga), g1 isEqualTo g2, gx isEqualTo ga, (+g1) isEqualTo g1, count (+gx), '
                 'count (createHashMapFromArray [[g1, 1], [g2, 2]]), (createHashMapFromArray [[[gx], 1]]) get [gx], g1 find g2, [g1, gx] isEqualTo [g2, ga]]')
        wcases.append({'id': 'w%d' % i, 'text': text, 'line': 'run w%d %s %s %s' % (i, hexf(text), hexf('tr'), hexf('20000'))})
    wimpl, _ = ctx.run_pair([c['line'] for c in wcases], timeout_ms=8000, model=False)
    n_walk_bad = 0
    for c in wcases:
        a = wimpl.get(c['id'])
        if a is None or a.startswith('crash') or a.startswith('timeout') or a.startswith('cpp-exception') or a.startswith('exit:'):
            n_bad += 1
            n_walk_bad += 1
            if n_walk_bad <= 3:
                rep.violation('oracle', {'property': 'C09', 'kind': 'operator call did not complete (value that operators tried to make cyclic)', 'seed': ctx.seed,
                                         'program': c['text'], 'difference': {'expected': 'a value or an SQF diagnostic', 'implementation': a}, 'line': c['line']})
    cov = {'evaluations': len(cases) * len(variants) + len(kcases) + len(wcases), 'container_walk_programs': len(wcases), 'container_walk_failures': n_walk_bad, 'distinct_nontrivial': len(set(t for _, t, _ in cases)) + len(distinct),
           'rule': 'every registered signature (name, left type, right type) of the registry dumped from the linked runtime on this run, with boundary values of its argument types: numbers (0, -0, halves, 2^24, 2^31 and 2^32 and their neighbours, 1e10, 9.2e18, 1e38, infinities, NaN, denormals), strings (empty, %-placeholders with huge numbers, long, non-ASCII, names of files of 0-3 bytes), arrays (empty, nested, wrong element types, [200, 2e9]-style ranges, 100000 nils, 40 sub-arrays, shapes for sort), code (empty, nil, throwing, wrong result type), null and live objects and groups, configs, sides, namespaces, hash maps, scripts, controls; every combination where both types are specific and the product is small, sampled otherwise; plus uses whose code argument changes the array or map being walked; each call in a fresh VM in a forked child under a 2 s VM limit, a 6 s watchdog and a 4 GB address space limit; a call must end with a value or an SQF diagnostic — no signal, no escaped C++ exception, no time-out, no growth of the resident set beyond 400 MB; the thorough tier repeats everything in an AddressSanitizer/UBSan build (with float-cast-overflow); for select, resize, deleteAt, deleteRange, set, sort, format and iteration over a changing array, programs on boundary values are also compared value for value (result, array behind the call, diagnostics) with the Lean model',
           'samples': samples, 'operator_failures': n_bad, 'model_mismatches': n_mm, 'signatures': len(g.sigs), 'builds': per_variant,
           'generator_counts': dict(g.stats, **{'kern:' + k: v for k, v in kg.stats.items()})}
    return rep.finish(cov, ['operators that end the process, wait for input or reach outside by design are skipped: ' + ', '.join(sorted(opgen.SKIP)),
                            'the theorems are about the operators of the model; about 2500 of the registered signatures are stubs that log "not implemented", for them and for every other operator outside the model the check explores and proves nothing',
                            'memory safety of the implementation is observable only through the sanitizer build of the thorough tier',
                            'std::sort is not stable: programs that sort use distinct keys'])
