"""C04 — runtime errors are never silent, never skipped over, never leak into later code."""
from .. import core
from . import vmcommon as vc

import sqfast
import apigen
from . import c18
from ..core import hexf


def error_oracle(case, obs):
    """an injected ill-typed operation was executed (per the reference semantics): the run must be
    reported as failed, with diagnostics, and no marker after the failing statement may have run"""
    if case.get('ref_status') != 'error' or obs is None or 'res' not in obs:
        return None
    it = case['ref']
    if obs['res'] == 'limit':
        return None          # the harness stopped the run at its instruction limit before the failing statement: undecided
    if obs['res'] != 'runtime_error' or obs['st'] != 'halted_error':
        return {'field': 'res', 'expected': 'runtime_error/halted_error', 'implementation': '%s/%s' % (obs['res'], obs['st'])}
    if obs['err'] == '' or not obs['err'].endswith('60001'):
        return {'field': 'err', 'expected': 'error diagnostics ending with the stack trace (60001)', 'implementation': obs['err']}
    if vc.canon(obs['tr']) != sqfast.fmt_value(it.tr):
        return {'field': 'tr', 'expected': sqfast.fmt_value(it.tr), 'implementation': obs['tr'],
                'note': 'statements after the failing one ran (or earlier ones did not)'}
    return None


def run(ctx):
    rep = core.Report(ctx)
    if not vc.prepare(ctx, 'C04'):
        return rep.finish({'evaluations': 0, 'distinct_nontrivial': 0, 'rule': 'harness did not build', 'samples': []}, [])
    quick = ctx.tier == 'quick'
    n_ast, n_str, depth = (3000, 1000, 3) if quick else (50000, 15000, 4)
    cases = vc.load_corpus('C04')
    a, st1 = vc.gen_ast_cases(ctx, n_ast, 'a', depth=depth, errors=True)
    b, st2 = vc.gen_str_cases(ctx, n_str, 's', depth=depth, errors=True)
    cases += a + b
    # sequences of runs on one VM instance (through the embedder API): a failed run must not be blamed on,
    # nor make fail, a later one
    hg = apigen.ApiGen(ctx.rng.fork('runs'))
    hist = []
    for i in range(300 if quick else 5000):
        ops, exp, tags = hg.history()
        hist.append({'id': 'h%d' % i, 'ops': ops, 'exp': exp, 'tags': tags, 'text': ops, 'line': 'api h%d %s' % (i, hexf(ops))})
    impl, model = vc.run_cases(ctx, cases + hist)
    n_hist_bad = 0
    for c in hist:
        got = impl.get(c['id'])
        bad = c18.check_case(c, got)
        if bad:
            n_hist_bad += 1
            if n_hist_bad <= 2:
                rep.violation('oracle', {'property': 'C04', 'kind': 'runs-on-one-vm', 'seed': ctx.seed, 'case': c['id'], 'history': c['ops'],
                                         'difference': bad, 'implementation': (got or '')[:2000], 'line': c['line']})
        elif model is not None and got != model.get(c['id']):
            n_hist_bad += 1
            if n_hist_bad <= 2:
                rep.violation('correspondence', {'property': 'C04', 'kind': 'runs-on-one-vm model-vs-implementation', 'seed': ctx.seed, 'case': c['id'],
                                                 'history': c['ops'], 'implementation': (got or '')[:2000], 'model': (model.get(c['id']) or '')[:2000],
                                                 'line': c['line']})
    n_or = n_mm = n_err = n_ok = 0
    distinct = set()
    samples = []
    kinds = {}
    for c in cases:
        got = impl.get(c['id'])
        obs = vc.parse_obs(got)
        if c.get('ref_status') == 'error':
            n_err += 1
            distinct.add(c['text'])
            if len(samples) < 5:
                samples.append({'program': c['text'], 'observation': (got or '').split(' T: ')[0]})
        elif c.get('ref_status') == 'ok':
            n_ok += 1
        if obs and 'err' in obs and obs['err']:
            for code in obs['err'].split(','):
                kinds[code] = kinds.get(code, 0) + 1
        bad = vc.expect_oracle(c, obs) or error_oracle(c, obs) or vc.ref_oracle(c, obs)
        if bad:
            n_or += 1
            if n_or <= 3:
                rep.violation('oracle', {'property': 'C04', 'kind': 'error-handling', 'seed': ctx.seed, 'case': c['id'],
                                         'program': c['text'], 'difference': bad, 'implementation': (got or '')[:3000], 'line': c['line']})
        elif model is not None and got != model.get(c['id']):
            n_mm += 1
            if n_mm <= 3:
                rep.violation('correspondence', {'property': 'C04', 'kind': 'model-vs-implementation', 'seed': ctx.seed, 'case': c['id'],
                                                 'program': c['text'], 'implementation': (got or '')[:4000],
                                                 'model': (model.get(c['id']) or '')[:4000], 'line': c['line']})
    cov = {'evaluations': len(cases), 'distinct_nontrivial': len(distinct),
           'rule': 'well-typed random programs in which one sub-expression is replaced by an ill-typed operation at an arbitrary position (straight-line code, inside loop/iteration behaviours, as last statement, inside try-catch, inside nested blocks, inside and below except__ handlers incl. nested handlers, exitWith bodies and frames with pending operands); plus histories of runs on one VM instance; oracle: the reference interpreter knows which markers precede the failing statement — the run must end failed with a stack trace and exactly those markers, and error-free programs must end clean; non-trivial = programs in which the injected error is actually reached, distinct by text',
           'samples': samples, 'oracle_failures': n_or, 'model_mismatches': n_mm, 'programs_reaching_the_error': n_err,
           'programs_error_free': n_ok, 'run_histories': len(hist), 'run_history_failures': n_hist_bad, 'error_codes_seen': kinds, 'size_histogram': vc.histogram(cases)}
    return rep.finish(cov, ['sequences of runs on one VM are exercised through the C API histories of C18 (return code per run)', 'message texts are not compared, only numeric codes and levels'])
