"""C10 — front ends are total: any input yields a result or a diagnostic, never a crash."""
import os
import re
import sys

from .. import core
from ..core import hexf
from . import vmcommon as vc

sys.path.insert(0, os.path.join(core.VERIF, 'gen'))
import frontgen  # noqa: E402
from . import cfgtext  # noqa: E402


def files_field(files):
    return '\x01'.join('%s\x02%s' % (k, v) for k, v in files.items())


def judge(kind, got):
    """the totality oracle on one observation of the `front` verb"""
    if got is None:
        return 'no answer'
    m = re.match(r'(\w[\w-]*):(\d+):(\d+):(\S*) det=(\d)', got)
    if not m:
        return 'the front end did not return: %s' % got[:200]
    outcome, errors, det = m.group(1), int(m.group(2)), m.group(5)
    if det != '1':
        return 'two runs on the same input differ'
    if kind in ('sqf', 'cfg', 'pp'):
        if outcome not in ('ok', 'fail'):
            return 'unexpected outcome %s' % outcome
        if outcome == 'fail' and errors == 0:
            return 'the input was rejected without any error diagnostic'
    else:
        if outcome not in ('empty', 'runtime_error'):
            return 'the script did not end normally: %s' % outcome
    return None


def run(ctx):
    rep = core.Report(ctx)
    if not vc.prepare(ctx, 'C10'):
        return rep.finish({'evaluations': 0, 'distinct_nontrivial': 0, 'rule': 'harness did not build', 'samples': []}, [])
    quick = ctx.tier == 'quick'
    n = 500 if quick else 8000
    g = frontgen.FrontGen(ctx.rng.fork('front'))
    cases = []
    for i in range(n):
        kind, text, files = g.seed()
        variants = [('seed', text)] + [g.mutate(text) for _ in range(5)]
        for j, (mk, t) in enumerate(variants):
            tb = t.encode('latin-1', 'replace')
            cid = 'f%d_%d' % (i, j)
            cases.append({'id': cid, 'kind': kind, 'mut': mk, 'text': tb, 'files': files,
                          'line': 'front %s %s %s %s' % (cid, hexf(kind), hexf(tb), hexf(files_field(files)))})
            if kind == 'sqf':
                # the same text through the script-level front end and through the model of the SQF front end
                if j % 3 == 0:
                    cases.append({'id': cid + 'c', 'kind': 'compile', 'mut': mk, 'text': tb, 'files': {},
                                  'line': 'front %sc %s %s -' % (cid, hexf('compile'), hexf(tb))})
                cases.append({'id': cid + 'a', 'kind': 'asm', 'mut': mk, 'text': tb, 'files': {}, 'line': 'asm %sa %s' % (cid, hexf(tb))})
            elif kind == 'pp' and j % 3 == 0 and not files:
                cases.append({'id': cid + 'p', 'kind': 'preprocess', 'mut': mk, 'text': tb, 'files': {},
                              'line': 'front %sp %s %s -' % (cid, hexf('preprocess'), hexf(tb))})
            elif kind == 'cfg' and j % 3 == 0:
                cases.append({'id': cid + 'g', 'kind': 'configparse', 'mut': mk, 'text': tb, 'files': {},
                              'line': 'front %sg %s %s -' % (cid, hexf('configparse'), hexf(tb))})
    impl, model = vc.run_cases(ctx, cases, timeout_ms=20000)
    n_or = n_mm = 0
    outcomes = {}
    samples = []
    distinct = set()
    for c in cases:
        got = impl.get(c['id'])
        distinct.add((c['kind'], c['text']))
        bad = None
        if c['kind'] == 'asm':
            if got is None or got.startswith('crash') or got.startswith('timeout') or got.startswith('cpp-exception'):
                bad = 'the SQF front end did not return: %s' % (got or '')[:100]
            elif model is not None and got != model.get(c['id']):
                n_mm += 1
                if n_mm <= 3:
                    rep.violation('correspondence', {'property': 'C10', 'kind': 'model-vs-implementation (SQF front end on mutated input)', 'seed': ctx.seed,
                                                     'case': c['id'], 'input_hex': c['text'].hex()[:3000], 'implementation': (got or '')[:1500],
                                                     'model': (model.get(c['id']) or '')[:1500], 'line': c['line'][:9000]})
            key = 'asm:' + ('ok' if (got or '').startswith('ok') else (got or '')[:12])
        else:
            bad = judge(c['kind'], got)
            key = '%s:%s' % (c['kind'], (got or '').split(':')[0][:16])
        outcomes[key] = outcomes.get(key, 0) + 1
        if len(samples) < 4 and c['mut'] != 'seed' and c['kind'] != 'asm':
            samples.append({'kind': c['kind'], 'mutation': c['mut'], 'input': c['text'][:200].decode('latin-1'), 'observation': (got or '')[:120]})
        if bad:
            n_or += 1
            if n_or <= 3:
                rep.violation('oracle', {'property': 'C10', 'kind': 'totality (%s, %s)' % (c['kind'], c['mut']), 'seed': ctx.seed, 'case': c['id'],
                                         'input_hex': c['text'].hex()[:4000], 'files': c['files'], 'difference': bad, 'implementation': (got or '')[:400],
                                         'line': c['line'][:9000]})
    # scaling: cost proportional to the input — every scaling input must answer within a short limit
    sc = []
    for i, (kind, text, files, label) in enumerate(g.scaling()):
        tb = text.encode('latin-1')
        sc.append({'id': 's%d' % i, 'kind': kind, 'label': label, 'bytes': len(tb),
                   'line': 'front s%d %s %s %s' % (i, hexf(kind), hexf(tb), hexf(files_field(files)))})
    simpl, _ = ctx.run_pair([c['line'] for c in sc], timeout_ms=8000, model=False)
    n_sc_bad = 0
    for c in sc:
        got = simpl.get(c['id'])
        bad = judge(c['kind'], got)
        if bad:
            n_sc_bad += 1
            if n_sc_bad <= 3:
                rep.violation('oracle', {'property': 'C10', 'kind': 'scaling (%s)' % c['label'], 'seed': ctx.seed, 'case': c['id'], 'input_bytes': c['bytes'],
                                         'difference': bad + ' (limit 4 s per run)', 'line': c['line'][:3000] + ('…' if len(c['line']) > 3000 else '')})
    ctcov = cfgtext.explore(ctx, rep, 'C10', 3000 if quick else 60000)
    cov = {'evaluations': len(cases) + len(sc) + ctcov['config_texts'], 'distinct_nontrivial': len(distinct),
           'rule': 'valid SQF programs, config texts and preprocessor sources (object- and function-like macros, multi-line defines, conditionals, includes, strings and comments containing markers) and five mutations of each (truncation at a random byte, deletion, duplication and swap of spans, insertion of a quote/comment opener/bracket/directive/NUL/0xff, one random byte) through the SQF front end, the config front end and the preprocessor, a third of them also through compile / preprocess__ / configparse__ from a script; oracle: the front end returns twice with identical results, ok or fail, and a failure comes with at least one error diagnostic; mutated SQF inputs are also compared with the Lean model of the SQF front end (instruction listing or parse error); scaling inputs (nesting 2000/9000 deep, 9000 expansions, macro chains, 300000 unclosed brackets, recursive macros and includes) must answer within 4 s per run; distinct by (kind, bytes)',
           'samples': samples, 'oracle_failures': n_or + n_sc_bad, 'model_mismatches': n_mm, 'outcomes': outcomes, 'mutation_counts': g.stats,
           'config_text_front_end': ctcov,
           'scaling_inputs': [{'label': c['label'], 'bytes': c['bytes'], 'observation': (simpl.get(c['id']) or '')[:40]} for c in sc]}
    return rep.finish(cov, ['the preprocessor is explored here, not modelled (its model belongs to C13); the config tokenizer and grammar are modelled (SqfModel/CfgText.lean) and compared token for token and tree for tree',
                            '"time proportional to the input" is observed through the scaling inputs and the per-case time limit, it is a theorem only for the tokenizer model (token count)',
                            'reads outside the input buffer are observed only in a sanitizer build (thorough tier of C09/C17), the tokenizer model cannot read outside by construction'])
