"""C13 — preprocessor output equals the reference expansion; strings are inviolate."""
import os
import sys

from .. import core
from ..core import hexf
from . import vmcommon as vc

sys.path.insert(0, os.path.join(core.VERIF, 'gen'))
import ppgen  # noqa: E402

HEADER = '#line 0 "/$R/main.sqf"\n'


def files_field(files):
    return '\x01'.join('%s\x02%s' % (k, v) for k, v in files.items())


def parse(ans):
    """('ok', text) | ('fail', [codes]) | ('other', raw)"""
    if ans is None:
        return 'other', 'no answer'
    parts = ans.split(' ')
    if parts[0] == 'ok':
        try:
            return 'ok', bytes.fromhex(parts[1] if len(parts) > 1 and not parts[1].startswith('warn=') else '').decode('latin-1')
        except ValueError:
            return 'other', ans[:200]
    if parts[0] == 'fail':
        codes = parts[1] if len(parts) > 1 and not parts[1].startswith('warn=') else ''
        return 'fail', [c for c in codes.split(',') if c]
    return 'other', ans[:200]


def corpus_cases():
    d = os.path.join(core.VERIF, 'gen', 'corpus', 'C13')
    out = []
    if os.path.isdir(d):
        for fn in sorted(os.listdir(d)):
            if fn.endswith('.case'):
                with open(os.path.join(d, fn), 'rb') as f:
                    raw = f.read().decode('latin-1')
                head, _, text = raw.partition('\n---\n')
                exp = {'shown': [], 'hidden': [], 'strings': [], 'plain': False}
                for ln in head.split('\n'):
                    if ln.startswith('shown:'):
                        exp['shown'] = ln[6:].split()
                    if ln.startswith('hidden:'):
                        exp['hidden'] = ln[7:].split()
                out.append(('corpus:' + fn, text, {}, exp))
    return out


def run(ctx):
    rep = core.Report(ctx)
    if not vc.prepare(ctx, 'C13'):
        return rep.finish({'evaluations': 0, 'distinct_nontrivial': 0, 'rule': 'harness did not build', 'samples': []}, [])
    quick = ctx.tier == 'quick'
    n = 4000 if quick else 30000
    g = ppgen.PpGen(ctx.rng.fork('pp'))
    raw = corpus_cases() + [g.case() for _ in range(n)]
    cases = []
    for i, (kind, text, files, exp) in enumerate(raw):
        cid = 'p%d' % i
        cases.append({'id': cid, 'kind': kind, 'text': text, 'files': files, 'exp': exp,
                      'line': 'pp %s %s %s' % (cid, hexf(text.encode('latin-1')), hexf(files_field(files).encode('latin-1')))})
    impl, model = vc.run_cases(ctx, cases, timeout_ms=20000)
    n_or = n_mm = n_ok = n_fail = 0
    samples = []
    distinct = set()
    checked = {'shown': 0, 'hidden': 0, 'strings': 0, 'plain': 0}
    sizes = {}
    for c in cases:
        distinct.add(c['text'])
        sizes[len(c['text']) // 100 * 100] = sizes.get(len(c['text']) // 100 * 100, 0) + 1
        a = parse(impl.get(c['id']))
        b = parse(model.get(c['id'])) if model is not None else None
        bad = None
        if a[0] == 'other':
            bad = {'expected': 'an expansion or error diagnostics', 'implementation': a[1]}
        elif a[0] == 'ok':
            n_ok += 1
            out = a[1]
            exp = c['exp']
            for m in exp['shown']:
                checked['shown'] += 1
                if m not in out:
                    bad = {'expected': 'text of an active section reaches the output: %s' % m, 'implementation': out[:1500]}
            for m in exp['hidden']:
                checked['hidden'] += 1
                if m in out:
                    bad = {'expected': 'text of an inactive section never reaches the output: %s' % m, 'implementation': out[:1500]}
            for s in exp['strings']:
                checked['strings'] += 1
                if s not in out:
                    bad = {'expected': 'the string literal reaches the output unaltered: %s' % s, 'implementation': out[:1500]}
            if exp['plain']:
                checked['plain'] += 1
                if out != HEADER + c['text']:
                    bad = {'expected': 'text without directive, macro name or comment passes through byte for byte', 'implementation': out[:1500]}
        else:
            n_fail += 1
            # a redefinition may leave an earlier macro calling it with the old number of arguments: the reference decides
            if c['kind'] == 'plain' or (c['kind'] == 'structured' and (b is None or b[0] == 'ok')):
                bad = {'expected': 'a well-formed source is expanded', 'implementation': 'rejected with %s' % ','.join(a[1])}
        if bad:
            n_or += 1
            if n_or <= 3:
                rep.violation('oracle', {'property': 'C13', 'kind': 'rule', 'seed': ctx.seed, 'case': c['id'], 'source': c['text'], 'files': c['files'],
                                         'difference': bad, 'line': c['line'][:9000]})
        if b is not None and not bad:
            diff = None
            if b[0] != a[0]:
                diff = {'implementation': (a[0], a[1] if a[0] != 'ok' else a[1][:1500]), 'model': (b[0], b[1] if b[0] != 'ok' else b[1][:1500])}
            elif a[0] == 'ok' and a[1] != b[1]:
                k = next((j for j in range(min(len(a[1]), len(b[1]))) if a[1][j] != b[1][j]), min(len(a[1]), len(b[1])))
                diff = {'first_difference_at': k, 'implementation': a[1][max(0, k - 60):k + 120], 'reference': b[1][max(0, k - 60):k + 120]}
            elif a[0] == 'fail' and not (set(b[1]) & set(a[1])):
                diff = {'implementation_errors': a[1], 'reference_error': b[1]}
            if diff:
                n_mm += 1
                if n_mm <= 3:
                    rep.violation('correspondence', {'property': 'C13', 'kind': 'reference-vs-implementation', 'seed': ctx.seed, 'case': c['id'],
                                                     'source': c['text'], 'files': c['files'], 'difference': diff, 'line': c['line'][:9000]})
        if len(samples) < 3 and c['kind'] == 'structured':
            samples.append({'source': c['text'][:400], 'output': (a[1][:400] if a[0] == 'ok' else a[1])})
    cov = {'evaluations': len(cases), 'distinct_nontrivial': len(distinct),
           'rule': 'sources generated from a grammar of directives (#define of object- and function-like macros with 0-3 parameters, multi-line definitions, #undef, #ifdef/#ifndef/#else/#endif nested two deep, #include of generated files by backslash, slash and bare names), macro uses (in statements, brackets, directly beside strings and operators; arguments that are numbers, identifiers, object-like macros, nested calls, empty, bracketed lists with commas, strings holding commas, parentheses and macro names, identifiers that contain a macro or parameter name), bodies with #stringify, ##concatenate, parameters inside strings and inside longer identifiers, other macros; strings holding comment markers, directives and macro names; line and block comments holding quotes and directives; plain token lines; CRLF variants; comments whose text begins or ends with `/` or `*`, adjacent comments, strings directly behind a comment; bodies with a word directly in front of a string that holds comment markers, identifiers that contain a parameter or macro name between underscores, parameters named like defined macros; macro cycles through arguments; every text is preprocessed twice in one VM and must give the same answer; plus plain texts and malformed sources (argument count, recursive macros, unknown directive, stray #else/#endif, missing #endif, failing and recursive includes, unterminated calls, unknown directives and nested conditionals inside inactive sections); oracles: the implementation output must equal the Lean reference expander output byte for byte (or fail with the error the reference names), markers of active sections occur and markers of inactive sections never occur in the output, string literals of active text occur unaltered, plain text passes through byte for byte',
           'samples': samples, 'oracle_failures': n_or, 'reference_mismatches': n_mm, 'expanded': n_ok, 'rejected': n_fail,
           'rule_checks': checked, 'source_sizes': {str(k): v for k, v in sorted(sizes.items())}, 'generator_counts': g.stats}
    return rep.finish(cov, ['callback macros other than __LINE__ and __FILE__ (__COUNTER__, __EVAL, __EXEC, version macros) are not part of the reference',
                            'comments between a macro name and its opening parenthesis, single-quoted strings holding comment markers and carriage returns without line feed are outside the grammar',
                            'include paths are taken from the root of one mapped directory; path resolution itself is C16'])
