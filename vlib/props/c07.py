"""C07 — equality is an equivalence consistent with hashing; HashMap is a finite map."""
import os
import re
import sys

from .. import core
from ..core import hexf
from . import vmcommon as vc

sys.path.insert(0, os.path.join(core.VERIF, 'gen'))
import heapgen  # noqa: E402


def run(ctx):
    rep = core.Report(ctx)
    if not vc.prepare(ctx, 'C07'):
        return rep.finish({'evaluations': 0, 'distinct_nontrivial': 0, 'rule': 'harness did not build', 'samples': []}, [])
    quick = ctx.tier == 'quick'
    alpha = heapgen.ALPHABET
    # 1. all ordered pairs of the collision alphabet (exhaustive, the alphabet is finite)
    pair_cases = []
    for i, (ta, va) in enumerate(alpha):
        for j, (tb, vb) in enumerate(alpha):
            cid = 'e%d_%d' % (i, j)
            prog = 'g1 = %s; g2 = %s' % (ta, tb)
            pair_cases.append({'id': cid, 'a': (ta, va), 'b': (tb, vb), 'text': prog, 'line': 'eq %s %s' % (cid, hexf(prog))})
    # 2. hash map histories
    g = heapgen.MapGen(ctx.rng.fork('map'))
    hist = []
    for i in range(2000 if quick else 40000):
        text, exp = g.history()
        cid = 'm%d' % i
        hist.append({'id': cid, 'text': text, 'expect_tr': exp, 'line': 'run %s %s %s %s' % (cid, hexf(text), hexf('tr'), hexf('20000'))})
    # 3. equality of hash maps themselves (not modelled: decided by the oracle alone)
    mg = heapgen.MapEqGen(ctx.rng.fork('mapeq'))
    mapeq = []
    for i in range(400 if quick else 6000):
        text, equal = mg.case()
        cid = 'q%d' % i
        mapeq.append({'id': cid, 'text': text, 'equal': equal, 'line': 'eq %s %s' % (cid, hexf(text))})
    cases = pair_cases + hist
    impl, model = vc.run_cases(ctx, cases, timeout_ms=8000)
    mimpl, _ = ctx.run_pair([c['line'] for c in mapeq], timeout_ms=8000, model=False)
    n_mapeq_bad = 0
    for c in mapeq:
        got = mimpl.get(c['id'])
        m = re.match(r'ab=(\w+) ba=(\w+) ci=(\w+) hashEq=(\w+)$', got or '')
        bad = None
        if not m:
            bad = {'expected': 'an observation', 'implementation': got}
        else:
            ab, ba, ci, he = [x == 'true' for x in m.groups()]
            if ab != c['equal'] or ba != c['equal']:
                bad = {'expected_isEqualTo_both_ways': c['equal'], 'implementation': {'a isEqualTo b': ab, 'b isEqualTo a': ba}}
            elif c['equal'] and not he:
                bad = {'expected': 'hash maps that compare equal hash equally', 'implementation': 'hash differs'}
        if bad:
            n_mapeq_bad += 1
            if n_mapeq_bad <= 3:
                rep.violation('oracle', {'property': 'C07', 'kind': 'hashmap-equality', 'seed': ctx.seed, 'case': c['id'], 'program': c['text'],
                                         'difference': bad, 'line': c['line']})
    n_or = n_mm = 0
    samples = []
    eqtab = {}
    for c in pair_cases:
        got = impl.get(c['id'])
        m = re.match(r'ab=(\w+) ba=(\w+) ci=(\w+) hashEq=(\w+)$', got or '')
        bad = None
        if not m:
            bad = {'expected': 'an observation', 'implementation': got}
        else:
            ab, ba, ci, he = [x == 'true' for x in m.groups()]
            ka, kb = heapgen.key_of(c['a'][1]), heapgen.key_of(c['b'][1])
            cka, ckb = heapgen.key_of(c['a'][1], True), heapgen.key_of(c['b'][1], True)
            eqtab[(c['a'][0], c['b'][0])] = ab
            if ab != (ka == kb):
                bad = {'expected_isEqualTo': ka == kb, 'implementation': ab}
            elif ab != ba:
                bad = {'expected': 'symmetry', 'ab': ab, 'ba': ba}
            elif ci != (cka == ckb):
                bad = {'expected_case_insensitive': cka == ckb, 'implementation': ci}
            elif ab and not he:
                bad = {'expected': 'values that compare equal hash equally', 'implementation': 'hash differs'}
        if bad:
            n_or += 1
            if n_or <= 3:
                rep.violation('oracle', {'property': 'C07', 'kind': 'equality/hash', 'seed': ctx.seed, 'case': c['id'], 'a': c['a'][0], 'b': c['b'][0],
                                         'difference': bad, 'line': c['line']})
        elif model is not None and (got or '').rsplit(' hashEq=', 1)[0] != model.get(c['id']):
            n_mm += 1
            if n_mm <= 3:
                rep.violation('correspondence', {'property': 'C07', 'kind': 'model-vs-implementation (equality)', 'seed': ctx.seed, 'case': c['id'],
                                                 'a': c['a'][0], 'b': c['b'][0], 'implementation': got, 'model': model.get(c['id']), 'line': c['line']})
    # transitivity over all triples of the alphabet (from the pair table of the implementation)
    texts = [t for t, _ in alpha]
    n_trip = 0
    for x in texts:
        for y in texts:
            if not eqtab.get((x, y)):
                continue
            for z in texts:
                n_trip += 1
                if eqtab.get((y, z)) and not eqtab.get((x, z)):
                    n_or += 1
                    if n_or <= 3:
                        rep.violation('oracle', {'property': 'C07', 'kind': 'transitivity', 'seed': ctx.seed, 'x': x, 'y': y, 'z': z,
                                                 'line': 'eq t %s' % hexf('g1 = %s; g2 = %s' % (x, z))})
    for c in hist:
        got = impl.get(c['id'])
        m = re.match(r'res=(\S+) st=(\S+) err=(\S*) val=(.*?) tr=(.*)$', got or '')
        bad = None
        if not m or m.group(1) != 'empty' or m.group(3) != '':
            bad = {'expected': 'the history runs cleanly', 'implementation': (got or '')[:300]}
        elif m.group(5) != c['expect_tr']:
            bad = {'expected_observations': c['expect_tr'], 'implementation': m.group(5)}
        if len(samples) < 4:
            samples.append({'history': c['text'][:500], 'observation': (got or '')[:300]})
        if bad:
            n_or += 1
            if n_or <= 3:
                rep.violation('oracle', {'property': 'C07', 'kind': 'hashmap-history', 'seed': ctx.seed, 'case': c['id'], 'history': c['text'],
                                         'difference': bad, 'line': c['line']})
        elif model is not None and got != model.get(c['id']):
            n_mm += 1
            if n_mm <= 3:
                rep.violation('correspondence', {'property': 'C07', 'kind': 'model-vs-implementation (hashmap)', 'seed': ctx.seed, 'case': c['id'],
                                                 'history': c['text'], 'implementation': (got or '')[:2000], 'model': (model.get(c['id']) or '')[:2000],
                                                 'line': c['line']})
    cov = {'evaluations': len(cases), 'distinct_nontrivial': len(pair_cases) + len(set(c['text'] for c in hist)),
           'rule': 'all ordered pairs (and, from the pair table, all triples) of a %d-value collision alphabet (0/-0, strings differing in case, arrays/code containing them, code differing only in spacing/parentheses): isEqualTo both ways, the case-insensitive comparison behind ==, value::hash() equality; hash map histories over two maps with keys from the alphabet (set, get, deleteAt, in, count, keys, createHashMapFromArray, + copy, array keys mutated after insertion) against a Python dictionary keyed by equivalence class; the Lean model (equality functions, association-list map) must agree; plus pairs of hash maps built by different insertion histories (same, reordered, subset, superset, one value changed, keys respelled, empty): isEqualTo both ways = equality of the denoted finite maps, equal maps hash equally (oracle only, map equality is not in the Lean model); map histories also change an array in place after it served as a key and store a map in a map that compares equal to it; map equality also over maps that hold nil' % len(alpha),
           'samples': samples, 'oracle_failures': n_or, 'model_mismatches': n_mm, 'pairs': len(pair_cases), 'triples_checked': n_trip,
           'exhaustive': True, 'operation_counts': g.stats, 'hashmap_equality_cases': len(mapeq), 'hashmap_equality_failures': n_mapeq_bad, 'hashmap_equality_kinds': mg.stats}
    return rep.finish(cov, ['NaN and nil are excluded as the property states', 'iteration order of a hash map (keys, str) is unspecified and never observed'])
