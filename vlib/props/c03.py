"""C03 — variable scoping: dynamic local lookup, private, namespaces, case-insensitivity."""
import re

from .. import core
from ..core import hexf
from . import vmcommon as vc

import sqfast

NS = ['missionNamespace', 'uiNamespace', 'parsingNamespace', 'profileNamespace']


def randcase(r, s):
    return ''.join(ch.upper() if r.chance(1, 2) else ch.lower() for ch in s)


def gen_namespace_case(r, i):
    """statements inside nested `with ns do` blocks and ordinary constructs; the oracle is a dict per
    namespace with lower-cased keys and a stack of selected namespaces"""
    store = [dict() for _ in NS]
    out = []            # expected values appended to tr (tr lives in missionNamespace and is reached explicitly)
    # three names per case: fixed ones and ones drawn over the whole alphabet (both ends included), so that the case
    # folding of every letter is exercised; the `v_` prefix keeps them clear of operator names
    letters = 'abcdefghijklmnopqrstuvwxyz'
    names = [r.choice(['gv', 'Abc', 'x_1', 'SafeZone', 'maxz', 'ZZ', 'aZ09_z']),
             'v_' + ''.join(r.choice(letters) for _ in range(1 + r.below(3))) + r.choice(['', 'z', 'a', '_9']),
             'V_' + ''.join(r.choice(letters) for _ in range(2)).upper()]

    def block(depth, cur):
        stmts = []
        for _ in range(1 + r.below(4)):
            k = r.weighted([('assign', 4), ('read', 4), ('setvar', 2), ('getvar', 2), ('with', 3 if depth < 3 else 0),
                            ('wrap', 3 if depth < 3 else 0)])
            n = r.choice(names)
            if k == 'assign':
                v = r.below(100)
                store[cur][n.lower()] = v
                stmts.append('%s = %d' % (randcase(r, n), v))
            elif k == 'read':
                if store[cur].get(n.lower()) is not None:
                    out.append(store[cur][n.lower()])
                    stmts.append('(missionNamespace getVariable "tr") pushBack %s' % randcase(r, n))
                else:
                    out.append(True)
                    stmts.append('(missionNamespace getVariable "tr") pushBack (isNil "%s")' % randcase(r, n))
            elif k == 'setvar':
                ns = r.below(len(NS))
                if r.chance(1, 4):
                    # set to nil under any spelling of the name: the variable holds nil from then on
                    store[ns][n.lower()] = None
                    stmts.append('%s setVariable ["%s", nil]' % (NS[ns], randcase(r, n)))
                else:
                    v = r.below(100)
                    store[ns][n.lower()] = v
                    stmts.append('%s setVariable ["%s", %d]' % (NS[ns], randcase(r, n), v))
            elif k == 'getvar':
                ns = r.below(len(NS))
                if n.lower() in store[ns] and store[ns][n.lower()] is None:
                    out.append(True)
                    stmts.append('(missionNamespace getVariable "tr") pushBack (isNil { %s getVariable ["%s", -1] })' % (NS[ns], randcase(r, n)))
                else:
                    out.append(store[ns].get(n.lower(), -1))
                    stmts.append('(missionNamespace getVariable "tr") pushBack (%s getVariable ["%s", -1])' % (NS[ns], randcase(r, n)))
            elif k == 'with':
                ns = r.below(len(NS))
                stmts.append('with %s do { %s }' % (NS[ns], block(depth + 1, ns)))
            else:
                form = r.choice(['call { %s }', 'if (true) then { %s }', '{ %s } forEach [1]', 'for "_i" from 1 to 1 do { %s }',
                                 'switch (1) do { case 1: { %s } }', 'try { %s } catch { }', 'if (true || { false }) then { %s }',
                                 '0 call { %s }', '[1] apply { %s; 0 }', 'isNil { %s; 0 }',
                                 # the code operand of a lazy and / or runs in the namespace that is selected where it stands
                                 'true && { %s; true }', 'false || { %s; true }', 'true and { %s; false }', 'false or { %s; false }'])
                stmts.append(form % block(depth + 1, cur))
        return '; '.join(stmts)
    body = block(0, 0)
    text = 'tr = []; ' + body
    return {'id': 'n%d' % i, 'text': text, 'expect_tr': sqfast.fmt_value(out),
            'line': 'run n%d %s %s %s' % (i, hexf(text), hexf(vc.GLOBALS), hexf('20000'))}


def gen_spawn_case(r, i):
    """spawned code must not see the starter's locals (and vice versa)"""
    locs = ['_a', '_b', '_Count', '_sizeZ']
    parts = ['tr = []']
    for v in locs:
        if r.chance(2, 3):
            parts.append('%s%s = %d' % ('private ' if r.chance(1, 2) else '', v, r.below(50)))
    arg = r.below(50)
    probes = ['tr pushBack [1, isNil "%s"]' % randcase(r, r.choice(locs)) for _ in range(1 + r.below(3))]
    inner = '; '.join(probes + ['tr pushBack [1, _this]', '_inner = 5'])
    wrap = r.choice(['%s', 'call { %s }', 'if (true) then { %s }', '{ %s } forEach [0]'])
    parts.append(wrap % ('h = %d spawn { %s }' % (arg, inner)))
    parts.append('tr pushBack [0, isNil "_inner"]')
    text = '; '.join(parts)
    return {'id': 'p%d' % i, 'text': text, 'arg': arg, 'nprobes': len(probes),
            'line': 'start p%d %s %s' % (i, hexf(text), hexf('tr'))}


def spawn_oracle(c, got):
    m = re.search(r' tr=(\[.*\])$', got or '')
    if not m:
        return {'expected': 'a trace', 'implementation': got}
    entries = re.findall(r'\[(\d+),([^\]]+)\]', m.group(1))
    ones = [v for sid, v in entries if sid == '1']
    zeros = [v for sid, v in entries if sid == '0']
    if ones != ['true'] * c['nprobes'] + [str(c['arg'])]:
        return {'expected': 'the spawned script sees none of the starter\'s locals and _this = %d' % c['arg'], 'implementation': ones}
    if zeros != ['true']:
        return {'expected': 'the starter does not see the spawned script\'s locals', 'implementation': zeros}
    return None


def run(ctx):
    rep = core.Report(ctx)
    if not vc.prepare(ctx, 'C03'):
        return rep.finish({'evaluations': 0, 'distinct_nontrivial': 0, 'rule': 'harness did not build', 'samples': []}, [])
    quick = ctx.tier == 'quick'
    n_ast, n_ns, n_sp = (2500, 700, 300) if quick else (40000, 10000, 4000)
    cases = vc.load_corpus('C03')
    a, st1 = vc.gen_ast_cases(ctx, n_ast, 'a', scoping=True)
    r = ctx.rng.fork('ns')
    nsc = [gen_namespace_case(r, i) for i in range(n_ns)]
    r2 = ctx.rng.fork('spawn')
    spc = [gen_spawn_case(r2, i) for i in range(n_sp)]
    cases += a + nsc + spc
    impl, model = vc.run_cases(ctx, cases, timeout_ms=10000)
    n_or = n_mm = 0
    distinct = set()
    samples = []
    for c in cases:
        got = impl.get(c['id'])
        obs = vc.parse_obs(got)
        distinct.add(c['text'])
        bad = None
        if 'expect_tr' in c:
            if obs is None or obs.get('res') != 'empty' or vc.canon(obs.get('tr')) != c['expect_tr'] or obs.get('err'):
                bad = {'expected_tr': c['expect_tr'], 'implementation': (got or '')[:400]}
        elif 'nprobes' in c:
            bad = spawn_oracle(c, got)
        else:
            bad = vc.expect_oracle(c, obs) or vc.ref_oracle(c, obs)
        if len(samples) < 6 and (c['id'][0] in 'np' and len([s for s in samples if s['kind'] == c['id'][0]]) < 2 or c['id'][0] == 'a' and len([s for s in samples if s['kind'] == 'a']) < 2 and len(c['text']) > 150):
            samples.append({'kind': c['id'][0], 'program': c['text'], 'observation': (got or '').split(' T: ')[0][:300]})
        if bad:
            n_or += 1
            if n_or <= 3:
                rep.violation('oracle', {'property': 'C03', 'kind': 'scoping', 'seed': ctx.seed, 'case': c['id'], 'program': c['text'],
                                         'difference': bad, 'line': c['line']})
        elif model is not None and got != model.get(c['id']):
            n_mm += 1
            if n_mm <= 3:
                rep.violation('correspondence', {'property': 'C03', 'kind': 'model-vs-implementation', 'seed': ctx.seed, 'case': c['id'],
                                                 'program': c['text'], 'implementation': (got or '')[:3000], 'model': (model.get(c['id']) or '')[:3000],
                                                 'line': c['line']})
    cov = {'evaluations': len(cases), 'distinct_nontrivial': len(distinct),
           'rule': '(a) random programs that declare, shadow, assign and read the same few local names (_a,_b,_c) across nested call / control-structure scopes with random letter case, private / private _x = / plain assignment, loops whose bodies declare locals — per-instruction trace vs the Lean model and trace/globals vs the reference interpreter (dynamic scope chain); (n) global reads/writes, getVariable/setVariable inside nested with-namespace blocks and inside constructs started from them (call, if, forEach, for, switch, try, apply, isNil, the code operand of a lazy and/or), oracle = one dictionary per namespace; (p) spawned scripts probing the starter\'s locals and vice versa under execute(start); distinct by text',
           'samples': samples, 'oracle_failures': n_or, 'model_mismatches': n_mm, 'construct_counts': st1,
           'namespace_cases': n_ns, 'spawn_cases': n_sp}
    return rep.finish(cov, ['execVM (a file-based spawn) is covered with C16', 'params (binding part) is not modelled: it is not generated'])
