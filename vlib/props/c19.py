"""C19 — execution control (start/step/stop/abort) follows its state machine."""
import os
import sys

from .. import core
from ..core import hexf
from . import vmcommon as vc

sys.path.insert(0, os.path.join(core.VERIF, 'gen'))
import ctlgen  # noqa: E402

REF_STEPS = 400


def table_oracle(steps, actions):
    """the action table, from the reported results and states alone"""
    prev = steps[0][1]
    for k, (a, (res, st, pos)) in enumerate(zip(actions, steps[1:])):
        bad = None
        if a == 'T':
            if res != 'action_error' or st != prev:
                bad = 'stop while nothing runs must be refused and change nothing'
        elif a == 'A':
            if prev in ('halted', 'halted_error'):
                if res != 'ok' or st != 'empty' or pos != 'L-:F0':
                    bad = 'abort on a halted VM must return ok, leave the state empty and discard the script'
            elif res != 'action_error' or st != prev:
                bad = 'abort on an empty VM must be refused'
        else:
            want = {'empty': 'empty', 'ok': 'halted', 'runtime_error': 'halted_error'}.get(res)
            if want is None or st != want:
                bad = 'result %s must leave the state %s' % (res, want)
        if bad:
            return {'action_index': k, 'action': a, 'expected': bad, 'implementation': '%s:%s:%s' % (res, st, pos), 'state_before': prev}
        prev = st
    return None


def run(ctx):
    rep = core.Report(ctx)
    if not vc.prepare(ctx, 'C19'):
        return rep.finish({'evaluations': 0, 'distinct_nontrivial': 0, 'rule': 'harness did not build', 'samples': []}, [])
    quick = ctx.tier == 'quick'
    n = 500 if quick else 8000
    g = ctlgen.CtlGen(ctx.rng.fork('ctl'), spawn=True)
    cases = []
    import json
    cdir = os.path.join(core.VERIF, 'gen', 'corpus', 'C19')
    corpus = []
    if os.path.isdir(cdir):
        for fn in sorted(os.listdir(cdir)):
            if fn.endswith('.case'):
                o = json.load(open(os.path.join(cdir, fn)))
                c = {'id': 'k' + fn[:-5], 'text': o['program'], 'actions': o['actions'], 'expected': o['expected'], 'ref': True}
                c['line'] = 'ctl %s %s %s %s' % (c['id'], hexf(o['program']), hexf(o['actions']), hexf(o['layout']))
                corpus.append(c)
    cases += corpus
    for i in range(n):
        if i % 10 == 9:
            text, layout = '-', []
        else:
            text, layout = g.program()
        lay = ','.join(str(x) for x in layout)
        ref = {'id': 'r%d' % i, 'text': text, 'actions': 'a' * REF_STEPS, 'layout': layout, 'ref': True}
        ref['line'] = 'ctl %s %s %s %s' % (ref['id'], hexf(text), hexf(ref['actions']), hexf(lay))
        cases.append(ref)
        for j in range(3):
            acts = g.actions()
            c = {'id': 'm%d_%d' % (i, j), 'text': text, 'actions': acts, 'layout': layout, 'refid': ref['id']}
            c['line'] = 'ctl %s %s %s %s' % (c['id'], hexf(text), hexf(acts), hexf(lay))
            cases.append(c)
    # two real threads: this thread inside execute(start) on a script that does not end by itself, a
    # controller thread issuing stop / abort / start after a delay
    threaded = []
    tr = ctx.rng.fork('threads')
    prog = 'g = 0; for "_i" from 0 to 1000000000 do { g = g + 1 }'
    # ... and on scripts that execute nothing for a long time: every script of the VM asleep (stop/abort must take effect
    # although no instruction is executed)
    sleepers = ['[] spawn { sleep 3600 }', '[] spawn { sleep 3600 }; [] spawn { sleep 7200 }; g = 1', '[] spawn { while { true } do { sleep 0.2 } }',
                '[] spawn { waitUntil { sleep 100; false } }']
    for i in range(40 if quick else 600):
        acts = tr.choice(['T', 'A', 'ST', 'SA', 'TT', 'AT', 'STS', 'SSA', 'TA'])
        delay = tr.choice([20, 50, 100, 300, 1000, 3000])
        text = prog if i % 5 != 4 else tr.choice(sleepers)
        if text is not prog:
            delay = tr.choice([3000, 20000, 50000])      # long enough for the scripts to have fallen asleep
        c = {'id': 't%d' % i, 'text': text, 'actions': acts, 'threaded': True, 'delay': delay}
        c['line'] = 'ctl2 %s %s %s %s' % (c['id'], hexf(text), hexf(str(delay)), hexf(acts))
        threaded.append(c)
    # control actions issued at an exact instruction boundary of a running execute(start) (hook
    # verif_before_instruction): deterministic, compared with the model
    inj = []
    ig = ctlgen.CtlGen(ctx.rng.fork('inject'))
    for i in range(300 if quick else 5000):
        text, _ = ig.program()
        k = ctx.rng.below(40)
        acts = ctx.rng.choice(['T', 'A', 'S', 'TS', 'ST', 'SA', 'al', 'TT', 'vT', 'STS', 'AS', 'SSTS'])
        c = {'id': 'j%d' % i, 'text': text, 'actions': acts, 'k': k}
        c['line'] = 'ctl3 %s %s %s %s' % (c['id'], hexf(text), hexf(str(k)), hexf(acts))
        inj.append(c)
    impl, model = vc.run_cases(ctx, cases + inj, timeout_ms=15000)
    n_inj_bad = n_inj_fired = 0
    import re as _re
    for c in inj:
        got = impl.get(c['id']) or ''
        m = _re.match(r'ctl=([\w,]*) exec=(\w+) state=(\w+) contexts=(\d+) \| tr=(.*)$', got)
        bad = None
        if not m:
            bad = {'expected': 'an observation', 'implementation': got[:300]}
        elif m.group(1):
            n_inj_fired += 1
            rs = m.group(1).split(',')
            for a, r in zip(c['actions'], rs):
                if a in 'TA' and r != 'ok':
                    bad = {'expected': 'stop/abort issued while the VM runs is accepted', 'implementation': got[:300]}
                if a not in 'TA' and r != 'action_error':
                    bad = {'expected': 'an executing action issued while the VM runs is refused', 'implementation': got[:300]}
            if not bad and any(a in 'TA' for a in c['actions']) and (m.group(3) != 'empty' or m.group(4) != '0'):
                bad = {'expected': 'an accepted stop/abort ends the run: VM empty, no script left', 'implementation': got[:300]}
        if bad:
            n_inj_bad += 1
            if n_inj_bad <= 2:
                rep.violation('oracle', {'property': 'C19', 'kind': 'injected-control', 'seed': ctx.seed, 'case': c['id'], 'program': c['text'],
                                         'actions': c['actions'], 'before_instruction': c['k'] + 1, 'difference': bad, 'line': c['line']})
        elif model is not None and got != (model.get(c['id']) or ''):
            n_inj_bad += 1
            if n_inj_bad <= 2:
                rep.violation('correspondence', {'property': 'C19', 'kind': 'injected-control model-vs-implementation', 'seed': ctx.seed, 'case': c['id'],
                                                 'program': c['text'], 'actions': c['actions'], 'before_instruction': c['k'] + 1,
                                                 'implementation': got[:2000], 'model': (model.get(c['id']) or '')[:2000], 'line': c['line']})
    timpl, _ = ctx.run_pair([c['line'] for c in threaded], timeout_ms=20000, model=False)
    n_thr_bad = 0
    for c in threaded:
        got = timpl.get(c['id']) or ''
        m = __import__('re').match(r'ctl=([\w,]*) exec=(\w+) state=(\w+) contexts=(\d+) joined=1$', got)
        bad = None
        if not m:
            bad = {'expected': 'both threads return (no crash, no deadlock)', 'implementation': got[:300]}
        else:
            rs = m.group(1).split(',')
            stopped = False
            for a, r in zip(c['actions'], rs):
                if a in 'TA' and not stopped:
                    if r != 'ok':
                        bad = {'expected': 'the first stop/abort issued while the VM runs is accepted', 'implementation': got}
                    stopped = True
                elif a == 'S' and not stopped:
                    if r != 'action_error':
                        bad = {'expected': 'a second executor is refused while one runs (at most one executor)', 'implementation': got}
                elif r not in ('ok', 'action_error', 'empty'):
                    bad = {'expected': 'ok, action_error or empty', 'implementation': got}
            if not bad and (m.group(2) != 'ok' or m.group(3) != 'empty' or m.group(4) != '0'):
                bad = {'expected': 'the stopped run returns ok, the VM is empty and holds no script', 'implementation': got}
        if bad:
            n_thr_bad += 1
            if n_thr_bad <= 2:
                rep.violation('oracle', {'property': 'C19', 'kind': 'two-threads', 'seed': ctx.seed, 'case': c['id'], 'program': c['text'],
                                         'actions': c['actions'], 'delay_us': c['delay'], 'difference': bad, 'line': c['line']})
    # abort on a halted VM discards ALL scripts: programs that have spawned further scripts by the time they are halted
    # (after k assembly steps, or at an error); the same history once ending in the abort and once going on with start
    # and steps must leave the same trace, and every action behind the abort finds the VM empty
    disc = []
    dr = ctx.rng.fork('discard')
    progs = ['tr = []; [] spawn { tr pushBack 91 }; [] spawn { tr pushBack 92; tr pushBack 93 }; tr pushBack 1; tr pushBack 2; tr pushBack 3',
             'tr = []; [] spawn { tr pushBack 91 }; tr pushBack 1; 1 + "a"; tr pushBack 2',
             'tr = []; h = [] spawn { { tr pushBack _x } forEach [91, 92, 93] }; call { [] spawn { tr pushBack 94 }; tr pushBack 1 }; tr pushBack 2; [] select 5',
             'tr = []; { [] spawn { tr pushBack 90 } } forEach [1, 2, 3]; tr pushBack 1; tr pushBack 2']
    for i in range(60 if quick else 600):
        text = dr.choice(progs)
        k = 2 + dr.below(12)
        pre = ''.join(dr.weighted([('a', 9), ('l', 1)]) for _ in range(k))
        tail = dr.choice(['S', 'Sa', 'SS', 'al', 'aS', 'lSa'])
        for suffix, tag in (('A', 'x'), ('A' + tail, 'y')):
            c = {'id': 'd%d%s' % (i, tag), 'text': text, 'actions': pre + suffix, 'pair': i}
            c['line'] = 'ctl %s %s %s %s' % (c['id'], hexf(text), hexf(c['actions']), hexf(''))
            disc.append(c)
    dimpl, _ = ctx.run_pair([c['line'] for c in disc], timeout_ms=15000, model=False)
    n_disc_bad = n_disc_halted = 0
    for i in range(len(disc) // 2):
        cx, cy = disc[2 * i], disc[2 * i + 1]
        sx, trx = ctlgen.parse_out(dimpl.get(cx['id']))
        sy, try_ = ctlgen.parse_out(dimpl.get(cy['id']))
        bad = None
        if sx is None or sy is None:
            bad = {'expected': 'an observation for both histories', 'implementation': [(dimpl.get(cx['id']) or '')[:300], (dimpl.get(cy['id']) or '')[:300]]}
        else:
            na = len(cx['actions'])
            if sx[na][0] == 'ok':          # the abort found the VM halted and was accepted
                n_disc_halted += 1
                if sx[na][1] != 'empty':
                    bad = {'expected': 'abort on a halted VM leaves the state empty', 'implementation': '%s:%s:%s' % sx[na]}
                elif trx != try_:
                    bad = {'expected': 'nothing runs after the abort: every script was discarded (trace %s)' % trx, 'implementation': try_,
                           'actions_behind_the_abort': cy['actions'][na:]}
                else:
                    for st in sy[na + 1:]:
                        if st[1] != 'empty':
                            bad = {'expected': 'the VM stays empty behind the abort', 'implementation': '%s:%s:%s' % st}
        if bad:
            n_disc_bad += 1
            if n_disc_bad <= 2:
                rep.violation('oracle', {'property': 'C19', 'kind': 'abort-discards-all-scripts', 'seed': ctx.seed, 'case': cy['id'], 'program': cy['text'],
                                         'actions': cy['actions'], 'difference': bad, 'implementation': (dimpl.get(cy['id']) or '')[:1500], 'line': cy['line']})
    # control actions issued at an exact instruction boundary of a STEPPING action (assembly step, line step, leave scope)
    # or of a start in the middle of a history: an accepted stop/abort ends that action with the VM empty and every later
    # action finds it empty; refused actions change nothing (the history equals the one without the controller)
    sinj = []
    sg = ctlgen.CtlGen(ctx.rng.fork('stepinject'))
    sr = ctx.rng.fork('stepinject-actions')
    for i in range(300 if quick else 5000):
        text, slayout = sg.program()
        outer = ''.join(sr.weighted([('a', 4), ('l', 6), ('v', 3), ('S', 1), ('A', 1), ('T', 1)]) for _ in range(2 + sr.below(6)))
        k = sr.below(25)
        inj_acts = sr.choice(['T', 'A', 'T', 'A', 'TA', 'aT', 'lA', 'al', 'S', 'vTS'])
        c = {'id': 's%d' % i, 'text': text, 'outer': outer, 'k': k, 'inj': inj_acts}
        c['line'] = 'ctl4 %s %s %s %s %s %s' % (c['id'], hexf(text), hexf(outer), hexf(str(k)), hexf(inj_acts), hexf(','.join(str(x) for x in slayout)))
        c['plain'] = 'ctl p%d %s %s %s' % (i, hexf(text), hexf(outer), hexf(''))
        sinj.append(c)
    simpl, smodel = ctx.run_pair([c['line'] for c in sinj] + [c['plain'] for c in sinj], timeout_ms=15000)
    n_sinj_bad = n_sinj_fired = n_sinj_nomodel = 0
    sinj_during = {}
    for i, c in enumerate(sinj):
        got = simpl.get(c['id']) or ''
        plain = simpl.get('p%d' % i) or ''
        bad = None
        body, sep, tail = got.rpartition(' | ctl=')
        steps, tr = ctlgen.parse_out(body) if sep else (None, None)
        psteps, ptr = ctlgen.parse_out(plain)
        if steps is None or psteps is None or len(steps) != len(c['outer']) + 1 or '@' not in tail:
            bad = {'expected': 'one result per action', 'implementation': got[:300], 'without_controller': plain[:300]}
        else:
            results, _, at = tail.partition('@')
            if at == '-':
                if body != plain:
                    bad = {'expected': 'the controller never got its turn: the history without controller', 'without_controller': plain[:600]}
            else:
                j = int(at)
                n_sinj_fired += 1
                sinj_during[c['outer'][j]] = sinj_during.get(c['outer'][j], 0) + 1
                rs = results.split(',') if results else []
                for a, r in zip(c['inj'], rs):
                    if a in 'TA' and r != 'ok':
                        bad = {'expected': 'stop/abort issued while an action executes is accepted', 'results': results}
                    if a not in 'TA' and r != 'action_error':
                        bad = {'expected': 'an executing action issued while another executes is refused', 'results': results}
                if not bad and steps[:j + 1] != psteps[:j + 1]:
                    bad = {'expected': 'the actions before the one the controller met are not affected', 'without_controller': plain[:600]}
                if not bad and not any(a in 'TA' for a in c['inj']):
                    if body != plain:
                        bad = {'expected': 'refused actions change nothing: the history without controller', 'without_controller': plain[:600]}
                elif not bad:
                    res, st, pos = steps[j + 1]
                    if st != 'empty' or pos != 'L-:F0' or res not in ('ok', 'runtime_error', 'empty'):
                        bad = {'expected': 'the %s during which the stop/abort was accepted ends with the VM empty and no script left' % c['outer'][j],
                               'implementation': '%s:%s:%s' % (res, st, pos)}
                    for a, (res, st, pos) in zip(c['outer'][j + 1:], steps[j + 2:]):
                        want = 'action_error' if a in 'TA' else 'empty'
                        if not bad and (res != want or st != 'empty' or pos != 'L-:F0'):
                            bad = {'expected': 'action %s on the emptied VM answers %s and leaves it empty' % (a, want), 'implementation': '%s:%s:%s' % (res, st, pos)}
                    if not bad and tr != 'undef' and ptr is not None and not (ptr.strip('[]') + ',').startswith(tr.strip('[]') + ',') and tr != '[]':
                        bad = {'expected': 'the trace of the stopped history is a prefix of the trace without controller (%s)' % ptr, 'implementation': tr}
        if bad:
            n_sinj_bad += 1
            if n_sinj_bad <= 2:
                rep.violation('oracle', {'property': 'C19', 'kind': 'control-injected-into-a-stepping-action', 'seed': ctx.seed, 'case': c['id'], 'program': c['text'],
                                         'actions': c['outer'], 'before_instruction': c['k'] + 1, 'injected': c['inj'], 'difference': bad,
                                         'implementation': got[:1500], 'line': c['line']})
        elif smodel is not None:
            mgot = smodel.get(c['id']) or ''
            if mgot == 'nomodel':
                n_sinj_nomodel += 1       # a start with the controller still waiting: startInjected covers that from a fresh VM only
            elif mgot != got:
                n_sinj_bad += 1
                if n_sinj_bad <= 2:
                    rep.violation('correspondence', {'property': 'C19', 'kind': 'control-injected-into-a-stepping-action model-vs-implementation', 'seed': ctx.seed,
                                                     'case': c['id'], 'program': c['text'], 'actions': c['outer'], 'before_instruction': c['k'] + 1,
                                                     'injected': c['inj'], 'implementation': got[:2000], 'model': mgot[:2000], 'line': c['line']})
    n_or = n_mm = n_undec = 0
    distinct = set()
    samples = []
    acts_count = {}
    for c in cases:
        got = impl.get(c['id'])
        distinct.add(c['line'])
        steps, tr = ctlgen.parse_out(got)
        bad = None
        if steps is None or len(steps) != len(c['actions']) + 1:
            bad = {'expected': 'one result per action', 'implementation': (got or '')[:300]}
        else:
            bad = table_oracle(steps, c['actions'])
            if not bad and c.get('expected') is not None and got != c['expected']:
                bad = {'expected': c['expected'], 'implementation': got}
            if not bad and not c.get('ref'):
                for a in c['actions']:
                    acts_count[a] = acts_count.get(a, 0) + 1
                rsteps, _ = ctlgen.parse_out(impl.get(c['refid']))
                exp = ctlgen.simulate(rsteps, c['actions']) if rsteps else None
                if exp is None:
                    n_undec += 1
                else:
                    for k, (e, s) in enumerate(zip(exp, steps[1:])):
                        if e[0] != s[0] or e[1] != s[1] or (e[2] is not None and e[2] != s[2]):
                            bad = {'action_index': k, 'action': c['actions'][k], 'expected_from_single_stepping': '%s:%s:%s' % e,
                                   'implementation': '%s:%s:%s' % s}
                            break
        if len(samples) < 3 and not c.get('ref'):
            samples.append({'program': c['text'][:400], 'actions': c['actions'], 'observation': (got or '')[:400]})
        if bad:
            n_or += 1
            if n_or <= 3:
                rep.violation('oracle', {'property': 'C19', 'kind': 'control-history', 'seed': ctx.seed, 'case': c['id'], 'program': c['text'],
                                         'actions': c['actions'], 'difference': bad, 'implementation': (got or '')[:2000], 'line': c['line']})
        elif model is not None and got != model.get(c['id']):
            n_mm += 1
            if n_mm <= 3:
                rep.violation('correspondence', {'property': 'C19', 'kind': 'model-vs-implementation', 'seed': ctx.seed, 'case': c['id'],
                                                 'program': c['text'], 'actions': c['actions'], 'implementation': (got or '')[:3000],
                                                 'model': (model.get(c['id']) or '')[:3000], 'line': c['line']})
    cov = {'evaluations': len(cases), 'distinct_nontrivial': len(distinct),
           'rule': 'programs of 2-8 statements laid out over several lines (two statements on a line, empty lines, nested call/if/for/forEach blocks, an erroring statement) or no script at all; per program one reference run of assembly steps and three random action sequences (length 1-8 over start, stop, abort, assembly step, line step, leave scope); oracle 1: the action table on the reported results and states; oracle 2: every mixed sequence must end each action exactly where single stepping says (first instruction of another line, frame stack below the starting frame, end of script, failing instruction); the Lean model must give the same result, state, next line, frame depth and trace; plus execute(start) runs in which a controller issues stop/abort/start/steps right before a chosen instruction (deterministic, through the guarded hook verif_before_instruction; results, final state, remaining scripts and the trace — exactly one late instruction — compared with the model); plus histories of stepping actions (assembly step, line step, leave scope, start, stop, abort) in which a controller issues stop/abort/steps right before a chosen instruction of whichever action is executing then (same hook; oracle: accepted stop/abort ends that action with the VM empty, every later action finds it empty, refused actions leave the history as it is without controller, the trace is a prefix of the trace of that history; the Lean model of the injected stepping actions (Ctl.execI) must give the same history); plus runs with two real threads (executor inside execute(start) on a script that never ends, or on scripts that are all asleep for hours; controller issuing stop/abort/start after 20-50000 us): both threads must return, the first stop/abort is accepted, a competing start is refused, the VM ends empty; plus programs that have spawned further scripts when they are halted: the history ending in abort and the same history going on with start/steps must leave the same trace (abort discards all scripts); distinct by case line',
           'samples': samples, 'oracle_failures': n_or, 'model_mismatches': n_mm, 'undecided_by_reference': n_undec,
           'actions_exercised': acts_count, 'generator_counts': g.stats, 'threaded_runs': len(threaded), 'threaded_failures': n_thr_bad, 'injected_runs': len(inj), 'injected_runs_where_the_controller_got_its_turn': n_inj_fired, 'injected_failures': n_inj_bad, 'discard_histories': len(disc) // 2, 'discard_histories_where_the_abort_was_accepted': n_disc_halted, 'discard_failures': n_disc_bad,
           'step_injected_histories': len(sinj), 'step_injected_where_the_controller_got_its_turn': n_sinj_fired, 'step_injected_action_met': sinj_during, 'step_injected_failures': n_sinj_bad, 'step_injected_outside_the_model': n_sinj_nomodel}
    return rep.finish(cov, ['interleavings of the two threads are covered exhaustively only by the interleaving model and its theorems; the threaded runs on the implementation sample real schedules (outcome sets, not compared step by step) and cannot exhibit memory-model effects',
                            'the line of an instruction in the model is derived from the statement layout of the generated program',
                            'evaluate_expression and breakpoints are outside the model'])
