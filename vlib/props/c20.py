"""C20 — runs are deterministic and VM instances are isolated from each other."""
import os
import sys

from .. import core
from ..core import hexf
from . import vmcommon as vc

sys.path.insert(0, os.path.join(core.VERIF, 'gen'))
import isogen  # noqa: E402

MODES = ['alone', 'alone', 'after', 'after-alive', 'beside']


def run(ctx):
    rep = core.Report(ctx)
    if not vc.prepare(ctx, 'C20'):
        return rep.finish({'evaluations': 0, 'distinct_nontrivial': 0, 'rule': 'harness did not build', 'samples': []}, [])
    quick = ctx.tier == 'quick'
    n = 300 if quick else 2500
    g = isogen.IsoGen(ctx.rng.fork('iso'))
    cases = []
    lines = []
    for i in range(n):
        p = g.observer()
        qs = [g.disturber() for _ in range(1 + ctx.rng.below(3))]
        c = {'id': 'i%d' % i, 'p': p, 'qs': qs, 'ids': []}
        for k, mode in enumerate(MODES):
            cid = 'i%d_%d' % (i, k)
            c['ids'].append(cid)
            lines.append('iso %s %s %s %s' % (cid, hexf(p), hexf('\x01'.join(qs)), hexf(mode)))
        cases.append(c)
    impl, _ = ctx.run_pair(lines, timeout_ms=60000, model=False)
    n_bad = 0
    samples = []
    distinct = set()
    for c in cases:
        outs = [impl.get(cid) for cid in c['ids']]
        distinct.add(c['p'] + '\x00' + '\x01'.join(c['qs']))
        if len(samples) < 3:
            samples.append({'P': c['p'][:400], 'Q': [q[:200] for q in c['qs']], 'log_of_P_alone': (outs[0] or '')[:500]})
        bad = None
        if outs[0] is None or not outs[0].startswith('res='):
            bad = {'expected': 'P runs', 'implementation': (outs[0] or '')[:300]}
        else:
            for k in range(1, len(MODES)):
                if outs[k] != outs[0]:
                    bad = {'setting': MODES[k] if k > 1 else 'alone (second run: determinism)', 'log_alone': (outs[0] or '')[:1500], 'log_in_setting': (outs[k] or '')[:1500]}
                    break
        if bad:
            n_bad += 1
            if n_bad <= 3:
                rep.violation('oracle', {'property': 'C20', 'kind': 'isolation', 'seed': ctx.seed, 'case': c['id'], 'P': c['p'], 'Q': c['qs'],
                                         'difference': bad,
                                         'lines': ['iso %s %s %s %s' % (cid, hexf(c['p']), hexf('\x01'.join(c['qs'])), hexf(m)) for cid, m in zip(c['ids'], MODES)]})
    cov = {'evaluations': len(lines), 'distinct_nontrivial': len(distinct),
           'rule': 'pairs (P, Q*): P logs what process-wide state could leak into (str/format/toFixed of numbers, __COUNTER__, __LINE__, type names, globals, sorting, hash maps), one to three Q disturb it (toFixed mode, counters, counter reset, globals, many types, errors, loops); each P runs in a fresh VM (through preprocessor, parser, execute(start)) in five settings in a process of its own: alone twice (determinism), after the Qs ran in VMs that were destroyed, after the Qs in VMs kept alive, and beside a second thread that keeps running the Qs in its own VMs (six repetitions, all must agree); oracle: the complete log of P (level, code and text of every message, final result) is byte-identical in all settings; distinct by (P, Q*)',
           'samples': samples, 'oracle_failures': n_bad, 'generator_counts': g.stats}
    return rep.finish(cov, ['the time and random operators are excluded, as the property states',
                            'the beside setting samples real schedules; it cannot exhibit every interleaving',
                            'statics of the command line front end (TCLAP, interactive helper) are outside a VM instance'])
