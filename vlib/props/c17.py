"""C17 — PBO archives are read faithfully; damaged ones are rejected safely."""
import os
import re
import sys

from .. import core
from ..core import hexf
from . import vmcommon as vc

sys.path.insert(0, os.path.join(core.VERIF, 'gen'))
import pbogen  # noqa: E402


def hx(b):
    return b.hex() if b else '-'


def split_obs(s):
    """good=… props=… files=… data=… vfs=… fs=…  ->  dict"""
    out = {}
    for m in re.finditer(r'(good|props|files|data|vfs|fs)=(\S*)', s or ''):
        out[m.group(1)] = m.group(2)
    return out


def run(ctx):
    rep = core.Report(ctx)
    if not vc.prepare(ctx, 'C17'):
        return rep.finish({'evaluations': 0, 'distinct_nontrivial': 0, 'rule': 'harness did not build', 'samples': []}, [])
    quick = ctx.tier == 'quick'
    n = 400 if quick else 6000
    g = pbogen.PboGen(ctx.rng.fork('pbo'))
    cases = []
    for i in range(n):
        props, items, trailer = g.archive()
        data = pbogen.pack(props, items, trailer)
        cases.append({'id': 'w%d' % i, 'kind': 'well-formed', 'bytes': data, 'props': props, 'items': items,
                      'line': 'pbo w%d %s' % (i, hexf(data))})
        for j in range(4):
            kind, bad = g.damage(data)
            cases.append({'id': 'd%d_%d' % (i, j), 'kind': kind, 'bytes': bad, 'line': 'pbo d%d_%d %s' % (i, j, hexf(bad))})
        if i % 25 == 0:
            cases.append({'id': 'a%d' % i, 'kind': 'absent', 'bytes': b'', 'line': 'pbo a%d %s %s' % (i, hexf(b''), hexf('absent'))})
    impl, model = vc.run_cases(ctx, cases, timeout_ms=15000)
    n_or = n_mm = 0
    # two archives mounted side by side under different prefixes, holding entries of the same names: reads alternate
    # between them; each read must deliver the bytes of the entry of the archive the prefix belongs to
    pairs = []
    for i in range(150 if quick else 2500):
        (pa, ia), (pb, ib) = g.pair()
        da, db = pbogen.pack(pa, ia), pbogen.pack(pb, ib)
        want = []
        for k in range(max(len(ia), len(ib))):
            if k < len(ia):
                want.append(hx(ia[k]['content']))
            if k < len(ib):
                want.append(hx(ib[k]['content']))
        pairs.append({'id': 'q%d' % i, 'want': 'r=' + ''.join(w + ';' for w in want), 'line': 'pbo2 q%d %s %s' % (i, hexf(da), hexf(db)), 'a': da, 'b': db})
    pimpl, _ = ctx.run_pair([c['line'] for c in pairs], timeout_ms=15000, model=False)
    n_pair_bad = 0
    for c in pairs:
        got = pimpl.get(c['id'])
        if got != c['want']:
            n_or += 1
            n_pair_bad += 1
            if n_pair_bad <= 3:
                rep.violation('oracle', {'property': 'C17', 'kind': 'two archives side by side', 'seed': ctx.seed, 'case': c['id'], 'archive_a_hex': c['a'].hex()[:3000],
                                         'archive_b_hex': c['b'].hex()[:3000], 'difference': {'expected (entries of A and B alternately)': c['want'][:1500], 'implementation': (got or '')[:1500]},
                                         'line': c['line'][:9000]})
    # thorough: the same files through an AddressSanitizer/UBSan build of the current tree — a read or write
    # outside a buffer, or an allocation the sanitizer refuses, ends the case with a signal
    n_asan = n_asan_bad = 0
    if not quick:
        ok, log = ctx.build('asan')
        if not ok:
            ctx.broken.append(('harness-build-asan', log[-400:]))
        else:
            sub = cases[:4000]
            aimpl, _ = ctx.run_pair([c['line'] for c in sub], variant='asan', timeout_ms=60000, model=False)
            for c in sub:
                n_asan += 1
                a = aimpl.get(c['id'])
                if a != impl.get(c['id']):
                    n_asan_bad += 1
                    if n_asan_bad <= 3:
                        rep.violation('oracle', {'property': 'C17', 'kind': 'sanitizer (' + c['kind'] + ')', 'seed': ctx.seed, 'case': c['id'],
                                                 'file_hex': c['bytes'].hex()[:4000], 'release_build': (impl.get(c['id']) or '')[:600],
                                                 'sanitizer_build': (a or '')[:600], 'line': c['line'][:9000]})
    kinds = {}
    outcomes = {}
    samples = []
    distinct = set()
    for c in cases:
        got = impl.get(c['id'])
        distinct.add(c['bytes'])
        kinds[c['kind']] = kinds.get(c['kind'], 0) + 1
        o = split_obs(got)
        bad = None
        if 'good' not in o or o.get('fs') != 'unchanged':
            bad = {'expected': 'a result, and no file created or modified', 'implementation': (got or '')[:400]}
        elif c['kind'] == 'absent':
            if o['good'] != '0':
                bad = {'expected': 'an absent archive fails to load', 'implementation': (got or '')[:300]}
        elif c['kind'] == 'well-formed':
            exp_props = ''.join('%s=%s;' % (hx(k), hx(v)) for k, v in c['props'])
            exp_files = ''.join('%s:%d:0;' % (hx(it['name']), len(it['content'])) for it in c['items'])
            exp_data = ''.join('%s;' % hx(it['content']) for it in c['items'])
            if o['good'] != '1':
                bad = {'expected': 'a well-formed archive loads', 'implementation': (got or '')[:300]}
            elif o.get('props', '') != exp_props:
                bad = {'field': 'props', 'expected': exp_props[:600], 'implementation': o.get('props', '')[:600]}
            elif o.get('files', '') != exp_files:
                bad = {'field': 'files', 'expected': exp_files[:600], 'implementation': o.get('files', '')[:600]}
            elif o.get('data', '') != exp_data:
                bad = {'field': 'data', 'expected': exp_data[:600], 'implementation': o.get('data', '')[:600]}
            elif any(k == b'prefix' for k, _ in c['props']) and o.get('vfs', '') != exp_data:
                bad = {'field': 'vfs (entries read through the virtual file system under the prefix)', 'expected': exp_data[:600],
                       'implementation': o.get('vfs', '')[:600]}
        else:
            # damaged: rejected, or only intact entries exposed (each delivered completely, inside the file)
            if o['good'] == '1':
                for fdesc, d in zip([x for x in o.get('files', '').split(';') if x], [x for x in o.get('data', '').split(';') if x]):
                    size = int(fdesc.split(':')[1])
                    dl = 0 if d == '-' else len(d) // 2
                    if d == '!' or dl != size or size > len(c['bytes']):
                        bad = {'expected': 'every exposed entry is delivered completely and lies inside the file', 'entry': fdesc, 'delivered_bytes': dl,
                               'file_size': len(c['bytes'])}
                        break
        key = '%s:good=%s' % (c['kind'], o.get('good'))
        outcomes[key] = outcomes.get(key, 0) + 1
        if len(samples) < 3 and c['kind'] == 'well-formed':
            samples.append({'file_bytes': len(c['bytes']), 'observation': (got or '')[:400]})
        if bad:
            n_or += 1
            if n_or <= 3:
                rep.violation('oracle', {'property': 'C17', 'kind': c['kind'], 'seed': ctx.seed, 'case': c['id'], 'file_hex': c['bytes'].hex()[:4000],
                                         'difference': bad, 'implementation': (got or '')[:1500], 'line': c['line'][:9000]})
        elif model is not None:
            mine = (got or '').split(' vfs=')[0].split(' cli=')[0].split(' fs=')[0]
            if mine != (model.get(c['id']) or ''):
                n_mm += 1
                if n_mm <= 3:
                    rep.violation('correspondence', {'property': 'C17', 'kind': 'model-vs-implementation (' + c['kind'] + ')', 'seed': ctx.seed, 'case': c['id'],
                                                     'file_hex': c['bytes'].hex()[:4000], 'implementation': mine[:2000], 'model': (model.get(c['id']) or '')[:2000],
                                                     'line': c['line'][:9000]})
    cov = {'evaluations': len(cases), 'distinct_nontrivial': len(distinct),
           'rule': 'archives produced by an independent Python packer (0-5 entries with backslash directory names, names and property strings up to 650 bytes, empty/text/binary/large contents and contents that begin with the bytes of a byte order mark, 0-3 properties with and without prefix, with and without checksum trailer), each also damaged four times (truncation at a random point, single bit flip, a 32-bit field overwritten with a huge value, inserted bytes, all zeros, random bytes), plus an absent file; plus entries whose names differ only in letter case (distinct entries), and pairs of archives mounted side by side under different prefixes with entries of the same names read alternately; every file is written to a scratch directory, opened through pbofile as the command line does, listed, every entry read through the archive and through the virtual file system, and the directory compared before/after; oracle: well-formed archives list exactly the packed properties/entries/bytes, damaged ones are rejected or expose only complete entries inside the file, nothing is created or modified; the Lean parser model must give the same listing and bytes for every file, damaged ones included; distinct by file bytes',
           'samples': samples, 'oracle_failures': n_or, 'model_mismatches': n_mm, 'case_kinds': kinds, 'outcomes': outcomes, 'generator_counts': g.stats, 'sanitizer_cases': n_asan, 'sanitizer_failures': n_asan_bad, 'archive_pairs': len(pairs), 'archive_pair_failures': n_pair_bad}
    return rep.finish(cov, ['reads past the end and oversized allocations are observed only in the thorough tier (AddressSanitizer/UBSan build of the current tree); the model reads only inside the byte string by construction',
                            'compressed and encrypted entries are listed with their stored bytes; no decompression exists in the implementation',
                            'entry names are restricted to letters, digits, dots and backslash-separated directories for the virtual file system part'])
