"""C06 — str / literals round-trip: printed values and code compile back to equal values."""
import os
import re
import sys

from .. import core
from ..core import hexf, unesc
from . import vmcommon as vc

sys.path.insert(0, os.path.join(core.VERIF, 'gen'))
import exprgen  # noqa: E402
import valgen  # noqa: E402


def split_obs(got):
    """res=… val=… tr=… g1=… g2=… gx=… → dict (values are escaped text as printed)"""
    m = re.match(r'res=(\S+) st=(\S+) err=(\S*) val=(.*?) tr=(.*?) g1=(.*?) g2=(.*?) gx=(.*)$', got or '')
    if not m:
        return None
    return {'res': m.group(1), 'err': m.group(3), 'tr': m.group(5), 'g1': m.group(6), 'g2': m.group(7), 'gx': m.group(8)}


def fold_bool_words(t):
    """lower-case the words true/false outside string literals: the syntax tree of the model does not keep how a Boolean
    literal was spelled (the printer writes it as written)"""
    out = []
    i, n = 0, len(t)
    while i < n:
        ch = t[i]
        if ch in '"\'':
            j = i + 1
            while j < n:
                if t[j] == ch:
                    if j + 1 < n and t[j + 1] == ch:
                        j += 2
                        continue
                    break
                j += 1
            out.append(t[i:j + 1])
            i = j + 1
        elif ch.isalpha() or ch == '_':
            j = i
            while j < n and (t[j].isalnum() or t[j] == '_'):
                j += 1
            w = t[i:j]
            out.append(w.lower() if w.lower() in ('true', 'false') else w)
            i = j
        else:
            out.append(ch)
            i += 1
    return ''.join(out)


def run(ctx):
    rep = core.Report(ctx)
    if not vc.prepare(ctx, 'C06'):
        return rep.finish({'evaluations': 0, 'distinct_nontrivial': 0, 'rule': 'harness did not build', 'samples': []}, [])
    quick = ctx.tier == 'quick'
    n_val, n_pretty = (5000, 1500) if quick else (80000, 25000)
    pools = exprgen.Pools.from_dump(os.path.join(core.SCRATCH, 'registry.dump'))
    g = valgen.ValGen(ctx.rng.fork('val'), pools)
    cases = []
    for i in range(n_val):
        lit, shown, rendered = g.value()
        prog = b'g1 = ' + lit + b'; gx = str g1; g2 = call compile gx; tr = [g1 isEqualTo g2]'
        cid = 'v%d' % i
        cases.append({'id': cid, 'text': prog, 'lit': lit, 'shown': shown, 'rendered': rendered,
                      'line': 'run %s %s %s %s' % (cid, hexf(prog), hexf(vc.GLOBALS), hexf('2000'))})
    # literals at the lower edge of single precision: below the smallest normal value (1.17549e-38) the nearest
    # single-precision value is a subnormal number or zero, never NaN (oracle only: the model keeps decimals exactly)
    import struct
    er = ctx.rng.fork('edge-literals')
    for i in range(60 if quick else 1500):
        mant = 1 + er.below(99999)
        exp = -(37 + er.below(12)) - len(str(mant)) + 1
        text = '%d%s-%d' % (mant, er.choice(['e', 'E']), -exp)
        if er.chance(1, 4):
            text = '-' + text
        f32 = struct.unpack('f', struct.pack('f', float(text)))[0]
        want = '%g' % f32
        want = {'-0': '-0', '0': '0'}.get(want, want)
        prog = ('g1 = %s; gx = str g1; tr = [g1 > 0, g1 < 0, g1 == 0]' % text).encode()
        cid = 'u%d' % i
        sign = '[true,false,false]' if f32 > 0 else '[false,true,false]' if f32 < 0 else '[false,false,true]'
        cases.append({'id': cid, 'text': prog, 'lit': text.encode(), 'shown': None, 'rendered': None, 'edge': (want, sign),
                      'line': 'run %s %s %s %s' % (cid, hexf(prog), hexf(vc.GLOBALS), hexf('2000'))})
    # two round trips in one VM on values that differ in the case of their letters only: each text denotes its own value
    pr = ctx.rng.fork('casepairs')
    for i in range(150 if quick else 3000):
        word = ''.join(pr.choice('abcXYZ qR"\'1') for _ in range(1 + pr.below(8))) + pr.choice('abcdEFGH')
        other = word.swapcase()
        la = ('"' + word.replace('"', '""') + '"').encode('latin-1')
        lb = ('"' + other.replace('"', '""') + '"').encode('latin-1')
        if pr.chance(1, 3):
            la, lb = b'[' + la + b', 1]', b'[' + lb + b', 1]'
        elif pr.chance(1, 3):
            la, lb = b'{ hint ' + la + b' }', b'{ hint ' + lb + b' }'
        prog = b'g1 = ' + la + b'; gx = str g1; g2 = call compile gx; gy = ' + lb + b'; gx = str gy; gz = call compile gx; tr = [g1 isEqualTo g2, gy isEqualTo gz, g1 isEqualTo gy]'
        cid = 'w%d' % i
        cases.append({'id': cid, 'text': prog, 'lit': la + b' / ' + lb, 'shown': None, 'rendered': None, 'pair': True,
                      'line': 'run %s %s %s %s' % (cid, hexf(prog), hexf(vc.GLOBALS), hexf('2000'))})
    # pretty printer: expression / statement trees, compared through their instruction listings
    eg = exprgen.ExprGen(ctx.rng.fork('pretty'), pools, max_depth=4)
    pcases = []
    for i in range(n_pretty):
        stmts = [eg.statement(0) for _ in range(1 + eg.rng.below(3))]
        text = eg.render_program(stmts)
        pcases.append({'id': 'p%d' % i, 'text': text, 'line': 'pretty p%d %s' % (i, hexf(text))})
    impl, model = vc.run_cases(ctx, cases, timeout_ms=8000)
    pimpl, pmodel = ctx.run_pair([c['line'] for c in pcases])
    # model only: the bytes the pretty-printer model writes lex to the tokens of its token-level view (the decorated tree the
    # theorems C06_pretty_* are about), and the model parser reads them back to the same instructions
    ptie = {}
    if pmodel is not None and os.path.exists(ctx.driver()):
        import subprocess
        tl = ''.join('prettytie %s %s\n' % (c['id'], hexf(c['text'])) for c in pcases)
        pr = subprocess.run([ctx.driver()], input=tl.encode(), stdout=subprocess.PIPE, stderr=subprocess.DEVNULL)
        for ln in pr.stdout.decode('latin-1').split('\n'):
            if ln:
                k, _, v = ln.partition(' ')
                ptie[k] = v
    # second phase: listings of the original and of the pretty-printed text
    lines2 = []
    for c in pcases:
        got = pimpl.get(c['id'])
        if got and got.startswith('ok '):
            c['pretty'] = unesc(got[3:])
            lines2.append('asm %sa %s' % (c['id'], hexf(c['text'])))
            lines2.append('asm %sb %s' % (c['id'], hexf(c['pretty'])))
    asm, _ = ctx.run_pair(lines2, model=False)

    n_or = n_mm = 0
    distinct = set()
    samples = []
    for c in cases:
        got = impl.get(c['id'])
        o = split_obs(got)
        distinct.add(c['lit'])
        bad = None
        if o is None or o['res'] != 'empty' or o['err'] != '':
            bad = {'expected': 'str / compile / call succeed', 'implementation': (got or '')[:300]}
        elif c.get('edge'):
            want, sign = c['edge']
            if o['tr'] != sign or (unesc(o['g1']).decode('latin-1') != want and float(want) != 0):
                bad = {'expected': 'the literal denotes the nearest single-precision value %s (sign tests %s)' % (want, sign),
                       'implementation': {'value': o['g1'][:100], 'sign_tests': o['tr']}}
        elif o['g1'] != o['g2']:
            bad = {'expected': 'value compiled from str equals the original (instruction for instruction for code)', 'original': o['g1'][:300], 'recompiled': o['g2'][:300], 'str': o['gx'][:300]}
        elif o['tr'] != ('[true,true,false]' if c.get('pair') else '[true]'):
            bad = {'expected': 'original isEqualTo recompiled', 'implementation': o['tr']}
        elif c['shown'] is not None and unesc(o['gx']) != b'"' + c['shown'].replace(b'"', b'""') + b'"':
            bad = {'expected_str': c['shown'].decode('latin-1'), 'implementation': o['gx'][:300]}
        elif c['rendered'] is not None and unesc(o['g1']) != c['rendered']:
            bad = {'expected_value_of_literal': c['rendered'].decode('latin-1'), 'implementation': o['g1'][:300]}
        if len(samples) < 5 and len(c['lit']) > 25:
            samples.append({'literal': c['lit'].decode('latin-1'), 'observation': (got or '')[:300]})
        if bad:
            n_or += 1
            if n_or <= 3:
                rep.violation('oracle', {'property': 'C06', 'kind': 'str-round-trip', 'seed': ctx.seed, 'case': c['id'],
                                         'literal': c['lit'].decode('latin-1'), 'literal_hex': c['lit'].hex(), 'difference': bad, 'line': c['line']})
        elif model is not None and not c.get('edge') and got != model.get(c['id']):
            n_mm += 1
            if n_mm <= 3:
                rep.violation('correspondence', {'property': 'C06', 'kind': 'model-vs-implementation', 'seed': ctx.seed, 'case': c['id'],
                                                 'literal': c['lit'].decode('latin-1'), 'literal_hex': c['lit'].hex(),
                                                 'implementation': (got or '')[:2000], 'model': (model.get(c['id']) or '')[:2000], 'line': c['line']})
    n_pp = n_pmm = n_ptie = n_ptie_bad = n_pgood = 0
    for c in pcases:
        if pmodel is not None:
            gi, gm = pimpl.get(c['id']) or '', pmodel.get(c['id']) or ''
            # a text the implementation prints must be printed byte for byte by the model (texts that do not parse are
            # printed as far as the recovered tree goes by the implementation; the model answers parse-error for them)
            if gi.startswith('ok ') and gm != 'parse-error' and fold_bool_words(unesc(gm).decode('latin-1')) != fold_bool_words(unesc(gi).decode('latin-1')):
                n_pmm += 1
                if n_pmm <= 3:
                    rep.violation('correspondence', {'property': 'C06', 'kind': 'pretty-printer model-vs-implementation', 'seed': ctx.seed, 'case': c['id'],
                                                     'input': c['text'].decode('latin-1'), 'implementation': gi[:2000], 'model': gm[:2000], 'line': c['line']})
            t = ptie.get(c['id'])
            if t is not None and t != 'parse-error':
                n_ptie += 1
                if t.startswith('good=yes '):
                    n_pgood += 1          # the hypothesis of C06_pretty_same_instructions_checked, evaluated on this program
                if t.partition(' ')[2] != 'tokens=agree readback=same':
                    n_ptie_bad += 1
                    if n_ptie_bad <= 3:
                        rep.violation('correspondence', {'property': 'C06', 'kind': 'pretty-printer model: text vs token-level view', 'seed': ctx.seed, 'case': c['id'],
                                                         'input': c['text'].decode('latin-1'), 'model': t, 'line': 'prettytie x %s' % hexf(c['text'])})
        if 'pretty' not in c:
            if not (pimpl.get(c['id']) or '').startswith('parse-error') and pimpl.get(c['id']) != 'empty':
                pass
            continue
        n_pp += 1
        a, b = asm.get(c['id'] + 'a'), asm.get(c['id'] + 'b')
        if a != b:
            n_or += 1
            if n_or <= 3:
                rep.violation('oracle', {'property': 'C06', 'kind': 'pretty-printer', 'seed': ctx.seed, 'case': c['id'],
                                         'input': c['text'].decode('latin-1'), 'pretty': c['pretty'].decode('latin-1'),
                                         'listing_of_input': a, 'listing_of_pretty': b, 'line': c['line']})
    cov = {'evaluations': len(cases) + len(pcases), 'distinct_nontrivial': len(distinct) + n_pp,
           'rule': 'literal values (booleans, strings over all bytes 1..255 with boosted quotes/newlines/backslashes, numbers with at most 6 significant digits spelled plain / with exponent / with leading dot / in hex / negated, nested arrays, code blocks over the live registry): g1 = literal; gx = str g1; g2 = call compile gx — the rendered g1 and g2 (instruction listings for code) must coincide, isEqualTo must hold, str must equal the expected text, the literal must denote the nearest single-precision value; literals below the smallest normal single-precision value denote the nearest subnormal value or zero (oracle only); also two such round trips in one VM on values that differ in the case of their letters only; the same run on the Lean model (str = model of to_string_sqf / reconstruct, compile = the C01 front-end model) must give the same observation; pretty printer: listing(pretty(text)) = listing(text); the text must equal the text the Lean model of prettify writes byte for byte, and that text must lex to the token sequence of the decorated tree the C06_pretty theorems speak about',
           'samples': samples, 'oracle_failures': n_or, 'model_mismatches': n_mm, 'pretty_printed': n_pp, 'pretty_model_mismatches': n_pmm, 'pretty_text_vs_token_view_checked': n_ptie, 'pretty_theorem_hypothesis_holds_on': n_pgood, 'pretty_text_vs_token_view_differences': n_ptie_bad, 'value_kinds': g.stats}
    return rep.finish(cov, ['numbers outside the at-most-6-significant-digit class are not generated (the property restricts to it)',
                            'binary rounding of arbitrary floats is not modelled; the decimal class is exact in the model'])
