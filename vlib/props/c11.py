"""C11 — execution bounds: max runtime per run, loop cap in unscheduled code."""
import re

from .. import core
from ..core import hexf
from . import vmcommon as vc


def gen_timed(ctx, n):
    """non-terminating / long programs of every loop kind, scheduled and unscheduled, with a time limit;
    the virtual clock advances one millisecond per clock read (one read per instruction while a limit
    is configured), so the limit is reached after a known number of instructions"""
    r = ctx.rng.fork('timed')
    cases = []
    bodies = ['{ c = c + 1 }', '{ }', '{ c = c + 1; call { d = c } }', '{ { c = c + 1 } forEach [1, 2, 3] }',
              '{ if (c > 5) then { c = c + 1 } else { c = c + 2 } }', '{ c = c + 1; [] spawn { c = c + 1 } }']
    for i in range(n):
        kind = r.weighted([('while', 5), ('for0', 3), ('forlong', 2), ('recurse', 2), ('spawnchain', 2), ('waituntil', 2), ('terminating', 3), ('sleeper', 3), ('waitfalse', 3), ('whilecond', 2), ('evalloop', 2)])
        body = r.choice(bodies)
        sched = r.chance(1, 2)
        if kind == 'while':
            core_ = 'while {true} do %s' % body
        elif kind == 'whilecond':
            # the condition counts its own evaluations: a capped loop evaluates it as often as it runs the body
            core_ = 'd = 0; while { c = c + 1; true } do { d = d + 1 }'
            sched = False
        elif kind == 'evalloop':
            # expressions evaluated while a text is preprocessed, from inside a run: they run on the budget of that run
            core_ = r.choice(['for "_i" from 0 to 1 step 0 do { c = c + 1; preprocess__ "__EVAL(1+1)" }',
                              'while { true } do { c = c + 1; preprocess__ "a = __EVAL(c)"; preprocess__ "__EVAL(2)" }'])
        elif kind == 'for0':
            core_ = 'for "_i" from 0 to 1 step 0 do %s' % body
        elif kind == 'forlong':
            core_ = 'for "_i" from 0 to 1000000 do %s' % body
        elif kind == 'recurse':
            core_ = 'f = { c = c + 1; call f }; call f'
        elif kind == 'spawnchain':
            core_ = 'f = { c = c + 1; [] spawn f }; [] spawn f; [] spawn f'
        elif kind == 'waituntil':
            core_ = 'while {true} do { waitUntil { c = c + 1; true }; sleep 0.003 }'
            sched = True
        elif kind == 'sleeper':
            # scripts that execute (almost) nothing: the run consists of sleeping
            core_ = r.choice(['sleep 5', 'sleep 100', 'sleep 0.5', 'while {true} do { sleep 1 }', 'uiSleep 30', 'c = 1; sleep 2; c = 2', '[] spawn { sleep 50 }; [] spawn { sleep 60 }; sleep 70',
                              'sleep 0.01; sleep 3'])
            sched = True
        elif kind == 'waitfalse':
            # a wait whose condition never holds: false, or no boolean at all
            core_ = r.choice(['waitUntil { false }', 'waitUntil { c = c + 1; false }', 'waitUntil { c > 1e9 }', 'waitUntil { sleep 1; false }', 'waitUntil { false }; c = -1'])
            if 'sleep' in core_:
                sched = True    # sleeping is an error in unscheduled code: the program would end
        else:
            core_ = 'for "_i" from 1 to %d do %s' % (r.below(20), body if body != '{ }' else '{ c = c + 1 }')
        prog = 'c = 0; ' + (('h = [] spawn { %s }' % core_) if sched else core_) + '; done = 1'
        limit = r.choice([20, 35, 50, 80, 120, 200, 400])
        maxloops = r.choice([10000, 10000, 7, 50])
        age = r.choice([0, 0, 1000, 100000])
        if kind == 'whilecond':
            limit, maxloops = 400, 7
        if kind == 'evalloop':
            maxloops = 10000000
        cid = 't%d' % i
        cases.append({'id': cid, 'text': prog, 'kind': kind, 'nomodel': kind == 'evalloop', 'sched': sched, 'limit': limit, 'maxloops': maxloops, 'age': age,
                      'line': 'start %s %s %s %s %s %s' % (cid, hexf(prog), hexf('c,done'), hexf(str(limit)), hexf(str(maxloops)), hexf(str(age)))})
    return cases


def gen_histories(ctx, n):
    """several runs on one instance (through the exported API, virtual clock): a run that is cut off by the limit is
    followed by ordinary runs, which must start with a full budget, run normally and report success; the instance
    may be older than the limit before its first run"""
    r = ctx.rng.fork('histories')
    endless = ['while { true } do { ga = 1 }', 'for "_i" from 0 to 1 step 0 do { }', 'for "_i" from 0 to 1 step 0 do { ga = 1 }',
               'f = { call f }; call f', 'h = [] spawn { while { true } do { ga = 1 } }', 'h = [] spawn { sleep 50 }',
               'h = [] spawn { waitUntil { false } }', 'f = { [] spawn f }; [] spawn f', 'h = [] spawn { while { true } do { sleep 0.01 } }',
               'while { true } do { }']
    plain = ['gb = 1 + 1; gb', 'private _i = 0; while { _i < 8 } do { _i = _i + 1 }; gb = _i', 'gb = [1, 2, 3] apply { _x * 2 }; count gb',
             'h = [] spawn { gb = 3 }; gb = 2', 'if (isNil "ga") then { gb = 0 } else { gb = ga }; gb']
    hx = lambda t: t.encode('latin-1').hex()
    cases = []
    for i in range(n):
        limit = r.choice([125, 250])
        ops = ['new 0 %d 7' % limit]
        exp = ['ok']
        tag = 1
        for _ in range(r.below(3)):
            ops.append('call 0 %d s %s' % (tag, hx(r.choice(plain)))); exp.append('rc=0'); tag += 1
        for _ in range(1 + r.below(2)):
            ops.append('call 0 %d s %s' % (tag, hx(r.choice(endless)))); exp.append('rc=-6'); tag += 1
            if r.chance(1, 2):
                ops.append('status 0'); exp.append('rc=0')
            for _ in range(1 + r.below(2)):
                ops.append('call 0 %d s %s' % (tag, hx(r.choice(plain)))); exp.append('rc=0'); tag += 1
        ops.append('status 0'); exp.append('rc=0')
        cid = 'h%d' % i
        cases.append({'id': cid, 'ops': '\n'.join(ops), 'exp': exp, 'line': 'api %s %s' % (cid, hexf('\n'.join(ops)))})
    return cases


def history_oracle(c, got):
    parts = (got or '').split(' ; ')
    if len(parts) != len(c['exp']):
        return {'expected': '%d operation results' % len(c['exp']), 'implementation': (got or '')[:400]}
    for k, (p, e) in enumerate(zip(parts, c['exp'])):
        m = re.match(r'(ok|null|rc=-?\d+|bad-op)((?:\[-?\d+:\d+:\d+\])*)$', p)
        op = c['ops'].split('\n')[k]
        if not m or m.group(1) != e:
            return {'op_index': k, 'op': op[:200], 'expected': e + (' (the run is cut off by the limit and reported as failed)' if e == 'rc=-6' else
                                                                    ' (a run behind a cut-off run executes normally)' if e == 'rc=0' else ''),
                    'implementation': p[:300]}
        if e == 'rc=0' and op.startswith('call'):
            levels = [int(lv) for lv, _, _ in re.findall(r'\[(-?\d+):(\d+):(\d+)\]', m.group(2))]
            if any(lv <= 1 for lv in levels):
                return {'op_index': k, 'op': op[:200], 'expected': 'no error-level diagnostic in a run that succeeds', 'implementation': p[:300]}
    return None


def oracle(c, got):
    if got is None:
        return {'expected': 'an observation', 'implementation': None}
    if got in ('timeout',) or got.startswith('crash') or got.startswith('cpp-exception'):
        return {'expected': 'the run ends within the limit', 'implementation': got}
    m = re.match(r'res=(\S+) st=(\S+) err=(\S*) t=(\d+) c=(\S+) done=(\S+)$', got)
    if not m:
        return {'expected': 'parsable observation', 'implementation': got[:200]}
    res, st, err, t, cnt, done = m.groups()
    t = int(t)
    elapsed = t - c['age']
    capped = (c['kind'] in ('while', 'whilecond') and not c['sched'])
    if c['kind'] == 'terminating' or capped:
        # may legitimately finish before the limit (terminating program, or the iteration cap ends the loop)
        if res == 'empty' and st == 'empty' and err == '' and done == '1':
            if capped and c['text'].count('c = c + 1') == 1 and 'forEach' not in c['text'] and 'if (c' not in c['text'] and 'spawn' not in c['text']:
                if cnt != str(c['maxloops']):
                    return {'expected': 'exactly %d iterations (the cap)' % c['maxloops'], 'implementation': cnt}
            return None
    # otherwise the limit must have hit: reported, VM empty, within limit + slack
    if '60002' not in err.split(','):
        return {'expected': 'MaximumRuntimeReached (60002) reported', 'implementation': got[:200]}
    if st != 'empty':
        return {'expected': 'VM empty after the aborted run', 'implementation': st}
    if res != 'runtime_error':
        return {'expected': 'aborted run reported as failed', 'implementation': res}
    if elapsed > c['limit'] + 8:
        return {'expected': 'end within the limit (%d ms) plus a small slack' % c['limit'], 'implementation': '%d ms' % elapsed}
    if elapsed < c['limit']:
        return {'expected': 'the budget of this run is the whole limit, measured from the start of the run', 'implementation': '%d ms' % elapsed}
    return None


def run(ctx):
    rep = core.Report(ctx)
    if not vc.prepare(ctx, 'C11'):
        return rep.finish({'evaluations': 0, 'distinct_nontrivial': 0, 'rule': 'harness did not build', 'samples': []}, [])
    quick = ctx.tier == 'quick'
    cases = gen_timed(ctx, 1200 if quick else 6000)
    impl, model = vc.run_cases(ctx, cases, timeout_ms=20000)
    n_or = n_mm = 0
    kinds = {}
    distinct = set()
    samples = []
    for c in cases:
        got = impl.get(c['id'])
        kinds[c['kind'] + ('/sched' if c['sched'] else '/unsched')] = kinds.get(c['kind'] + ('/sched' if c['sched'] else '/unsched'), 0) + 1
        distinct.add((c['text'], c['limit'], c['maxloops'], c['age']))
        if len(samples) < 6 and c['kind'] not in [s.get('kind') for s in samples]:
            samples.append({'kind': c['kind'], 'program': c['text'], 'limit_ms': c['limit'], 'max_loops': c['maxloops'], 'vm_age_ms': c['age'], 'observation': got})
        bad = oracle(c, got)
        if bad:
            n_or += 1
            if n_or <= 3:
                rep.violation('oracle', {'property': 'C11', 'kind': 'execution-bound', 'seed': ctx.seed, 'case': c['id'], 'program': c['text'],
                                         'limit_ms': c['limit'], 'max_loops': c['maxloops'], 'vm_age_ms': c['age'], 'difference': bad, 'line': c['line']})
        elif model is not None and not c.get('nomodel') and got != model.get(c['id']):
            n_mm += 1
            if n_mm <= 3:
                rep.violation('correspondence', {'property': 'C11', 'kind': 'model-vs-implementation', 'seed': ctx.seed, 'case': c['id'],
                                                 'program': c['text'], 'implementation': got, 'model': model.get(c['id']), 'line': c['line']})
    hist = gen_histories(ctx, 400 if quick else 3000)
    himpl, hmodel = vc.run_cases(ctx, hist, timeout_ms=30000)
    n_h = 0
    for c in hist:
        got = himpl.get(c['id'])
        distinct.add(c['ops'])
        bad = history_oracle(c, got)
        if bad:
            n_or += 1
            n_h += 1
            if n_h <= 3:
                rep.violation('oracle', {'property': 'C11', 'kind': 'runs-on-one-instance', 'seed': ctx.seed, 'case': c['id'], 'history': c['ops'],
                                         'difference': bad, 'implementation': (got or '')[:1500], 'line': c['line']})
        elif hmodel is not None and got != hmodel.get(c['id']):
            n_mm += 1
            if n_mm <= 3:
                rep.violation('correspondence', {'property': 'C11', 'kind': 'model-vs-implementation (runs on one instance)', 'seed': ctx.seed, 'case': c['id'],
                                                 'history': c['ops'], 'implementation': (got or '')[:2000], 'model': (hmodel.get(c['id']) or '')[:2000], 'line': c['line']})
    # stepping actions and repeated starts under a time limit (ctl verb with a limit; W = more than the limit passes while
    # nothing executes): (a) a stepping action over a loop that does not end is cut off by the limit like a start: the VM is
    # empty afterwards and the loop has run for about the limit, not for its 10000 capped iterations; (b) a history on a
    # VM that keeps a halted script across a pause longer than the limit: every action measures the limit from its own
    # start, so the history equals the one without pauses and without limit
    sr = ctx.rng.fork('step-limit')
    steps = []
    for i in range(120 if quick else 1500):
        limit = sr.choice([200, 300, 500])
        if i % 2 == 0:
            pre = 'l' + 'a' * sr.below(4)          # over line 1, then some instructions into the loop
            act = sr.choice('lvS')
            text = 'tr = [0];\n' + sr.choice(['while { true } do { tr set [0, (tr select 0) + 1] };', 'for "_i" from 0 to 1 step 0 do { tr set [0, (tr select 0) + 1] };',
                                              'call { while { true } do { tr set [0, (tr select 0) + 1] } };'])
            c = {'id': 'sl%d' % i, 'kind': 'cut', 'text': text, 'actions': pre + act, 'limit': limit}
            c['line'] = 'ctl %s %s %s %s %s' % (c['id'], hexf(text), hexf(c['actions']), hexf('1,2'), hexf(str(limit)))
            steps.append(c)
        else:
            text = 'tr = [];\ntr pushBack 1;\n1 + "a";\ntr pushBack 2; call { tr pushBack 3 };\ntr pushBack 4;'
            base = ''.join(sr.weighted([('a', 3), ('l', 3), ('v', 1), ('S', 2)]) for _ in range(2 + sr.below(5)))
            withw = ''.join(ch + ('W' if sr.chance(1, 2) else '') for ch in base)
            c = {'id': 'sl%d' % i, 'kind': 'pause', 'text': text, 'actions': withw, 'limit': 5000, 'base': base}
            c['line'] = 'ctl %s %s %s %s %s' % (c['id'], hexf(text), hexf(withw), hexf('1,2,3,4,4,5'), hexf('5000'))
            c['plain'] = 'ctl sp%d %s %s %s %s' % (i, hexf(text), hexf(base), hexf('1,2,3,4,4,5'), hexf('0'))
            steps.append(c)
    simpl, smodel = ctx.run_pair([c['line'] for c in steps] + [c['plain'] for c in steps if 'plain' in c], timeout_ms=20000)
    n_sl = 0
    for c in steps:
        got = simpl.get(c['id']) or ''
        distinct.add(c['line'])
        body, _, tr = got.partition(' | tr=')
        parts = body.split(' ; ')
        bad = None
        if len(parts) != len(c['actions']) + 1:
            bad = {'expected': 'one result per action', 'implementation': got[:400]}
        elif c['kind'] == 'cut':
            last = parts[-1].split(':')
            m = re.match(r'\[(\d+)\]$', tr)
            if last[1] != 'empty' or not m or int(m.group(1)) > c['limit']:
                bad = {'expected': 'the action over a loop that does not end is cut off by the time limit of %d ms: VM empty, at most %d iterations' % (c['limit'], c['limit']),
                       'implementation': {'last_action': parts[-1], 'iterations': tr}}
        else:
            plain = simpl.get('sp' + c['id'][2:]) or ''
            nowait = ' ; '.join(p for p in parts if not p.startswith('wait:')) + ' | tr=' + tr
            if nowait != plain:
                bad = {'expected': 'the history without pauses and without limit: ' + plain[:600], 'implementation': got[:600]}
        if bad:
            n_or += 1
            n_sl += 1
            if n_sl <= 3:
                rep.violation('oracle', {'property': 'C11', 'kind': 'stepping-under-a-time-limit', 'seed': ctx.seed, 'case': c['id'], 'program': c['text'],
                                         'actions': c['actions'], 'limit_ms': c['limit'], 'difference': bad, 'line': c['line']})
        elif smodel is not None and got != (smodel.get(c['id']) or ''):
            n_mm += 1
            if n_mm <= 3:
                rep.violation('correspondence', {'property': 'C11', 'kind': 'model-vs-implementation (stepping under a time limit)', 'seed': ctx.seed, 'case': c['id'],
                                                 'program': c['text'], 'actions': c['actions'], 'limit_ms': c['limit'],
                                                 'implementation': got[:2000], 'model': (smodel.get(c['id']) or '')[:2000], 'line': c['line']})
    cov = {'evaluations': len(cases) + len(hist) + len(steps), 'distinct_nontrivial': len(distinct), 'run_histories': len(hist), 'stepping_histories_under_a_limit': len(steps),
           'rule': 'non-terminating and long programs of every loop kind (while incl. empty body, for incl. step 0, recursion through call, mutually spawning scripts, waitUntil), scheduled and unscheduled, with a time limit, a loop cap and a VM age drawn at random; run with execute(start) under the virtual clock; oracle: the limit is reported (60002), the VM is empty, the run is reported failed, the end time lies in [limit, limit + slack], or — for capped / terminating programs — the program ends cleanly with exactly cap iterations; distinct by (text, limit, cap, age); in addition histories of runs on one instance with a limit (exported API): ordinary runs, one or two runs that never end of ten kinds, ordinary runs behind them; oracle: -6 for the cut-off run, 0 and no error-level diagnostic for every run behind it, status idle; plus stepping histories under a time limit (ctl verb with a limit and a pause action): a stepping action or start over a loop that does not end is cut off by the limit (VM empty, about limit iterations), and a history that keeps a halted script across pauses longer than the limit equals the history without pauses and without limit (every action measures the limit from its own start); both compared with the model step by step; also loops whose condition counts its own evaluations under a small cap, and loops that preprocess texts with __EVAL under a limit (oracle only)',
           'samples': samples, 'oracle_failures': n_or, 'model_mismatches': n_mm, 'kinds': kinds}
    return rep.finish(cov, ['each single operator call terminates (the property\'s proviso); wall-clock slack of a single long operator call is outside the virtual clock',
                            'longer histories of API calls with every call type are explored by C18'])
