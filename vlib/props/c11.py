"""C11 — execution bounds: max runtime per run, loop cap in unscheduled code."""
import re

from .. import core
from ..core import hexf
from . import vmcommon as vc


def gen_timed(ctx, n):
    """non-terminating / long programs of every loop kind, scheduled and unscheduled, with a time limit;
    the virtual clock advances one millisecond per clock read (one read per instruction while a limit
    is configured), so the limit is reached after a known number of instructions"""
    r = ctx.rng.fork('timed')
    cases = []
    bodies = ['{ c = c + 1 }', '{ }', '{ c = c + 1; call { d = c } }', '{ { c = c + 1 } forEach [1, 2, 3] }',
              '{ if (c > 5) then { c = c + 1 } else { c = c + 2 } }', '{ c = c + 1; [] spawn { c = c + 1 } }']
    for i in range(n):
        kind = r.weighted([('while', 5), ('for0', 3), ('forlong', 2), ('recurse', 2), ('spawnchain', 2), ('waituntil', 2), ('terminating', 3), ('sleeper', 3), ('waitfalse', 3)])
        body = r.choice(bodies)
        sched = r.chance(1, 2)
        if kind == 'while':
            core_ = 'while {true} do %s' % body
        elif kind == 'for0':
            core_ = 'for "_i" from 0 to 1 step 0 do %s' % body
        elif kind == 'forlong':
            core_ = 'for "_i" from 0 to 1000000 do %s' % body
        elif kind == 'recurse':
            core_ = 'f = { c = c + 1; call f }; call f'
        elif kind == 'spawnchain':
            core_ = 'f = { c = c + 1; [] spawn f }; [] spawn f; [] spawn f'
        elif kind == 'waituntil':
            core_ = 'while {true} do { waitUntil { c = c + 1; true }; sleep 0.003 }'
            sched = True
        elif kind == 'sleeper':
            # scripts that execute (almost) nothing: the run consists of sleeping
            core_ = r.choice(['sleep 5', 'sleep 100', 'sleep 0.5', 'while {true} do { sleep 1 }', 'uiSleep 30', 'c = 1; sleep 2; c = 2', '[] spawn { sleep 50 }; [] spawn { sleep 60 }; sleep 70',
                              'sleep 0.01; sleep 3'])
            sched = True
        elif kind == 'waitfalse':
            # a wait whose condition never holds: false, or no boolean at all
            core_ = r.choice(['waitUntil { false }', 'waitUntil { c = c + 1; false }', 'waitUntil { c > 1e9 }', 'waitUntil { sleep 1; false }', 'waitUntil { false }; c = -1'])
            if 'sleep' in core_:
                sched = True    # sleeping is an error in unscheduled code: the program would end
        else:
            core_ = 'for "_i" from 1 to %d do %s' % (r.below(20), body if body != '{ }' else '{ c = c + 1 }')
        prog = 'c = 0; ' + (('h = [] spawn { %s }' % core_) if sched else core_) + '; done = 1'
        limit = r.choice([20, 35, 50, 80, 120, 200, 400])
        maxloops = r.choice([10000, 10000, 7, 50])
        age = r.choice([0, 0, 1000, 100000])
        cid = 't%d' % i
        cases.append({'id': cid, 'text': prog, 'kind': kind, 'sched': sched, 'limit': limit, 'maxloops': maxloops, 'age': age,
                      'line': 'start %s %s %s %s %s %s' % (cid, hexf(prog), hexf('c,done'), hexf(str(limit)), hexf(str(maxloops)), hexf(str(age)))})
    return cases


def oracle(c, got):
    if got is None:
        return {'expected': 'an observation', 'implementation': None}
    if got in ('timeout',) or got.startswith('crash') or got.startswith('cpp-exception'):
        return {'expected': 'the run ends within the limit', 'implementation': got}
    m = re.match(r'res=(\S+) st=(\S+) err=(\S*) t=(\d+) c=(\S+) done=(\S+)$', got)
    if not m:
        return {'expected': 'parsable observation', 'implementation': got[:200]}
    res, st, err, t, cnt, done = m.groups()
    t = int(t)
    elapsed = t - c['age']
    capped = (c['kind'] == 'while' and not c['sched'])
    if c['kind'] == 'terminating' or capped:
        # may legitimately finish before the limit (terminating program, or the iteration cap ends the loop)
        if res == 'empty' and st == 'empty' and err == '' and done == '1':
            if capped and c['text'].count('c = c + 1') == 1 and 'forEach' not in c['text'] and 'if (c' not in c['text'] and 'spawn' not in c['text']:
                if cnt != str(c['maxloops']):
                    return {'expected': 'exactly %d iterations (the cap)' % c['maxloops'], 'implementation': cnt}
            return None
    # otherwise the limit must have hit: reported, VM empty, within limit + slack
    if '60002' not in err.split(','):
        return {'expected': 'MaximumRuntimeReached (60002) reported', 'implementation': got[:200]}
    if st != 'empty':
        return {'expected': 'VM empty after the aborted run', 'implementation': st}
    if res != 'runtime_error':
        return {'expected': 'aborted run reported as failed', 'implementation': res}
    if elapsed > c['limit'] + 8:
        return {'expected': 'end within the limit (%d ms) plus a small slack' % c['limit'], 'implementation': '%d ms' % elapsed}
    if elapsed < c['limit']:
        return {'expected': 'the budget of this run is the whole limit, measured from the start of the run', 'implementation': '%d ms' % elapsed}
    return None


def run(ctx):
    rep = core.Report(ctx)
    if not vc.prepare(ctx, 'C11'):
        return rep.finish({'evaluations': 0, 'distinct_nontrivial': 0, 'rule': 'harness did not build', 'samples': []}, [])
    quick = ctx.tier == 'quick'
    cases = gen_timed(ctx, 400 if quick else 6000)
    impl, model = vc.run_cases(ctx, cases, timeout_ms=20000)
    n_or = n_mm = 0
    kinds = {}
    distinct = set()
    samples = []
    for c in cases:
        got = impl.get(c['id'])
        kinds[c['kind'] + ('/sched' if c['sched'] else '/unsched')] = kinds.get(c['kind'] + ('/sched' if c['sched'] else '/unsched'), 0) + 1
        distinct.add((c['text'], c['limit'], c['maxloops'], c['age']))
        if len(samples) < 6 and c['kind'] not in [s.get('kind') for s in samples]:
            samples.append({'kind': c['kind'], 'program': c['text'], 'limit_ms': c['limit'], 'max_loops': c['maxloops'], 'vm_age_ms': c['age'], 'observation': got})
        bad = oracle(c, got)
        if bad:
            n_or += 1
            if n_or <= 3:
                rep.violation('oracle', {'property': 'C11', 'kind': 'execution-bound', 'seed': ctx.seed, 'case': c['id'], 'program': c['text'],
                                         'limit_ms': c['limit'], 'max_loops': c['maxloops'], 'vm_age_ms': c['age'], 'difference': bad, 'line': c['line']})
        elif model is not None and got != model.get(c['id']):
            n_mm += 1
            if n_mm <= 3:
                rep.violation('correspondence', {'property': 'C11', 'kind': 'model-vs-implementation', 'seed': ctx.seed, 'case': c['id'],
                                                 'program': c['text'], 'implementation': got, 'model': model.get(c['id']), 'line': c['line']})
    cov = {'evaluations': len(cases), 'distinct_nontrivial': len(distinct),
           'rule': 'non-terminating and long programs of every loop kind (while incl. empty body, for incl. step 0, recursion through call, mutually spawning scripts, waitUntil), scheduled and unscheduled, with a time limit, a loop cap and a VM age drawn at random; run with execute(start) under the virtual clock; oracle: the limit is reported (60002), the VM is empty, the run is reported failed, the end time lies in [limit, limit + slack], or — for capped / terminating programs — the program ends cleanly with exactly cap iterations; distinct by (text, limit, cap, age)',
           'samples': samples, 'oracle_failures': n_or, 'model_mismatches': n_mm, 'kinds': kinds}
    return rep.finish(cov, ['each single operator call terminates (the property\'s proviso); wall-clock slack of a single long operator call is outside the virtual clock',
                            'sequences of API calls on one instance are covered by C18'])
