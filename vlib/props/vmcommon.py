"""Shared machinery of the VM checks (C02–C05): program generation, trace correspondence, oracles."""
import os
import re
import sys

from .. import core
from ..core import hexf

sys.path.insert(0, os.path.join(core.VERIF, 'gen'))
import sqfast  # noqa: E402
import proggen  # noqa: E402

GLOBALS = 'tr,g1,g2,gx'


def prepare(ctx, pid):
    """build harness, translators, lean build + audit for the property. Returns False when the harness
    did not build (nothing can be explored then)."""
    ok, log = ctx.build()
    if not ok:
        ctx.broken.append(('harness-build', log[-600:]))
        return False
    ok, log = ctx.translate_all()
    if not ok:
        ctx.broken.append(('translators', log[-600:]))
    mod = 'SqfModel.Props.' + pid
    ok, log = ctx.lean_build([mod, 'sqfmodel'])
    if not ok:
        ctx.broken.append(('lake-build', tail_errors(log)))
    ctx.audit([mod], 'SqfModel/Props/%s.lean' % pid, 'Sqf.Props.' + pid)
    if ctx.tier != 'quick':
        ctx.leanchecker(mod)
    return True


def tail_errors(log):
    lines = [l for l in log.split('\n') if 'error' in l]
    return '\n'.join(lines[:8]) if lines else log[-600:]


def canon(s):
    """the reference interpreter computes with integers: -0 and 0 are the same number"""
    return re.sub(r'(?<![0-9.])-0(?![0-9.])', '0', s) if s else s


def parse_obs(s):
    """res=… st=… err=… val=… tr=… g1=… (… T: trace)"""
    if s is None:
        return None
    head = s.split(' T: ')[0]
    m = re.match(r'res=(\S+) st=(\S+) err=(\S*) val=(.*?) tr=(.*?) g1=(.*?) g2=(.*?) gx=(.*)$', head)
    if not m:
        return {'raw': s}
    return {'res': m.group(1), 'st': m.group(2), 'err': m.group(3), 'val': m.group(4), 'tr': m.group(5),
            'g1': m.group(6), 'g2': m.group(7), 'gx': m.group(8), 'raw': s}


def trace_steps(s):
    """[(bases, nvals, res)] parsed from the per-step trace of the implementation"""
    if s is None or ' T: ' not in s:
        return []
    out = []
    for st in s.split(' T: ', 1)[1].split(' ; '):
        m = re.match(r'F([0-9,]*)\|V(.*)\|(\w+)$', st)
        if not m:
            continue
        bases = [int(x) for x in m.group(1).split(',') if x != '']
        out.append((bases, m.group(2), m.group(3)))
    return out


def count_vals(v):
    """number of top-level values in the rendered value stack"""
    if v == '':
        return 0
    depth = 0
    n = 1
    instr = False
    i = 0
    while i < len(v):
        c = v[i]
        if instr:
            if c == '"':
                if v[i + 1:i + 2] == '"':
                    i += 1
                else:
                    instr = False
        elif c == '"':
            instr = True
        elif c in '[{':
            depth += 1
        elif c in ']}':
            depth -= 1
        elif c == ',' and depth == 0:
            n += 1
        i += 1
    return n


def inv_monitor(steps):
    """C05 monitor on the implementation's own trace: bases monotone along the frame stack and
    bounded by the stack height. Returns the index of the first violating step or None."""
    for i, (bases, vals, res) in enumerate(steps):
        n = count_vals(vals)
        for a, b in zip(bases, bases[1:]):
            if a > b:
                return i
        if bases and bases[-1] > n:
            return i
    return None


def gen_ast_cases(ctx, n, tag, verb='trace', scoping=False, errors=False, depth=3, maxsteps=4000):
    g = sqfast.Gen(ctx.rng.fork('ast-' + tag), max_depth=depth, scoping=scoping, errors=errors)
    cases = []
    for i in range(n):
        p = g.program()
        text = sqfast.render_program(p)
        it = sqfast.Interp()
        st, val = it.run_program(p)
        cid = '%s%d' % (tag, i)
        cases.append({'id': cid, 'line': '%s %s %s %s %s' % (verb, cid, hexf(text), hexf(GLOBALS), hexf(str(maxsteps))),
                      'text': text, 'ref_status': st, 'ref_val': val, 'ref': it, 'has_val': p[2] is not None})
    return cases, g.stats


def gen_str_cases(ctx, n, tag, verb='trace', errors=False, depth=3, maxsteps=4000):
    g = proggen.ProgGen(ctx.rng.fork('str-' + tag), max_depth=depth, errors=errors)
    cases = []
    for i in range(n):
        text = g.program()
        cid = '%s%d' % (tag, i)
        cases.append({'id': cid, 'line': '%s %s %s %s %s' % (verb, cid, hexf(text), hexf(GLOBALS), hexf(str(maxsteps))),
                      'text': text, 'ref_status': None})
    return cases, g.stats


def load_corpus(pid, verb='trace'):
    """gen/corpus/<pid>/*.case: {"program": …, "expect": {"val": …, "tr": …, "res": …}}"""
    import json
    out = []
    d = os.path.join(core.VERIF, 'gen', 'corpus', pid)
    if os.path.isdir(d):
        for fn in sorted(os.listdir(d)):
            if fn.endswith('.case'):
                o = json.load(open(os.path.join(d, fn)))
                cid = 'k' + fn[:-5]
                out.append({'id': cid, 'line': '%s %s %s %s %s' % (verb, cid, hexf(o['program']), hexf(GLOBALS), hexf('4000')),
                            'text': o['program'], 'ref_status': None, 'expect': o.get('expect'), 'what': o.get('what', '')})
    return out


def ref_oracle(case, obs):
    """compare the implementation's observation with the reference interpreter. Returns None if it
    agrees (or the reference does not decide), else a description."""
    if case.get('ref_status') != 'ok' or obs is None or 'res' not in obs:
        return None
    if obs.get('res') == 'limit':
        return None              # the step budget of the trace ended first: nothing to compare yet
    it = case['ref']
    exp = {'res': 'empty', 'err': '', 'tr': sqfast.fmt_value(it.tr)}
    for g in ('g1', 'g2', 'gx'):
        exp[g] = sqfast.fmt_value(it.globals[g]) if g in it.globals else 'undef'
    if case.get('has_val'):
        exp['val'] = sqfast.fmt_value(case['ref_val'])
    if it.handled > 0:
        # errors that a handler took over were logged, but nothing was reported as an unhandled failure
        del exp['err']
        codes = [c for c in (obs.get('err') or '').split(',') if c]
        if not codes or '60001' in codes:
            return {'field': 'err', 'expected': 'the diagnostics of %d handled error(s), no stack trace of an unhandled one' % it.handled,
                    'implementation': obs.get('err')}
    for k, v in exp.items():
        if canon(obs.get(k)) != v:
            return {'field': k, 'expected': v, 'implementation': obs.get(k)}
    return None


def expect_oracle(case, obs):
    exp = case.get('expect')
    if not exp or obs is None:
        return None
    for k, v in exp.items():
        if obs.get(k) != v:
            return {'field': k, 'expected': v, 'implementation': obs.get(k, obs.get('raw'))}
    return None


def run_cases(ctx, cases, timeout_ms=8000):
    lines = [c['line'] for c in cases]
    have_model = os.path.exists(ctx.driver())
    impl, model = ctx.run_pair(lines, timeout_ms=timeout_ms, model=have_model)
    return impl, (model if have_model else None)


def histogram(cases, key=lambda c: len(c['text']) // 100 * 100):
    h = {}
    for c in cases:
        k = key(c)
        h[k] = h.get(k, 0) + 1
    return {str(k): v for k, v in sorted(h.items())}
