"""C12 — scheduler: fair round robin in bounded slices, isolation, sleep, scriptDone, terminate."""
import re
import sys
import os

from .. import core
from ..core import hexf
from . import vmcommon as vc

sys.path.insert(0, os.path.join(core.VERIF, 'gen'))
import schedgen  # noqa: E402


def parse_tr(s):
    m = re.search(r' tr=(\[.*\])$', s or '')
    if not m:
        return None
    body = m.group(1)
    return [(int(a), b) for a, b in re.findall(r'\[(\d+),([^\]]+)\]', body)]


def projection_oracle(case, got):
    """isolation / own statement order: the markers of every script, in the order they appear in the
    global trace, are a prefix of what the script appends when it runs alone (the whole of it unless the
    program terminates scripts)"""
    tr = parse_tr(got)
    if tr is None:
        return None
    per = {}
    for sid, v in tr:
        if v in ('true', 'false'):
            continue
        per.setdefault(sid, []).append(int(v))
    for sid, exp in case['expected'].items():
        seen = per.get(sid, [])
        if seen != exp[:len(seen)]:
            return {'script': sid, 'expected_prefix_of': exp[:40], 'implementation': seen[:40]}
        if not case['terminates'] and seen != exp:
            return {'script': sid, 'expected': exp[:40], 'implementation': seen[:40], 'note': 'script did not run to its end'}
    return None


def run(ctx):
    rep = core.Report(ctx)
    if not vc.prepare(ctx, 'C12'):
        return rep.finish({'evaluations': 0, 'distinct_nontrivial': 0, 'rule': 'harness did not build', 'samples': []}, [])
    quick = ctx.tier == 'quick'
    n = 3000 if quick else 20000
    g = schedgen.SchedGen(ctx.rng.fork('sched'), max_scripts=4 if quick else 5)
    cases = []
    for i in range(n):
        text = g.program()
        cid = 's%d' % i
        cases.append({'id': cid, 'line': 'start %s %s %s' % (cid, hexf(text), hexf('tr')), 'text': text,
                      'expected': dict(g.expected), 'terminates': g.terminates})
    # hand-written witnesses (fixed defects) first
    corpus = []
    cdir = os.path.join(core.VERIF, 'gen', 'corpus', 'C12')
    if os.path.isdir(cdir):
        import json
        for fn in sorted(os.listdir(cdir)):
            if fn.endswith('.case'):
                o = json.load(open(os.path.join(cdir, fn)))
                corpus.append({'id': 'k' + fn[:-5], 'line': 'start k%s %s %s' % (fn[:-5], hexf(o['program']), hexf('tr')),
                               'text': o['program'], 'expect_tr': o['expect_tr'], 'expected': {}, 'terminates': True})
    cases = corpus + cases
    impl, model = vc.run_cases(ctx, cases, timeout_ms=15000)
    n_or = n_mm = 0
    distinct = set()
    samples = []
    for c in cases:
        got = impl.get(c['id'])
        bad = None
        if 'expect_tr' in c:
            m = re.search(r' tr=(\[.*\])$', got or '')
            if not m or m.group(1) != c['expect_tr']:
                bad = {'expected_tr': c['expect_tr'], 'implementation': got}
        else:
            bad = projection_oracle(c, got)
            if bad is None and got is not None and not got.startswith('res=empty st=empty err= '):
                bad = {'expected': 'res=empty st=empty without errors', 'implementation': got[:200]}
        if len(c['expected']) >= 2:
            distinct.add(c['text'])
        if len(samples) < 4 and len(c['expected']) >= 2:
            samples.append({'program': c['text'], 'observation': (got or '')[:600]})
        if bad:
            n_or += 1
            if n_or <= 3:
                rep.violation('oracle', {'property': 'C12', 'kind': 'scheduling', 'seed': ctx.seed, 'case': c['id'], 'program': c['text'],
                                         'difference': bad, 'line': c['line']})
        elif model is not None and got != model.get(c['id']):
            n_mm += 1
            if n_mm <= 3:
                rep.violation('correspondence', {'property': 'C12', 'kind': 'model-vs-implementation (global interleaving trace, virtual time)',
                                                 'seed': ctx.seed, 'case': c['id'], 'program': c['text'], 'implementation': (got or '')[:3000],
                                                 'model': (model.get(c['id']) or '')[:3000], 'line': c['line']})
    cov = {'evaluations': len(cases), 'distinct_nontrivial': len(distinct),
           'rule': 'a main script spawns 1-5 scripts (nested spawns included) whose loops straddle the 150-instruction slice; sleep / scriptDone / waitUntil / terminate at random points; every statement appends [script id, step] to one global trace; the run uses execute(start) under a virtual clock (1 ms per clock read); the global interleaving and the end time are compared with the Lean scheduler model; each script\'s own projection of the trace is compared with its solo marker sequence; non-trivial = at least two scripts, distinct by text',
           'samples': samples, 'oracle_failures': n_or, 'model_mismatches': n_mm, 'event_counts': g.stats}
    return rep.finish(cov, ['the slice length is the constant 150 of the implementation; the theorems hold for every slice length',
                            'real threads / wall-clock time are replaced by the interposed virtual clock'])
