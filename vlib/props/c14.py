"""C14 — diagnostics name the true source file and line (and column) of the culprit."""
import os
import re
import sys

from .. import core
from ..core import hexf
from . import vmcommon as vc

sys.path.insert(0, os.path.join(core.VERIF, 'gen'))
import diaggen  # noqa: E402


def files_field(files):
    return '\x01'.join('%s\x02%s' % (k, v) for k, v in files.items())


def parse_diag(ans):
    """-> {'entries': [(level, code, line, col, path)], 'gl': str, 'st': [(line, col, path)], 'res': str} or None"""
    if ans is None:
        return None
    m = re.match(r'^(.*?) gl=(.*?) st=(.*?) res=(\S+)$', ans, re.S)
    if not m:
        return None
    entries = []
    for e in m.group(1).split(';'):
        mm = re.match(r'^(\d+):(\d+)@(\d+):(\d+):(.*)$', e)
        if mm:
            entries.append((int(mm.group(1)), int(mm.group(2)), int(mm.group(3)), int(mm.group(4)), mm.group(5)))
    st = []
    for e in m.group(3).split(','):
        mm = re.match(r'^(\d+):(\d+):(.*)$', e)
        if mm:
            st.append((int(mm.group(1)), int(mm.group(2)), mm.group(3)))
    return {'entries': entries, 'gl': m.group(2), 'st': st, 'res': m.group(4)}


def judge(exp, obs):
    """None when the observation names the true position, else a description of the difference"""
    if obs is None:
        return {'expected': 'diagnostics', 'implementation': 'no answer'}
    if exp['kind'] == 'line':
        if obs['gl'] != exp['gl']:
            return {'expected __LINE__/__FILE__': exp['gl'], 'implementation': obs['gl'] + ' res=' + obs['res']}
        return None
    if exp['kind'] == 'ppwarn':
        hits = [e for e in obs['entries'] if e[1] == exp['code']]
        want = exp['positions'][0]
        if not hits:
            return {'expected': 'the preprocessor diagnostic %d' % exp['code'], 'implementation': str(obs['entries'])[:300] + ' res=' + obs['res']}
        if hits[-1][2] != want[0] or not hits[-1][4].endswith(exp['file'].replace('/$R', '')):
            return {'expected [L|file]': [want[0], exp['file']], 'implementation': [hits[-1][2], hits[-1][3], hits[-1][4]]}
        return None
    hits = [e for e in obs['entries'] if e[1] == exp['code']]
    if not hits:
        return {'expected': 'a diagnostic %d' % exp['code'], 'implementation': str(obs['entries'])[:300] + ' res=' + obs['res']}
    want = exp['positions'][0] if 'positions' in exp else exp['trace'][0]
    got = hits[0]
    if want[1] is None:
        # a token that went through a macro expansion: file and line only
        if (got[2], got[4]) != (want[0], exp['file']):
            return {'expected [L|file]': [want[0], exp['file']], 'implementation': [got[2], got[3], got[4]]}
        return None
    if (got[2], got[3], got[4]) != (want[0], want[1], exp['file']):
        return {'expected [L|C|file]': [want[0], want[1], exp['file']], 'implementation': [got[2], got[3], got[4]]}
    if 'trace' in exp:
        got_tr = [(a, b) for a, b, p in obs['st']]
        if got_tr != exp['trace'] or any(p != exp['file'] for a, b, p in obs['st']):
            return {'expected stack trace positions': exp['trace'], 'file': exp['file'], 'implementation': obs['st']}
    elif exp['kind'] == 'runtime':
        # the stack trace of the error has one entry: the same position
        if obs['st'][:1] != [(want[0], want[1], exp['file'])]:
            return {'expected stack trace entry': [want[0], want[1], exp['file']], 'implementation': obs['st']}
    return None


def run(ctx):
    rep = core.Report(ctx)
    if not vc.prepare(ctx, 'C14'):
        return rep.finish({'evaluations': 0, 'distinct_nontrivial': 0, 'rule': 'harness did not build', 'samples': []}, [])
    quick = ctx.tier == 'quick'
    n = 3000 if quick else 20000
    g = diaggen.DiagGen(ctx.rng.fork('diag'))
    cases = []
    for i in range(n):
        kind, text, files, exp = g.case()
        cid = 'd%d' % i
        cases.append({'id': cid, 'kind': kind, 'text': text, 'files': files, 'exp': exp, 'known': None,
                      'line': 'diag %s %s %s %s %s' % (cid, hexf(text.encode('latin-1')), hexf(files_field(files).encode('latin-1')) or '-', hexf('pp'), hexf(kind))})
    for i in range(n // 4):
        kind, text, files, exp = g.raw_case()
        cid = 'r%d' % i
        cases.append({'id': cid, 'kind': 'raw:' + kind, 'text': text, 'files': files, 'exp': exp, 'known': None,
                      'line': 'diag %s %s %s %s %s' % (cid, hexf(text.encode('latin-1')), '-', hexf('raw'), hexf(kind))})
    known = core.load_known_findings('C14')
    for i in range(40 if quick else 400):
        fid, text, files, exp, dev = g.known()
        cid = 'k%d' % i
        cases.append({'id': cid, 'kind': 'known:' + fid, 'text': text, 'files': files, 'exp': exp, 'known': (fid, dev),
                      'line': 'diag %s %s %s %s' % (cid, hexf(text.encode('latin-1')), '-', hexf('pp'))})
    impl, model = vc.run_cases(ctx, cases, timeout_ms=20000)
    n_or = n_mm = 0
    samples = []
    distinct = set()
    kinds = {}
    findings = {}
    for c in cases:
        distinct.add(c['text'])
        kinds[c['kind']] = kinds.get(c['kind'], 0) + 1
        obs = parse_diag(impl.get(c['id']))
        bad = judge(c['exp'], obs)
        if bad and c['known']:
            fid, dev = c['known']
            hits = [e for e in (obs or {'entries': []})['entries'] if e[1] == c['exp']['code']]
            listed = any(k.get('id') == fid for k in known)
            if listed and hits and (hits[0][2], hits[0][3]) == dev and hits[0][4] == c['exp']['file']:
                findings[fid] = findings.get(fid, 0) + 1
                bad = None
        if bad:
            n_or += 1
            if n_or <= 3:
                rep.violation('oracle', {'property': 'C14', 'kind': c['kind'], 'seed': ctx.seed, 'case': c['id'], 'source': c['text'], 'files': c['files'],
                                         'difference': bad, 'raw': (impl.get(c['id']) or '')[:600], 'line': c['line'][:9000]})
        if model is not None and not c['known'] and not c['exp'].get('nomodel'):
            mo = model.get(c['id'])
            if mo is not None and mo != 'bad-verb':
                want = c['exp']
                # the model answers "<line>:<col>:<file>" of the fault token, or "gl=<value>"
                mexp = ('gl=' + want['gl']) if want['kind'] == 'line' else '%d:%d:%s' % ((want.get('positions') or want['trace'])[0] + (want['file'],))
                if mo != mexp:
                    n_mm += 1
                    if n_mm <= 3:
                        rep.violation('correspondence', {'property': 'C14', 'kind': 'reference-position', 'seed': ctx.seed, 'case': c['id'], 'source': c['text'],
                                                         'files': c['files'], 'difference': {'true position': mexp, 'model': mo}, 'line': c['line'][:9000]})
        if len(samples) < 3:
            samples.append({'source': c['text'][:300], 'expected': {k: v for k, v in c['exp'].items()}, 'observed': (impl.get(c['id']) or '')[:200]})
    for fid, cnt in sorted(findings.items()):
        rep.known_finding('%s (%d inputs of this form)' % (fid, cnt))
    cov = {'evaluations': len(cases), 'distinct_nontrivial': len(distinct),
           'rule': 'files written line by line so that the position of the injected fault is known by construction: 1-7 layout blocks before it (statements, blank lines, line comments, block comments over several lines, single- and multi-line #define, #undef, inactive sections holding junk, defines, comments, strings over two lines and failing includes, active sections, nested includes up to two deep, macro uses, strings and macro calls over several lines), the fault at a chosen indentation and behind 0-2 statements on its line, in the main file or in an include of it, blocks behind it; a fifth of the cases with CRLF line ends, a sixth without final newline; faults: an undefined variable (warning), a type error (error and stack trace entry), a syntax error (parse diagnostic), __LINE__/__FILE__, a type error in a function called from a code block (three stack trace entries), an undefined variable inside a macro argument behind a line break and behind the closing parenthesis of a call whose argument spans lines (line and file), a type error raised at the end of a block (while condition, count/select/findIf predicate: position of the last statement, also in the innermost stack trace entry), a preprocessor diagnostic of its own (macro defined twice: the line of the second definition), __LINE__ at the end of a line, with an attached comment and on consecutive lines; include files and directories with blanks in their names; the reported [L|C|file] must equal the true position exactly; a quarter as many texts that are parsed without preprocessing (what compile does: // and /* */ comments, also in front of the fault on its line, strings over two lines), same faults, same demand; the reference expander followed by the tokenizer model must place the fault token there too',
           'samples': samples, 'oracle_failures': n_or, 'model_mismatches': n_mm, 'cases_by_kind': kinds, 'known_findings_seen': findings, 'generator_counts': g.stats}
    return rep.finish(cov, ['columns count characters (a tab is one column), lines are 1-based, columns 0-based, as the implementation prints them',
                            'positions inside macro expansions are not checked beyond the line of the use'])
