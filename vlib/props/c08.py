"""C08 — arrays are shared references, copies are independent, never cyclic."""
import os
import re
import sys

from .. import core
from ..core import hexf, unesc
from . import vmcommon as vc

sys.path.insert(0, os.path.join(core.VERIF, 'gen'))
import heapgen  # noqa: E402


def run(ctx):
    rep = core.Report(ctx)
    if not vc.prepare(ctx, 'C08'):
        return rep.finish({'evaluations': 0, 'distinct_nontrivial': 0, 'rule': 'harness did not build', 'samples': []}, [])
    quick = ctx.tier == 'quick'
    n = 2500 if quick else 50000
    g = heapgen.HeapGen(ctx.rng.fork('heap'))
    cases = vc.load_corpus('C08', verb='run')
    for i in range(n):
        text, snaps = g.history()
        cid = 'h%d' % i
        cases.append({'id': cid, 'text': text, 'snaps': snaps,
                      'line': 'run %s %s %s %s' % (cid, hexf(text), hexf('tr'), hexf('20000'))})
    cg = heapgen.CycleGen(ctx.rng.fork('cycle'))
    for i in range(n // 2):
        text, snaps, final = cg.history()
        cid = 'y%d' % i
        cases.append({'id': cid, 'text': text, 'counts': snaps, 'final': final,
                      'line': 'run %s %s %s %s' % (cid, hexf(text), hexf('tr,g1,g2,gx,ga'), hexf('20000'))})
    impl, model = vc.run_cases(ctx, cases, timeout_ms=8000)
    n_or = n_mm = 0
    distinct = set()
    samples = []
    for c in cases:
        got = impl.get(c['id'])
        distinct.add(c['text'])
        bad = None
        if 'snaps' in c:
            m = re.match(r'res=(\S+) st=(\S+) err=(\S*) val=(.*?) tr=(.*)$', got or '')
            if not m or m.group(1) != 'empty':
                bad = {'expected': 'the history runs to completion (refused insertions only log a diagnostic)', 'implementation': (got or '')[:300]}
            else:
                exp = '[' + ','.join('"' + s.replace('"', '""') + '"' for s in c['snaps']) + ']'
                if unesc(m.group(5)).decode('latin-1') != exp:
                    bad = {'expected_snapshots': exp[:1500], 'implementation': m.group(5)[:1500]}
        elif 'counts' in c:
            m = re.match(r'res=(\S+) st=(\S+) err=(\S*) val=(.*?) tr=(.*?) g1=(.*?) g2=(.*?) gx=(.*?) ga=(.*)$', got or '')
            if not m or m.group(1) != 'empty':
                bad = {'expected': 'the history runs to completion (refused insertions only log a diagnostic)', 'implementation': (got or '')[:300]}
            else:
                exp = '[' + ','.join('[' + ','.join(str(x) for x in s) + ']' for s in c['counts']) + ']'
                obs = {'tr': m.group(5), 'g1': m.group(6), 'g2': m.group(7), 'gx': m.group(8), 'ga': m.group(9)}
                want = dict(c['final'], tr=exp)
                for k in ('tr', 'g1', 'g2', 'gx', 'ga'):
                    if unesc(obs[k]).decode('latin-1') != want[k]:
                        bad = {'field': k, 'expected': want[k][:1500], 'implementation': obs[k][:1500]}
                        break
        else:
            bad = vc.expect_oracle(c, vc.parse_obs(got) or {'raw': got})
        if len(samples) < 4:
            samples.append({'history': c['text'][:600], 'observation': (got or '')[:400]})
        if bad:
            n_or += 1
            if n_or <= 3:
                rep.violation('oracle', {'property': 'C08', 'kind': 'heap-history', 'seed': ctx.seed, 'case': c['id'], 'history': c['text'],
                                         'difference': bad, 'line': c['line']})
        elif model is not None and got != model.get(c['id']):
            n_mm += 1
            if n_mm <= 3:
                rep.violation('correspondence', {'property': 'C08', 'kind': 'model-vs-implementation', 'seed': ctx.seed, 'case': c['id'],
                                                 'history': c['text'], 'implementation': (got or '')[:2000], 'model': (model.get(c['id']) or '')[:2000],
                                                 'line': c['line']})
    cov = {'evaluations': len(cases), 'distinct_nontrivial': len(distinct),
           'rule': 'operation histories over four array variables: aliasing (b = a, arrays stored inside arrays), fresh-copy operators (+a, a + b, a - b, select-range, apply, select-filter), in-place operators (set with growth, pushBack, pushBackUnique, append, deleteAt, resize, reverse) and self-insertion attempts through every inserting operator directly and through intermediate arrays; after every operation str of all variables is recorded; plus histories over two arrays and two hash maps that try to close a cycle through either container kind (array in map, map in array, map in map, map as part of its own key), recording all counts after every operation and the final contents; oracle: a Python simulation with object identity (lists are references); the Lean heap model must give the same snapshots; distinct by text',
           'samples': samples, 'oracle_failures': n_or, 'model_mismatches': n_mm, 'operation_counts': g.stats, 'cycle_history_operation_counts': cg.stats}
    return rep.finish(cov, ['sort and deleteRange are exercised by C09 (argument guards), not by the heap histories',
                            'str of a hash map is not modelled (bucket order); the cycle histories observe counts and the sorted final rendering instead'])
