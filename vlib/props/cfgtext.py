"""Config text front end (tokenizer + grammar) against SqfModel/CfgText.lean: shared by C10 (totality) and C15
(a config text denotes the tree that is loaded)."""
import os
import re
import sys

from .. import core
from ..core import hexf

sys.path.insert(0, os.path.join(core.VERIF, 'gen'))
import cfgtextgen  # noqa: E402

TOK = re.compile(r'^(\d+)@(\d+):(\d+):(\d+)\+(\d+)$')


def lex_sane(obs, text_len):
    """totality of the tokenizer, read off its own observation: the stream ends in eof (0) or invalid (1), every other
    token is non-empty, offsets are contiguous from 0 and the stream ends at the end of the text unless it is invalid"""
    if obs is None:
        return 'no observation'
    toks = obs.split(' ')
    if toks and toks[-1] == 'runaway':
        return 'token stream does not end'
    off = 0
    for i, t in enumerate(toks):
        m = TOK.match(t)
        if not m:
            return 'malformed observation %r' % t[:40]
        kind, o, ln = int(m.group(1)), int(m.group(4)), int(m.group(5))
        if o != off:
            return 'token %d starts at %d, the previous one ended at %d' % (i, o, off)
        last = i == len(toks) - 1
        if kind in (0, 1):
            if not last:
                return 'tokens behind eof/invalid'
            if kind == 0 and o != text_len:
                return 'eof at offset %d of %d' % (o, text_len)
        else:
            if last:
                return 'stream does not end in eof/invalid'
            if ln == 0:
                return 'empty token of kind %d' % kind
        off += ln
    if off > text_len:
        return 'tokens reach behind the end of the text'
    return None


def explore(ctx, rep, pid, n, extra_texts=()):
    """returns coverage fragment"""
    g = cfgtextgen.CfgTextGen(ctx.rng.fork('cfgtext'))
    cases = []
    for i, t in enumerate(extra_texts):
        cases.append({'text': t, 'expected': None, 'kind': 'corpus', 'id': 'x%d' % i})
    for i in range(n):
        c = g.case()
        c['id'] = 't%d' % i
        cases.append(c)
    lines = []
    lr_lines = []
    for c in cases:
        h = hexf(c['text'])
        lines.append('cfgast a%s %s' % (c['id'], h))
        lines.append('cfglex l%s %s' % (c['id'], h))
        lr_lines.append('cfgastlr a%s %s' % (c['id'], h))
    impl, model = ctx.run_pair(lines, timeout_ms=10000)
    # the same texts through the LALR tables and actions translated from the config parser.tab.cc (model side only)
    import subprocess
    lr = {}
    if os.path.exists(ctx.driver()):
        p = subprocess.run([ctx.driver()], input=('\n'.join(lr_lines) + '\n').encode(), stdout=subprocess.PIPE, stderr=subprocess.DEVNULL)
        for ln in p.stdout.decode('latin-1').split('\n'):
            if ln:
                k, _, v = ln.partition(' ')
                lr[k] = v
    n_mm = n_or = n_tot = n_tab = 0
    accepted = 0
    for c in cases:
        ia, il = impl.get('a' + c['id']), impl.get('l' + c['id'])
        ma, ml = model.get('a' + c['id']), model.get('l' + c['id'])
        if ia is not None and ia.startswith('ok'):
            accepted += 1
        # totality (C10): a result, not a crash / hang / escaping exception
        why = None
        if ia is None or not (ia == 'fail' or ia.startswith('ok')):
            why = 'parser: %r' % (ia or '')[:80]
        else:
            why = lex_sane(il, len(c['text'].encode('latin-1')))
        if why:
            n_tot += 1
            if n_tot <= 3:
                rep.violation('oracle', {'property': pid, 'kind': 'config-front-end-not-total', 'seed': ctx.seed, 'text': c['text'],
                                         'why': why, 'tokens': (il or '')[:1000], 'parse': (ia or '')[:300],
                                         'line': 'cfgast x %s' % hexf(c['text'])})
            continue
        # the tree a well-formed text denotes (C15): known by construction of the text
        if c['expected'] is not None and ia != c['expected']:
            n_or += 1
            if n_or <= 3:
                rep.violation('oracle', {'property': pid, 'kind': 'config-text-denotes-another-tree', 'seed': ctx.seed, 'text': c['text'],
                                         'expected': c['expected'], 'implementation': ia[:2000], 'line': 'cfgast x %s' % hexf(c['text'])})
            continue
        if lr and lr.get('a' + c['id']) != ma:
            n_tab += 1
            if n_tab <= 3:
                rep.violation('correspondence', {'property': pid, 'kind': 'translated-LALR-tables-vs-hand-written-config-parser-model', 'seed': ctx.seed,
                                                 'text': c['text'], 'tables': (lr.get('a' + c['id']) or '')[:2000], 'model': (ma or '')[:2000],
                                                 'implementation': (ia or '')[:2000], 'line': 'cfgast x %s' % hexf(c['text'])})
            continue
        if ia != ma or il != ml:
            n_mm += 1
            if n_mm <= 3:
                rep.violation('correspondence', {'property': pid, 'kind': 'config-text-model-vs-implementation', 'seed': ctx.seed,
                                                 'text': c['text'], 'implementation': {'ast': ia[:2000], 'tokens': (il or '')[:2000]},
                                                 'model': {'ast': (ma or '')[:2000], 'tokens': (ml or '')[:2000]},
                                                 'line': 'cfgast x %s' % hexf(c['text'])})
    return {'config_texts': len(cases), 'config_texts_accepted': accepted, 'config_text_kinds': dict(g.stats),
            'config_text_model_mismatches': n_mm, 'config_text_table_driver_mismatches': n_tab, 'config_text_oracle_failures': n_or, 'config_text_not_total': n_tot,
            'config_text_rule': 'token stream (kind, line, column, offset, length) and parse tree of the config tokenizer and Bison grammar of the current tree against SqfModel/CfgText.lean on fragment soups, laid-out well-formed texts (tree known by construction), one-edit mutants of those and nesting around the 2000-brace limit'}
