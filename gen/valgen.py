"""Generator of SQF literal values for the str / compile round trip (C06): booleans, strings over all
bytes except NUL, numbers with at most 6 significant digits in every literal spelling, nested arrays,
code blocks (expression trees of exprgen over the live registry)."""
import struct

import exprgen


def f32(x):
    return struct.unpack('f', struct.pack('f', x))[0]


def fmt_g(x):
    """what snprintf("%g") prints for the single-precision value of x"""
    v = f32(x)
    if v == 0:
        return '-0' if str(v).startswith('-') else '0'
    return '%g' % v


def fmt_render(x):
    """harness rendering: integers in full, everything else %g"""
    v = f32(x)
    if v == 0:
        return '-0' if str(v).startswith('-') else '0'
    if abs(v) < 16777216 and v == int(v):
        return str(int(v))
    return '%g' % v


class ValGen:
    def __init__(self, rng, pools):
        self.r = rng
        self.pools = pools
        self.stats = {'num': 0, 'str': 0, 'bool': 0, 'arr': 0, 'code': 0, 'spell': {}}

    def number(self):
        """(literal text, exact value as python float)"""
        r = self.r
        self.stats['num'] += 1
        digits = 1 + r.below(6)
        mant = r.below(10 ** digits - 1) + 1
        if r.chance(1, 8):
            mant = 0
        exp = r.choice([0, 0, 0, -1, -2, -3, -5, -8, 1, 2, 4, 7, 10, 20, -20]) if r.chance(1, 2) else -r.below(digits + 1)
        spell = r.weighted([('plain', 5), ('exp', 3), ('ldot', 1), ('hex', 1), ('neg', 2)])
        neg = False
        if spell == 'neg':
            neg = True
            spell = r.choice(['plain', 'exp'])
        if spell == 'hex' or (spell == 'plain' and exp > 6):
            if spell == 'hex':
                exp = 0
                mant = mant % 65536
        value = mant * (10.0 ** exp)
        # keep inside single precision
        if value != 0 and not (1e-30 < abs(value) < 1e30):
            exp = 0
            value = float(mant)
        if spell == 'hex':
            text = r.choice(['0x', '$']) + ''.join(c.upper() if r.chance(1, 2) else c for c in '%x' % mant)
        elif spell == 'exp' or exp > 6 or exp < -8:
            text = '%d%s%s%d' % (mant, r.choice(['e', 'E']), '-' if exp < 0 else r.choice(['', '+']), abs(exp))
            spell = 'exp'
        else:
            s = str(mant)
            if exp >= 0:
                text = s + '0' * exp
            else:
                k = -exp
                if len(s) <= k:
                    text = ('' if (spell == 'ldot') else '0') + '.' + '0' * (k - len(s)) + s
                else:
                    text = s[:-k] + '.' + s[-k:]
            if spell == 'ldot' and not text.startswith('.'):
                spell = 'plain'
        self.stats['spell'][spell] = self.stats['spell'].get(spell, 0) + 1
        if neg:
            return '-' + text, -value
        return text, value

    def string(self):
        r = self.r
        self.stats['str'] += 1
        n = r.below(12)
        out = bytearray()
        for _ in range(n):
            k = r.weighted([('any', 6), ('quote', 3), ('squote', 1), ('nl', 1), ('bs', 1), ('brace', 1)])
            if k == 'any':
                out.append(1 + r.below(255))
            elif k == 'quote':
                out += b'"'
            elif k == 'squote':
                out += b"'"
            elif k == 'nl':
                out += r.choice([b'\n', b'\r\n', b'\t'])
            elif k == 'bs':
                out += b'\\'
            else:
                out += r.choice([b'{', b'}', b'%1', b'//', b'/*'])
        return bytes(out)

    def value(self, depth=0):
        """returns (literal source bytes, expected `str` bytes or None for code, expected render bytes or None)"""
        r = self.r
        k = r.weighted([('num', 5), ('str', 4), ('bool', 1), ('arr', 3 if depth < 3 else 0), ('code', 3 if depth < 2 else 0)])
        if k == 'num':
            text, v = self.number()
            return text.encode(), fmt_g(v).encode(), fmt_render(v).encode()
        if k == 'str':
            s = self.string()
            q = r.choice([b'"', b'"', b"'"])
            lit = q + s.replace(q, q + q) + q
            shown = b'"' + s.replace(b'"', b'""') + b'"'
            return lit, shown, shown
        if k == 'bool':
            self.stats['bool'] += 1
            b = r.chance(1, 2)
            t = b'true' if b else b'false'
            return (t.upper() if r.chance(1, 4) else t), t, t
        if k == 'arr':
            self.stats['arr'] += 1
            items = [self.value(depth + 1) for _ in range(r.below(4))]
            lit = b'[' + b', '.join(i[0] for i in items) + b']'
            if any(i[1] is None for i in items):
                return lit, None, None
            return lit, b'[' + b','.join(i[1] for i in items) + b']', b'[' + b','.join(i[2] for i in items) + b']'
        self.stats['code'] += 1
        g = exprgen.ExprGen(r, self.pools, max_depth=3)
        stmts = [g.statement(0) for _ in range(r.below(3))]
        body = g.render_program(stmts) if stmts else b''
        return b'{' + body + b'}', None, None
