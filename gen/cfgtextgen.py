"""Generator for the config text front end (verbs cfglex / cfgast): the config tokenizer and grammar of the
implementation against SqfModel/CfgText.lean.

Four streams, all from one PRNG:
  soup      a random sequence of lexical fragments (keywords, names, numbers in every edge form, strings with doubled
            quotes / newlines / no end, punctuation, ANY characters, comments, #line, bytes without a case)
  layout    a well-formed config text printed from a random tree with random white space, comments and `;` runs
            between the tokens; the expected tree is known by construction
  mutant    a layout text with one fragment deleted, inserted, replaced or duplicated
  deep      braces nested around the limit of the nesting pre-scan
"""

NAMES = ['a', 'B', 'cfg', 'class_', 'classy', 'deleted', 'delete_1', 'x1', '_p', 'Class', 'e', 'E5', 'x', 'A_b_9', '1abc', '0x', '9z']
NUMS = ['0', '1', '42', '-7', '+5', '1.5', '.5', '1.', '-.5', '1e5', '1E+5', '1e-3', '1e', '1e+', '1.e3', '1.5e', '00', '0x1F', '0xg', '$ff', '$', '$G',
        '0X10', '12ab', '3.', '+.', '-.', '-', '+', '1..2', '1e5x', '7_', '999999999999999999999', '1e99999']
STRS = ['""', '"a"', '"a b"', '"x""y"', '""""', "''", "'q'", "'q''r'", '"a\nb"', '"tab\t"', '"', "'", '"open', "'open\n", '"a""', '"{;}"', '"// no"', '"/* no */"']
PUNCT = ['{', '}', '[', ']', ':', ';', ',', '=', '+=', '+=a', '+ =', '[]', '{}', '};']
ANY = ['*', '(', ')', '%', '&', '!', '|', '>', '<', '?', '^', '\\', '/', '-', '+', '.', '/x']
BAD = ['@', '~', '`', '\x80', '\x00', '\x7f', '\x0b', '\x0c']
TRIVIA = [' ', '  ', '\n', '\r\n', '\t', '// c\n', '//\n', '// at end', '/* b */', '/* a\nb */', '/**/', '/* open', '/*/', '#line 7 "f.cpp"\n', '#line 3\n', '#line x\n', '#line',
          '#line 12 "a b"\n', '#lineX', '#line 999999999999999999 "x"\n', '#line 9999999999999999999 "x"\n', '#line 99999999999999999999 "x.cpp"\n',
          '#line 18446744073709551616\n', '#line 999999999999999999999 "x"\n', '#line 00000000000000000001 "x"\n', '#line 1 "', '#line 1 "x']
KEYW = ['class', 'delete', 'CLASS', 'Delete', 'classA', 'class1', 'delete_', 'class{', 'clas', 'delet']


class CfgTextGen:
    def __init__(self, rng):
        self.rng = rng
        self.stats = {'soup': 0, 'layout': 0, 'mutant': 0, 'deep': 0}

    # ---- soup ------------------------------------------------------------------------------------------
    def fragment(self):
        r = self.rng
        pool = r.weighted([(NAMES, 4), (NUMS, 5), (STRS, 3), (PUNCT, 6), (ANY, 2), (BAD, 1), (TRIVIA, 4), (KEYW, 3)])
        return r.choice(pool)

    def soup(self):
        self.stats['soup'] += 1
        n = 1 + self.rng.below(14)
        glue = self.rng.choice(['', ' ', ' ', ''])
        return glue.join(self.fragment() for _ in range(n))

    # ---- layout: tree -> text ---------------------------------------------------------------------------
    def gap(self, required=False):
        r = self.rng
        if r.chance(5, 8):
            return ' '
        if r.chance(1, 3) and not required:
            return ''
        return r.choice([' ', '\n', '\t ', ' // c\n', '\r\n  ', '  ', ' //\n'])

    def name(self):
        return self.rng.choice(['a', 'B', 'cfg', 'classy', 'deleted', 'x1', '_p', 'Classes', 'e', 'E5', 'A_b_9', 'units', 'scope'])

    def scalar(self):
        r = self.rng
        k = r.below(5)
        if k == 0:
            t = r.choice(['0', '1', '42', '-7', '+5', '1.5', '.5', '-.5', '1e5', '1E+5', '1e-3', '00', '2.50'])
            return ('n', t)
        if k == 1:
            return ('h', r.choice(['0x1F', '$ff', '0x0', '$A0']))
        if k == 2:
            return ('s', r.choice(['""', '"a"', '"a b"', '"x""y"', "'q'", "'q''r'", '"{;}"', '"a,b"']))
        if k == 3:
            return ('t', r.choice(['abc', 'x1', '_p', 'true', 'West']))
        # bare text of several tokens: the source text from the first to the last token
        return ('t', r.choice(['a b', 'abc + 1', 'x : y', '1 2', 'a = b', '( 1 )', 'a  b', 'class x']))

    def array(self, depth):
        r = self.rng
        n = r.below(4)
        out = []
        for _ in range(n):
            if depth < 3 and r.chance(1, 4):
                out.append(self.array(depth + 1))
            else:
                s = self.scalar()
                # inside an array a bare text must not contain `=`-free restrictions: anyp excludes { } , only
                out.append(s)
        return ('arr', out)

    def node(self, depth, top):
        r = self.rng
        k = r.below(8 if not top else 4)
        if k == 0:
            return ('C', self.name())
        if k == 1:
            return ('X', self.name(), self.name())
        if k == 2 or (top and k == 3 and r.chance(1, 2)):
            body = [self.node(depth + 1, False) for _ in range(r.below(4))] if depth < 3 else []
            if r.chance(1, 2):
                return ('K', self.name(), body)
            return ('E', self.name(), self.name(), body)
        if k == 3:
            return ('D', self.name())
        if k in (4, 5):
            return ('F', self.name(), self.scalar())
        if k == 6:
            return ('A', self.name(), self.array(0))
        return ('P', self.name(), self.array(0))

    def lit_text(self, l):
        if l[0] == 'arr':
            g = self.gap
            inner = (g() + ',' + g()).join(self.lit_text(x) for x in l[1])
            return '{' + g() + inner + (g() if l[1] else '') + '}'
        return l[1]

    def lit_ser(self, l):
        if l[0] == 'arr':
            return '[' + ','.join(self.lit_ser(x) for x in l[1]) + ']'
        t = l[1]
        kind = l[0]
        return kind + ':' + (t.encode('latin-1').hex() or '-')

    def seps(self):
        r = self.rng
        return ';' + ''.join(self.gap() + ';' for _ in range(r.weighted([(0, 6), (1, 2), (2, 1)])))

    def node_text(self, n):
        g = self.gap
        k = n[0]
        if k == 'C':
            return 'class' + g(True) + n[1]
        if k == 'X':
            return 'class' + g(True) + n[1] + g() + ':' + g() + n[2]
        if k == 'D':
            return 'delete' + g(True) + n[1]
        if k in ('K', 'E'):
            head = 'class' + g(True) + n[1] + ((g() + ':' + g() + n[2]) if k == 'E' else '')
            body = n[-1]
            inner = ''
            for i, s in enumerate(body):
                inner += g() + self.node_text(s) + g()
                # the last statement of a body may stand without `;` unless it is a plain field (whose value would
                # swallow the brace)
                if i + 1 < len(body) or s[0] == 'F' or self.rng.chance(3, 4):
                    inner += self.seps()
            return head + g() + '{' + inner + g() + '}'
        if k == 'F':
            return n[1] + g() + '=' + g() + n[2][1]
        if k == 'A':
            return n[1] + g() + '[' + g() + ']' + g() + '=' + g() + self.lit_text(n[2])
        return n[1] + g() + '[' + g() + ']' + g() + '+=' + g() + self.lit_text(n[2])

    def node_ser(self, n):
        hx = lambda s: s.encode('latin-1').hex() or '-'
        k = n[0]
        if k == 'C':
            return 'C(%s)' % hx(n[1])
        if k == 'X':
            return 'X(%s:%s)' % (hx(n[1]), hx(n[2]))
        if k == 'D':
            return 'D(%s)' % hx(n[1])
        if k == 'K':
            return 'K(%s){%s}' % (hx(n[1]), ' '.join(self.node_ser(s) for s in n[2]))
        if k == 'E':
            return 'E(%s:%s){%s}' % (hx(n[1]), hx(n[2]), ' '.join(self.node_ser(s) for s in n[3]))
        return '%s(%s=%s)' % (k, hx(n[1]), self.lit_ser(n[2]))

    def layout(self):
        """(text, expected observation of cfgast)"""
        self.stats['layout'] += 1
        r = self.rng
        nodes = [self.node(0, True) for _ in range(r.below(4))]
        text = self.gap() if r.chance(1, 2) else ''
        if r.chance(1, 5):
            text += self.seps() + self.gap()
        for i, n in enumerate(nodes):
            text += self.node_text(n) + self.gap()
            if i + 1 < len(nodes) or r.chance(3, 4):
                text += self.seps() + self.gap()
        ser = 'ok' + ''.join(' ' + self.node_ser(n) for n in nodes)
        return text, ser

    def mutant(self):
        self.stats['mutant'] += 1
        r = self.rng
        self.stats['layout'] -= 1
        text, _ = self.layout()
        if not text:
            return self.fragment()
        k = r.below(4)
        i = r.below(len(text) + 1)
        j = min(len(text), i + 1 + r.below(3))
        if k == 0:
            return text[:i] + text[j:]
        if k == 1:
            return text[:i] + self.fragment() + text[i:]
        if k == 2:
            return text[:i] + self.fragment() + text[j:]
        return text[:j] + text[i:]

    def deep(self):
        self.stats['deep'] += 1
        r = self.rng
        d = r.choice([1, 5, 60, 1999, 2000, 2001, 2005])
        kind = r.below(3)
        if kind == 0:
            # classes nested d deep
            return ''.join('class a{' for _ in range(d)) + ''.join('};' for _ in range(d))
        if kind == 1:
            # arrays nested d deep inside one class (one brace is the class body)
            return 'class a{x[]=' + '{' * d + '}' * d + ';};'
        # braces inside a bare value count as well, closing braces below zero do not
        return 'class a{x=' + '}' * r.below(3) + '{' * d + ';};'

    def case(self):
        k = self.rng.weighted([('soup', 4), ('layout', 5), ('mutant', 5), ('deep', 1)])
        if k == 'soup':
            return {'text': self.soup(), 'expected': None, 'kind': k}
        if k == 'layout':
            t, s = self.layout()
            return {'text': t, 'expected': s, 'kind': k}
        if k == 'mutant':
            return {'text': self.mutant(), 'expected': None, 'kind': k}
        return {'text': self.deep(), 'expected': None, 'kind': k}
