"""Generator for C14: source layouts with a fault injected at a known file, line and column.

The generator writes every file line by line, so the true position of the injected fault is known by
construction — no preprocessor, tokenizer or model is consulted for the expectation.
"""

ROOT = '/$R/'


class File:
    def __init__(self, name):
        self.name = name
        self.lines = []          # without line ends

    def add(self, text):
        """append text that may hold newlines; returns the 1-based number of its first line"""
        first = len(self.lines) + 1
        self.lines += text.split('\n')
        return first

    def render(self, crlf, final_newline=True):
        sep = '\r\n' if crlf else '\n'
        return sep.join(self.lines) + (sep if final_newline else '')


class DiagGen:
    def __init__(self, rng):
        self.r = rng
        self.stats = {}
        self.n = 0

    def note(self, k):
        self.stats[k] = self.stats.get(k, 0) + 1

    def uid(self):
        self.n += 1
        return self.n

    # -- layout blocks that must not disturb the line count of what follows ------------------------------
    def block(self, f, depth, files, allow_include=True):
        r = self.r
        k = r.weighted([('plain', 5), ('blank', 2), ('linecomment', 3), ('blockcomment', 3), ('define', 3), ('mldefine', 4), ('inactive', 3), ('active', 2),
                        ('include', 2 if allow_include and depth < 2 else 0), ('use', 2), ('mlstring', 1), ('mlcall', 1), ('undef', 1), ('trailingcomment', 2),
                        ('mldefine_inactive', 1), ('mlstring_inactive', 1)])
        self.note('block:' + k)
        u = self.uid()
        if k == 'plain':
            f.add(r.choice(['a%d = %d;' % (u, u), 'private _v%d = [1, 2, 3];' % u, 'b%d = "text %d";' % (u, u), '  c%d = {1 + 2};' % u, 'if (true) then { d%d = 1 };' % u]))
        elif k == 'blank':
            f.add(r.choice(['', '   ', '\t', '\n']))
        elif k == 'linecomment':
            f.add(r.choice(['// comment %d' % u, '   // indented "quote', '// with #define X and /* in it', 'e%d = 1; // trailing' % u]))
        elif k == 'blockcomment':
            f.add(r.choice(['/* one line %d */' % u, '/* two\nlines %d */' % u, '/*\n * three\n */', '/* a "quote\n // and a line comment\n #define NOT 1\n*/', 'g%d = 1; /* opens\ncloses */' % u]))
        elif k == 'trailingcomment':
            f.add('h%d = %d; /* behind the statement */' % (u, u))
        elif k == 'define':
            f.add(r.choice(['#define M%d %d' % (u, u), '#define F%d(a,b) (a + b)' % u, '#define E%d' % u, '#define Q%d(x) #x' % u]))
        elif k == 'mldefine':
            n = 1 + r.below(4)
            f.add('#define ML%d(a,b) a \\\n' % u + ''.join('  + %d \\\n' % i for i in range(n - 1)) + '  + b')
        elif k == 'undef':
            f.add('#define U%d 1\n#undef U%d' % (u, u))
        elif k == 'inactive':
            inner = File('tmp')
            for _ in range(1 + r.below(3)):
                inner.add(r.choice(['junk %d;' % u, '#define IN%d 1' % u, '"a string"', 'x = M(1,2);', '// c', '/* a\nb */', '#include "nothere.hpp"', '#undef WHATEVER']))
            f.add('#ifdef NEVER_DEFINED_%d\n%s\n%s#endif' % (u, '\n'.join(inner.lines), r.choice(['', '#else\nk%d = 1;\n' % u])))
        elif k == 'mldefine_inactive':
            f.add('#ifdef NEVER_DEFINED_%d\n#define IML%d(a) a \\\n + 1 \\\n + 2\n#endif' % (u, u))
        elif k == 'mlstring_inactive':
            f.add('#ifdef NEVER_DEFINED_%d\ns = "two\nlines";\n#endif' % u)
        elif k == 'active':
            f.add('#ifndef NEVER_DEFINED_%d\nl%d = 1;\n#else\nhidden;\n#endif' % (u, u))
        elif k == 'include':
            name = r.choice(['inc%d.hpp', 'inc%d.hpp', 'my inc %d.hpp', 'sub dir/inc%d.hpp']) % u
            inc = File(name)
            for _ in range(1 + r.below(4)):
                self.block(inc, depth + 1, files, allow_include=True)
            files[name] = inc
            # a bare name is taken relative to the including file: only for files that lie in the root directory themselves
            f.add('#include "%s"' % (r.choice([name, '\\' + name, '/' + name]) if '/' not in f.name else r.choice(['\\' + name, '/' + name])))
        elif k == 'use':
            f.add('#define US%d(a) [a, a]\nm%d = US%d(%d);' % (u, u, u, u))
        elif k == 'mlstring':
            f.add('s%d = "two\nlines";' % u)
        elif k == 'mlcall':
            f.add('#define MC%d(a,b) [a, b]\nn%d = MC%d(1,\n  2\n);' % (u, u, u))

    def case(self):
        """-> (kind, main text, files{name: text}, expectation)"""
        r = self.r
        files = {}
        main = File('main.sqf')
        crlf = r.chance(1, 5)
        # where the fault goes: the main file, or an include of it
        target = main
        before = 1 + r.below(7)
        for _ in range(before):
            self.block(main, 0, files)
        in_include = r.chance(1, 4)
        holder_line = None
        if in_include:
            name = r.choice(['fault%d.hpp', 'fault%d.hpp', 'the fault %d.hpp', 'my lib/fault%d.hpp']) % self.uid()
            target = File(name)
            files[name] = target
            for _ in range(r.below(4)):
                self.block(target, 1, files)
        kind = r.weighted([('undefined', 5), ('runtime', 4), ('parse', 3), ('line', 4), ('trace', 3), ('mlarg', 3), ('twice', 2), ('exitbeh', 3), ('ppwarn', 2)])
        indent = r.choice(['', ' ', '  ', '\t', '    ', '\t\t '])
        lead = r.choice(['', '', 'p = 1; ', 'q = [1,2]; r = 3; ', 'MLS', 't = "a""b"; ', "t = 'it''s'; ", 't = """" + "x"""; '])
        u = self.uid()
        line_no = len(target.lines) + 1
        if lead == 'MLS' and kind in ('trace', 'mlarg', 'twice', 'exitbeh', 'ppwarn'):
            lead = ''
        if kind in ('exitbeh', 'ppwarn'):
            lead = ''
        if lead == 'MLS':
            # a string that runs over a line end in front of the fault: the fault stands on the line the string ends on
            first = indent + r.choice(['t = "x', 'p = 1; t = "', 't = "a b c'])
            lead = r.choice(['yz"; ', '"; ', '  end" ; u = 2; '])
            target.add(first)
            line_no += 1
            indent = ''
            self.note('lead:multi-line string')
        exp = {'file': ROOT + target.name, 'kind': kind}
        if kind == 'undefined':
            stmt = 'z = FAULT_%d;' % u
            exp['positions'] = [(line_no, len(indent) + len(lead) + 4)]
            exp['code'] = 60070
        elif kind == 'runtime':
            stmt = 'z = 1 + "a";'
            exp['positions'] = [(line_no, len(indent) + len(lead) + 6)]
            exp['code'] = 60076
        elif kind == 'parse':
            stmt = 'z = 1 + ;'
            exp['positions'] = [(line_no, len(indent) + len(lead) + 8)]
            exp['code'] = 30015
        elif kind == 'line':
            # __LINE__ in the middle of a line, as the last thing on its line, and with a comment attached to it
            form = r.below(4)
            self.note('line-form:%d' % form)
            if form == 0:
                stmt = 'gl = [__LINE__, __FILE__];'
                exp['gl'] = '[%d,"%s"]' % (line_no, ROOT + target.name)
            elif form == 1:
                stmt = 'gl = [__FILE__, __LINE__\n];'
                exp['gl'] = '["%s",%d]' % (ROOT + target.name, line_no)
            elif form == 2:
                stmt = 'gl = [__LINE__// c\n, __FILE__];'
                exp['gl'] = '[%d,"%s"]' % (line_no, ROOT + target.name)
            else:
                stmt = 'gl = [__LINE__\n, __LINE__\n];'
                exp['gl'] = '[%d,%d]' % (line_no, line_no + 1)
        elif kind == 'twice':
            # a macro that uses its parameter twice, called with an argument that holds a line break; the fault stands
            # behind the closing parenthesis on the line the call ends on (line and file demanded)
            target.add('#define TWICE%d(x) x; x' % u)
            line_no += 1
            form = r.below(3)
            self.note('twice-form:%d' % form)
            if form == 0:
                stmt, dl = 'TWICE%d(private _t%d =\n  1); z = FAULT_%d;' % (u, u, u), 1
            elif form == 1:
                stmt, dl = 'TWICE%d(_t%d = [1,\n 2,\n 3]); z = FAULT_%d;' % (u, u, u), 2
            else:
                stmt, dl = 'TWICE%d(_t%d =\n 1);\nz = FAULT_%d;' % (u, u, u), 2
            exp['kind'] = 'undefined'
            exp['positions'] = [(line_no + dl, None)]
            exp['code'] = 60070
            exp['nomodel'] = True
            self.note('fault:twice')
            kind = 'undefined'
        elif kind == 'exitbeh':
            # a type error that is not raised by an instruction but by the construct when a block has run to its end
            # (a condition or predicate that yields no boolean): the culprit is the last statement of that block; the
            # error and the innermost stack trace entry name it
            form = r.below(4)
            self.note('exitbeh-form:%d' % form)
            i2 = indent + '   '
            if form == 0:
                stmt = '_e%d = 0;\n%swhile {\n%s_e%d = _e%d + 1;\n%s_e%d\n%s} do { };' % (u, indent, i2, u, u, i2, u, indent)
                pos = (line_no + 3, len(i2))
            elif form == 1:
                stmt = '{\n%sprivate _y = _x + 1;\n%s"s"\n%s} count [1, 2, 3];' % (i2, i2, indent)
                pos = (line_no + 2, len(i2))
            elif form == 2:
                stmt = '[1, 2, 3] select {\n%s_x;\n%s5\n%s};' % (i2, i2, indent)
                pos = (line_no + 2, len(i2))
            else:
                stmt = '[1, 2] findIf {\n%sprivate _y = _x;\n%s[_y]\n%s};' % (i2, i2, indent)
                pos = (line_no + 2, len(i2))
            exp['kind'] = 'runtime'
            exp['positions'] = [pos]
            exp['code'] = 60068
            exp['nomodel'] = True
            self.note('fault:exitbeh')
            kind = 'runtime'
        elif kind == 'ppwarn':
            # a diagnostic of the preprocessor itself: a macro defined a second time; it names the line of the second
            # definition (single- and multi-line)
            form = r.below(3)
            self.note('ppwarn-form:%d' % form)
            target.add('#define DUP%d 1' % u)
            line_no += 1
            if form == 0:
                stmt = '#define DUP%d 2' % u
            elif form == 1:
                stmt = '#define DUP%d(a,b) a \\\n + b' % u
            else:
                stmt = '#define DUP%d' % u
            exp['kind'] = 'ppwarn'
            exp['positions'] = [(line_no, None)]
            exp['code'] = 10005
            exp['nomodel'] = True
            indent = ''
            self.note('fault:ppwarn')
            kind = 'undefined'
        elif kind == 'mlarg':
            # an undefined variable inside the argument of a macro call that is broken across lines directly behind the
            # opening parenthesis or a comma: the token stands on a later line than the call begins on (line only: the
            # column of a token that went through an expansion is not claimed)
            form = r.below(4)
            self.note('mlarg-form:%d' % form)
            target.add('#define PAIR%d(a,b) [a, b]' % u)
            line_no += 1
            ind2 = r.choice(['', '  ', '\t', '      '])
            if form == 0:
                stmt, dl = 'zz = PAIR%d(1,\n%sFAULT_%d);' % (u, ind2, u), 1
            elif form == 1:
                stmt, dl = 'zz = PAIR%d(\n%sFAULT_%d, 2);' % (u, ind2, u), 1
            elif form == 2:
                stmt, dl = 'zz = PAIR%d(1,\n\n%sFAULT_%d);' % (u, ind2, u), 2
            else:
                stmt, dl = 'zz = PAIR%d(\n%s1,\n%sFAULT_%d\n);' % (u, ind2, ind2, u), 2
            exp['kind'] = 'undefined'
            exp['positions'] = [(line_no + dl, None)]
            exp['code'] = 60070
            exp['nomodel'] = True
            self.note('fault:mlarg')
            kind = 'undefined'
        else:
            # a function defined on earlier lines of the same file, called from a code block
            stmt = 'fn = {\n%s  1 + "a"\n};\n%scall {\n%s   [] call fn;\n};' % (indent, indent, indent)
            exp['trace'] = [(line_no + 1, len(indent) + 4), (line_no + 4, len(indent) + 6), (line_no + 3, len(indent))]
            exp['code'] = 60076
            lead = ''
        target.add(indent + lead + stmt if kind != 'trace' else stmt)
        self.note('fault:' + kind + (':include' if in_include else ''))
        after_target = r.below(3)
        for _ in range(after_target):
            self.block(target, 1 if in_include else 0, files, allow_include=not in_include)
        if in_include:
            main.add('#include "%s"' % r.choice([target.name, '\\' + target.name]))
            for _ in range(r.below(3)):
                self.block(main, 0, files)
        if crlf:
            self.note('crlf')
        final_nl = not r.chance(1, 6)
        text = main.render(crlf, final_nl)
        out_files = {k: v.render(crlf, not r.chance(1, 6)) for k, v in files.items()}
        return kind, text, out_files, exp

    def raw_case(self):
        """text that is parsed without being preprocessed (what compile does): comments are the tokenizer's business"""
        r = self.r
        f = File('main.sqf')
        for _ in range(r.below(6)):
            u = self.uid()
            k = r.weighted([('plain', 4), ('blank', 2), ('linecomment', 3), ('blockcomment', 3), ('mlstring', 1), ('trailing', 2)])
            self.note('raw:' + k)
            if k == 'plain':
                f.add(r.choice(['a%d = %d;' % (u, u), 'private _v%d = [1, 2, 3];' % u, '  c%d = {1 + 2};' % u]))
            elif k == 'blank':
                f.add(r.choice(['', '   ', '\t']))
            elif k == 'linecomment':
                f.add(r.choice(['// comment %d' % u, '   // indented "quote', 'e%d = 1; // trailing' % u, '//']))
            elif k == 'blockcomment':
                f.add(r.choice(['/* one line %d */' % u, '/* two\nlines %d */' % u, '/*\n * three\n */', 'g%d = 1; /* opens\ncloses */' % u, '/**/', '/* * / */']))
            elif k == 'mlstring':
                f.add('s%d = "two\nlines";' % u)
            else:
                f.add('h%d = %d; /* behind */' % (u, u))
        kind = r.weighted([('undefined', 4), ('runtime', 3), ('parse', 3)])
        indent = r.choice(['', ' ', '  ', '\t', '    '])
        lead = r.choice(['', '', 'p = 1; ', '/* c */ ', 'q = 2; /* cc */ ', 'MLS', 'MLC', 't = "a""b"; ', "t = 'it''s' + ''''; ", 't = """"; '])
        line_no = len(f.lines) + 1
        if lead in ('MLS', 'MLC'):
            # a string or a block comment that runs over a line end in front of the fault
            f.add(indent + ('t = "x' if lead == 'MLS' else 'p = 1; /* c'))
            lead = 'yz"; ' if lead == 'MLS' else ' d */ '
            line_no += 1
            indent = ''
        exp = {'file': ROOT + 'main.sqf', 'kind': kind}
        if kind == 'undefined':
            stmt, off, exp['code'] = 'z = FAULT_%d;' % self.uid(), 4, 60070
        elif kind == 'runtime':
            stmt, off, exp['code'] = 'z = 1 + "a";', 6, 60076
        else:
            stmt, off, exp['code'] = 'z = 1 + ;', 8, 30015
        exp['positions'] = [(line_no, len(indent) + len(lead) + off)]
        f.add(indent + lead + stmt)
        for _ in range(r.below(3)):
            f.add(r.choice(['// after', 'y = 1;', '/* after */']))
        self.note('rawfault:' + kind)
        return kind, f.render(r.chance(1, 5), not r.chance(1, 6)), {}, exp

    # -- layouts outside the quantifier of the property: recorded deviations ------------------------------
    def known(self):
        """(finding id, text, files, expectation, observed-when-the-finding-applies)"""
        r = self.r
        u = self.uid()
        k = r.choice(['comment-same-line', 'continued-code-line'])
        pre = ''.join('a%d = %d;\n' % (i, i) for i in range(r.below(4)))
        n = pre.count('\n')
        if k == 'comment-same-line':
            c = '/* %s */' % ('c' * (1 + r.below(9)))
            text = pre + 'p = 1; %s z = FAULT_%d;\n' % (c, u)
            true_pos = (n + 1, 7 + len(c) + 1 + 4)
            deviating = (n + 1, 7 + 1 + 4)          # the comment's characters are not counted
        else:
            text = pre + 'p = 1 + \\\n  2; z = FAULT_%d;\n' % u
            true_pos = (n + 2, 9)
            deviating = (n + 1, 8 + 2 + 7)         # the continued line is joined to the line that starts it: "p = 1 + " + "  2; z = "
        return k, text, {}, {'file': ROOT + 'main.sqf', 'kind': 'undefined', 'positions': [true_pos], 'code': 60070}, deviating
