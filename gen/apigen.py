"""Generator of C API histories (C18) with the expected return code of every operation.

A history works on up to three instances. The generator tracks, per instance, which global variables
successful calls have set, so that probe calls (`if (isNil "g") then { <runtime error> }`) have a known
outcome: globals persist across calls of one instance and never leak into another instance.
"""
import cfggen


def hx(s):
    return s.encode('latin-1').hex()


GLOBALS = ['ga', 'gb', 'gc']
ERR = '1 + "a"'                      # a type error: error-level diagnostic, the script fails


class ApiGen:
    def __init__(self, rng):
        self.r = rng
        self.stats = {}
        self.cg = cfggen.CfgGen(rng.fork('apicfg'))

    def note(self, k):
        self.stats[k] = self.stats.get(k, 0) + 1

    def history(self):
        r = self.r
        ops = []          # protocol lines
        exp = []          # expected rc text per op ('ok', 'rc=<n>') or None when only the model decides
        tags = []         # expected (user, calltag) of every callback of the op, or None
        inst = {}         # slot -> {'user': u, 'globals': set(), 'limit': ms}
        calltag = 100

        def new(slot):
            limit = r.choice([0, 0, 125, 250])
            user = 10 + r.below(80)
            inst[slot] = {'user': user, 'globals': set(), 'limit': limit}
            ops.append('new %d %d %d' % (slot, limit, user))
            exp.append('ok')
            tags.append((user, 0))
            self.note('new')

        new(0)
        for _ in range(4 + r.below(10)):
            k = r.weighted([('ok', 6), ('probe', 5), ('rterr', 3), ('parse', 2), ('pp', 2), ('type', 1), ('loop', 2), ('spawn', 1),
                            ('ppcall', 1), ('transpile', 1), ('status', 3), ('cfg', 2), ('new', 2), ('del', 1), ('bad', 1), ('long', 2),
                            ('throw', 1), ('caught', 1), ('spawnfail', 2), ('evalcall', 3), ('exitcall', 1), ('macro', 4), ('asmbad', 2), ('tofixed', 2), ('strnum', 3), ('evalspawn', 2)])
            if not inst and k not in ('new', 'bad'):
                k = 'new'
            self.note(k)
            if k == 'new':
                free = [s for s in range(3) if s not in inst]
                if free:
                    new(free[0])
                continue
            if k == 'bad':
                which = r.choice(['null', 'foreign'])
                what = r.choice(['call', 'cfg', 'status'])
                ops.append('bad %s %s' % (which, what))
                exp.append('rc=-1')
                tags.append(None)
                continue
            slot = r.choice(sorted(inst.keys()))
            I = inst[slot]
            calltag += 1
            if k == 'status':
                ops.append('status %d' % slot)
                exp.append('rc=0')
                tags.append((I['user'], None))
                continue
            if k == 'del':
                ops.append('del %d' % slot)
                exp.append('ok')
                tags.append((I['user'], None))
                del inst[slot]
                continue
            if k == 'cfg':
                kind = r.weighted([('good', 4), ('parse', 1), ('pp', 1)])
                if kind == 'good':
                    ast = self.cg.load()
                    text = self.cg.render_load(ast)
                    ops.append('cfg %d %s %s' % (slot, hx(text), hx(self.cg.ser_load(ast))))
                    exp.append('rc=0')
                elif kind == 'parse':
                    ops.append('cfg %d %s %s' % (slot, hx('class A { x = ; };;; }'), hx('!')))
                    exp.append('rc=-3')
                else:
                    ops.append('cfg %d %s %s' % (slot, hx('#bogus\nclass A {};'), hx('!')))
                    exp.append('rc=-2')
                tags.append((I['user'], 0))
                continue
            ty = 's'
            rc = 0
            if k == 'ok':
                g = r.choice(GLOBALS)
                code = '%s = %d; private _a = [1, 2, 3] apply { _x + 1 }; %s' % (g, r.below(9), r.choice(['_a', 'nil', '7']))
                I['globals'].add(g)
            elif k == 'probe':
                g = r.choice(GLOBALS)
                neg = r.chance(1, 2)
                if neg:
                    code = 'if (!isNil "%s") then { %s }; 1' % (g, ERR)
                    rc = -6 if g in I['globals'] else 0
                else:
                    code = 'if (isNil "%s") then { %s }; 1' % (g, ERR)
                    rc = 0 if g in I['globals'] else -6
            elif k == 'rterr':
                g = r.choice(GLOBALS)
                code = r.choice(['%s; %s = 1' % (ERR, g), 'private _x = [1] select 5; %s = 1' % g, '{ %s } forEach [1, 2]; %s = 1' % (ERR, g)])
                rc = -6
            elif k == 'throw':
                code = 'throw 1; ga = 1'
                rc = -6
            elif k == 'spawnfail':
                # scripts that are still pending when the call fails are discarded with it: they never run, neither
                # now nor inside a later call (their global stays unset, which later probes observe)
                g = r.choice([x for x in GLOBALS if x not in I['globals']] or ['gz'])
                form = r.below(4)
                if form == 0:
                    code = '[] spawn { %s = 5 }; %s' % (g, ERR)
                elif form == 1:
                    code = '[] spawn { sleep 0.01; %s = 5 }; [] spawn { while { true } do { sleep 0.01 } }; [1] select 3' % g
                elif form == 2:
                    code = '[] spawn { %s = 5 }; throw 2' % g
                else:
                    code = '[] spawn { sleep 0.02; %s = 5 }; [] spawn { %s }; 1' % (g, ERR)
                    rc = None
                if rc is not None:
                    rc = -6
            elif k == 'macro':
                # macros live for one call: what a text defines is unknown to the next text on the same instance
                form = r.below(3)
                if form == 0:
                    g = r.choice(GLOBALS)
                    code = '#define LIMIT %d\n%s = LIMIT' % (1 + r.below(8), g)
                    I['globals'].add(g)
                elif form == 1:
                    g = r.choice(GLOBALS)
                    code = '#ifdef LIMIT\n%s\n#endif\n%s = 1' % (ERR, g)
                    I['globals'].add(g)
                else:
                    code = '#ifndef LIMIT\nga = 2\n#else\n%s\n#endif' % ERR
                    I['globals'].add('ga')
            elif k == 'evalspawn':
                # a script spawned by an expression that is evaluated while the text is preprocessed, in a call that executes
                # nothing (type p, or a text that does not parse): it is not left behind for the next call
                g = r.choice([x for x in GLOBALS if x not in I['globals']] or ['gz'])
                if r.chance(1, 2):
                    ty = 'p'
                    code = '__EVAL([] spawn { %s = 5 }; 1)' % g
                else:
                    code = '__EVAL([] spawn { %s = 5 }; 1) +' % g
                    rc = -3
            elif k == 'tofixed':
                # the print mode a script selects ends with its run: a later call prints numbers in the default mode
                g = r.choice(GLOBALS)
                code = 'toFixed %d; %s = 1' % (r.below(5), g)
                I['globals'].add(g)
            elif k == 'strnum':
                g = r.choice(GLOBALS)
                code = 'if (str 1.23456 != "1.23456") then { %s }; if (str 0.5 != "0.5") then { %s }; %s = 1' % (ERR, ERR, g)
                I['globals'].add(g)
            elif k == 'asmbad':
                # an assembly text the assembly parser rejects: -3, its diagnostic tagged with this instance and this call
                ty = 'a'
                code = r.choice(['push 1 push', 'callBinary', 'push'])
                rc = -3
            elif k == 'evalcall':
                # an expression evaluated while the text is preprocessed: it runs under this call, not under the exit
                # request or the time budget a previous call left behind
                g = r.choice(GLOBALS)
                code = '%s = __EVAL(%d); %s' % (g, r.below(90), g)
                I['globals'].add(g)
            elif k == 'exitcall':
                # the script ends its own run: nothing behind exit__ executes; the next call is a call like any other
                g = r.choice(GLOBALS)
                I['globals'].add(g)
                g2 = r.choice([x for x in GLOBALS if x not in I['globals']] or ['gz'])
                code = '%s = 1; exit__; %s = 2' % (g, g2)
                rc = None
            elif k == 'caught':
                g = r.choice(GLOBALS)
                code = 'try { throw 1 } catch { %s = _exception }; 2' % g
                I['globals'].add(g)
            elif k == 'parse':
                code = r.choice(['1 +', 'ga = ;', '[1, 2', '{ 1'])
                rc = -3
            elif k == 'pp':
                code = '#bogus\nga = 1'
                rc = -2
            elif k == 'type':
                ty = r.choice(['x', 'q', 'S', '2'])
                code = 'ga = 1'
                rc = -5
            elif k == 'ppcall':
                ty = 'p'
                code = 'ga = 1 // never executed'
            elif k == 'transpile':
                ty = '1'
                if r.chance(1, 3):
                    code = '1 +'
                    rc = -3
                else:
                    code = 'gb = 1'          # parsed only: gb is not set
            elif k == 'loop':
                if I['limit'] == 0:
                    code = 'private _i = 0; while { _i < 300 } do { _i = _i + 1 }; gc = _i'
                    I['globals'].add('gc')
                else:
                    code = r.choice(['while { true } do { ga = 1 }', 'for "_i" from 0 to 1 step 0 do { }', 'waitUntil { false }'])
                    if code.startswith('waitUntil'):
                        rc = None           # ends at once in an unscheduled script: only the model decides
                    else:
                        rc = -6
                        if code.startswith('while'):
                            I['globals'].add('ga')
            elif k == 'long':
                # about 80 instructions: several of these in a row exceed any limit only if budgets add up
                code = 'private _i = 0; while { _i < 8 } do { _i = _i + 1 }; gb = _i'
                I['globals'].add('gb')
            else:  # spawn
                kind = r.choice(['sleep', 'terminate_self', 'terminate_handle'])
                if kind == 'sleep':
                    code = 'h = [] spawn { sleep 0.02; gc = 3 }; ga = 2'
                    I['globals'].add('gc')
                elif kind == 'terminate_self':
                    # the terminated script is the last one to leave the scheduler, its last slice ended in sleep
                    code = 'ga = 1; [] spawn { terminate _thisScript; sleep 0.02; gd = 2 }; ga'
                else:
                    code = 'ga = 1; h = [] spawn { sleep 0.02; gd = 2 }; terminate h; ga'
                I['globals'].add('ga')
                if I['limit'] != 0:
                    rc = None
            ops.append('call %d %d %s %s' % (slot, calltag, ty, hx(code)))
            exp.append(None if rc is None else 'rc=%d' % rc)
            tags.append((I['user'], calltag))
            # every call is followed by a status query now and then
            if r.chance(1, 3):
                ops.append('status %d' % slot)
                exp.append('rc=0')
                tags.append((I['user'], None))
        return '\n'.join(ops), exp, tags
