"""Generator for C09: every registered signature with boundary values of its argument types.

The signatures come from the registry dump the harness writes on every run (name, precedence, left and
right type), so a new or changed registration is picked up without touching this file.
"""

# expressions that evaluate to boundary values, by type
NUM = ['0', '-0', '1', '-1', '0.5', '-0.5', '0.49', '1.5', '2', '3', '7', '100', '200', '-200', '1e6', '16777216', '16777217', '2147483520', '2147483647',
       '2147483648', '-2147483648', '-2147483904', '4294967295', '4294967296', '2e9', '-2e9', '4e9', '1e10', '9.2e18', '1.8e19', '1e38', '-1e38', '(1e39)', '(-1e39)',
       '(log -1)', '(-(log -1))', '1e-38', '1e-45', '99999999999']
STR = ['""', '"a"', '"abc"', '"%1"', '"%2 %1"', '"%0"', '"%99999999999"', '"%"', '"%%"', '"%a"', '"%1%"', '" "', '","', '"a,b,,c"', '"ÿþ"', '"\t\n"',
       '"0"', '"1e3"', '"-1"', '"nan"', '"true"', '"[1,2]"', '"{"', '"a""b"', '(toString [0])', '(toString [255, 254])', 'LONGSTR', '"config"', '"missionNamespace"',
       '"west"', '"B_Soldier_F"', '"x.sqf"', '"/nothere"', '"/e0.txt"', '"/e1.txt"', '"/e2.txt"', '"/e3.txt"', '"/e4.sqf"', '"/e5.cpp"', '"e1.txt"', '"/"', '"/e0.txt/x"', '"../e1.txt"', '"\\\\a\\\\b"', '"_x"', '"_forEachIndex"', '"gr"', '"%1 %1 %1 %1 %1 %1 %1 %1 %1 %1 %1"']
ARR = ['[]', '[1]', '[1,2,3]', '[[]]', '[[1,2],[3]]', '["a"]', '[nil]', '[nil, nil]', '[1, "a"]', '[[1,"a"],[2,"b"]]', '[[2,"b"],[1,"a"],[3,"c"],[0,"d"]]', '[[1],[2,3]]',
       '[[1,2],["a","b"]]', '[200, 2e9]', '[1, 2147483520]', '[-1, 5]', '[0.5, 0.5]', '[0, -1]', '[5, 1]', '[1, 1e10]', '[(log -1), 1]', '[1, (log -1)]', '[0, 0, 0]', '[1e39, -1e39]',
       'BIGARR', 'MIDARR', '[true]', '[{1}]', '[objNull]', '[configNull]', '["%1", 1]', '["%2"]', '["%1 %2 %3", nil, [], {}]', '[0, [1, [2, [3]]]]', '["a", "b", "c"]',
       '["b", "a", "c", "a"]', '[3, 1, 2, (log -1), 0]', '[[3], [1], [(log -1)], [2]]', 'SORTARR', '[[], []]', '[[1], []]', '[west, 1]', '[[0,0,0], 1]', '["x", [0,0,0], [], 0, "NONE"]',
       '[1, [2]]', '["a", 1]', '[1, "a", true, {}, [], objNull]', '[[1, 2], [3, 4]]', '[["k", 1], ["k", 2]]', '[["k"]]', '[[["k", 1]]]', '[0, 1, 2, 3, 4, 5, 6, 7, 8, 9, 10, 11, 12, 13, 14, 15, 16, 17]',
       '[250, 2147483520]', '[0, 2147483520]', '[2, 1e39]', '[300, 0]', '[299, 5]', '[1, 300]', '["%99999999999", 1]', '["%", 1]', '["%1%", 1]', '["%0", 1]', '["%2147483648", 1]',
       '["%1 %2 %3 %4", 1, "a"]', '["%-1", 1]', '["%1.5", 1]', '[LONGSTR, 1]',
       '["m", []]', '["m", [1]]', '["m", [1, 2]]', '["m", ["a", "b"]]', '["m", [0, 0, 0]]', '["m", objNull]', '["m", OBJ]', '[[], "m"]', '["m", nil]', '["m", [nil, nil]]',
       '[[], []]', '[[1], [2], [3]]', '[OBJ, [0, 0, 0]]', '[GRP, "m"]', 'NANARR', 'NANSUB', '[[0, 0], [1, 1]]', '[[0, 0, 0], [1, 1, 1], 2]', '[1, [0, 0, 0]]', '["a", "b"]', '[0, 3]', '[0, 0]',
       '[3, 0]', '[2, 5]']
BOOL = ['true', 'false']
CODE = ['{}', '{1}', '{nil}', '{_x}', '{true}', '{false}', '{_x > 1}', '{1 + "a"}', '{[]}', '{_this}', '{throw 1}', '{_x == _y}', '{"a"}', '{[_x, _y]}']
OBJ = ['objNull', 'OBJ', 'OBJ2', 'TRUCK']
GRP = ['grpNull', 'GRP']
CFG = ['configNull', 'configFile', '(configFile >> "CfgVehicles")', '(configFile >> "nothere")', '(configFile >> "CfgVehicles" >> "B_Soldier_F")']
SIDE = ['west', 'east', 'sideUnknown', 'sideEmpty']
NS = ['missionNamespace', 'uiNamespace', 'parsingNamespace', 'profileNamespace']
TEXT = ['(text "a")', '(text "")', '(parseText "<t>x</t>")', 'lineBreak']
MAP = ['createHashMap', '(createHashMapFromArray [["a", 1], [2, [3]]])', 'MAPBIG']
SCRIPT = ['scriptNull', '(0 spawn {})', '([] spawn {sleep 1})']
OTHER = {'LOCATION': ['locationNull'], 'DISPLAY': ['displayNull'], 'CONTROL': ['controlNull'], 'TASK': ['taskNull'], 'NetObject': ['objNull'],
         'IF': ['(if true)', '(if false)'], 'WHILE': ['(while {false})'], 'FOR': ['(for "_i")', '(for "_i" from 0)', '(for "_i" from 0 to 1)', '(for "_i" from 0 to 1 step 0)', '(for "")'],
         'SWITCH': ['(switch 1)'], 'WITH': ['(with missionNamespace)'], 'EXCEPTION': ['(try {1})'], 'NaN': ['(log -1)']}

# what the setup statement defines (kept small: it runs before every case that mentions one of the names)
SETUP = {
    'LONGSTR': 'LONGSTR = ""; for "_i" from 1 to 13 do { LONGSTR = LONGSTR + LONGSTR + "ab%1," };',
    'BIGARR': 'BIGARR = []; BIGARR resize 100000;',
    'MIDARR': 'MIDARR = []; for "_i" from 1 to 300 do { MIDARR pushBack _i };',
    'SORTARR': 'SORTARR = []; for "_i" from 1 to 40 do { SORTARR pushBack [(_i * 7) % 11, str _i] };',
    'OBJ': 'OBJ = "B_Soldier_F" createVehicle [0, 0, 0];',
    'OBJ2': 'OBJ2 = (createGroup west) createUnit ["B_Soldier_F", [1, 1, 0], [], 0, "NONE"];',
    'GRP': 'GRP = createGroup west;',
    'TRUCK': 'TRUCK = "B_Truck_01" createVehicle [5, 5, 0];',
    'MAPBIG': 'MAPBIG = createHashMap; for "_i" from 1 to 200 do { MAPBIG set [_i, [_i]] };',
    'NANARR': 'NANARR = []; for "_i" from 1 to 24 do { NANARR pushBack (log -1) };',
    'NANSUB': 'NANSUB = []; for "_i" from 1 to 24 do { NANSUB pushBack [(log -1), _i] };',
}

# operators that end the process, block on input or reach outside the sandbox by design
SKIP = {'exit__', 'exitcode__', 'quit__', 'halt', 'prettysqf__', 'callextension', 'copytoclipboard', 'copyfromclipboard', 'sleep', 'uisleep', 'waituntil', 'pushstring__',
        'exportjipmessages', 'diag_exportconfig', 'diag_exportterrainsvg', 'savegame', 'saveprofilenamespace', 'vm__', 'provide__'}

POOLS = {'SCALAR': NUM, 'STRING': STR, 'ARRAY': ARR, 'BOOL': BOOL, 'CODE': CODE, 'OBJECT': OBJ, 'GROUP': GRP, 'CONFIG': CFG, 'SIDE': SIDE, 'NAMESPACE': NS,
         'TEXT': TEXT, 'HASHMAP': MAP, 'SCRIPT': SCRIPT}


def pool(t):
    if t in POOLS:
        return POOLS[t]
    return OTHER.get(t)


ANY_POOL = (NUM[:12] + NUM[-8:] + STR[:14] + ARR + BOOL + CODE[:6] + OBJ + GRP + CFG[:3] + SIDE[:2] + NS[:1] + TEXT[:1] + MAP[:2] + SCRIPT[:1]
            + ['locationNull', 'displayNull', 'controlNull', 'taskNull'])


def load_signatures(path):
    """-> list of ('N', name) | ('U', name, rtype) | ('B', name, ltype, rtype)"""
    sigs = []
    for line in open(path, encoding='utf-8', errors='replace'):
        p = line.split()
        if not p:
            continue
        if p[0] == 'N' and len(p) == 2:
            sigs.append(('N', p[1]))
        elif p[0] == 'U' and len(p) == 3:
            sigs.append(('U', p[1], p[2]))
        elif p[0] == 'B' and len(p) == 5:
            sigs.append(('B', p[1], p[3], p[4]))
    return sigs


# type-correct uses whose code argument changes the very array (or map) the operator walks over
MUTATING = [
    'MUT apply {MUT resize 0; 1}', 'MUT apply {MUT deleteAt 0; _x}', 'MUT apply {MUT pushBack 1; _x}', '{MUT deleteAt 0} forEach MUT', '{MUT resize 0} forEach MUT',
    '{MUT pushBack _x; (count MUT) > 2000} forEach MUT', 'MUT select {MUT resize 0; true}', 'MUT select {MUT deleteAt 0; true}', 'MUT findIf {MUT resize 0; false}',
    '{MUT resize 0; true} count MUT', '{MUT deleteAt 0; true} count MUT', 'MUT apply {MUT set [0, MUT]; 1}', '{MUT append MUT; (count MUT) > 5000} forEach MUT',
    'MUT apply {MUT = []; _x}', '{MUT = nil; 1} forEach MUT', 'MUT select {MUT sort true; true}', 'MUT apply {reverse MUT; _x}',
    '{MAPM deleteAt _x} forEach MAPM', '{MAPM set [_x + 100, 1]} forEach MAPM', '{MAPM deleteAt _x} forEach (keys MAPM)',
    'MUT apply {MUT apply {MUT resize 1; 1}}', '[MUT, MUT] apply {_x resize 0; MUT}', 'MUT insert [0, MUT]', 'MUT append MUT', 'MUT pushBack MUT', 'MUT set [2, MUT]',
    'MUT deleteRange [0, 2]; MUT select 4', 'MUT resize 2; MUT select 3', '[MUT] joinString MUT', 'MUT = +MUT; MUT', 'str MUT', 'MUT isEqualTo MUT', 'MUT find MUT', 'MUT - MUT', 'MUT + MUT',
    'MUT arrayIntersect MUT', 'MUT in MUT', 'reverse MUT; MUT', 'MUT sort false; MUT', 'MUT params ["_a", "_b"]', 'MUT params [["_a", 0, [0]], ["_b", 0, [[]], 3]]', 'MUT call {_this resize 0; _this}',
    'MUT spawn {_this resize 0}', 'selectRandom MUT', 'MUT selectRandomWeighted [1,1]' ,
]
MUT_SETUP = 'MUT = [1, 2, 3, 4, 5, 6, 7, 8]; MAPM = createHashMap; for "_i" from 1 to 20 do { MAPM set [_i, _i] };'


# Well-formed structured arguments of the operators that take positions, radii, sizes and ranges inside arrays: the pools
# above mostly reach the argument validation; these reach the arithmetic behind it. `#` is a number slot.
TEMPLATES = [
    ('createvehicle', 'createVehicle ["B_Quadbike_01_F", [#, #, 0], [], #, "NONE"]'),
    ('createvehicle', 'createVehicle ["B_Soldier_F", [10, 20, 0], [], #, "CAN_COLLIDE"]'),
    ('createvehicle', '"B_Soldier_F" createVehicle [#, #, #]'),
    ('createunit', '(createGroup west) createUnit ["B_Soldier_F", [#, #, #], [], #, "FORM"]'),
    ('createunit', '(createGroup west) createUnit ["B_Soldier_F", [1, 2, 3], [], #, "NONE"]'),
    ('createvehiclelocal', '"B_Soldier_F" createVehicleLocal [#, #, #]'),
    ('setpos', 'OBJ setPos [#, #, #]'), ('setposasl', 'OBJ setPosASL [#, #, #]'), ('setvelocity', 'OBJ setVelocity [#, #, #]'), ('setdir', 'OBJ setDir #'),
    ('domove', 'OBJ doMove [#, #, #]'), ('distance', 'OBJ distance [#, #, #]'), ('distance', '[#, #, #] distance [#, #, #]'), ('distance2d', '[#, #] distance2D [#, #, #]'),
    ('createmarker', 'createMarker ["mk", [#, #]]'), ('createmarker', 'createMarker ["mk", [#, #, #]]'), ('setmarkerpos', 'createMarker ["mk", [0, 0]]; "mk" setMarkerPos [#, #]'),
    ('vectoradd', '[#, #, #] vectorAdd [#, #, #]'), ('vectornormalized', 'vectorNormalized [#, #, #]'), ('vectormultiply', '[#, #, #] vectorMultiply #'),
    ('vectordistance', '[#, #, #] vectorDistance [#, #, #]'), ('vectorcrossproduct', '[#, #, #] vectorCrossProduct [#, #, #]'), ('vectormagnitude', 'vectorMagnitude [#, #, #]'),
    ('select', 'MIDARR select [#, #]'), ('resize', 'private _a = [1, 2, 3]; _a resize #; _a'), ('deleterange', 'private _a = [1, 2, 3, 4]; _a deleteRange [#, #]; _a'),
    ('deleteat', 'private _a = [1, 2, 3]; _a deleteAt #'), ('set', 'private _a = [1, 2, 3]; _a set [#, 1]; count _a'), ('selectrandomweighted', '[1, 2, 3] selectRandomWeighted [#, #, #]'),
    ('random', 'random #'), ('random', '# random #'), ('random', 'random [#, #, #]'), ('mod', '# mod #'), ('%', '# % #'), ('atan2', '# atan2 #'), ('sqrt', 'sqrt #'), ('ln', 'ln #'),
    ('tofixed', '# toFixed #'), ('tofixed', 'toFixed #; str 1.5'), ('tostring', 'toString [#, #]'), ('substr', '"abcdef" select [#, #]'), ('insert', 'private _a = [1, 2]; _a insert [#, [3]]; _a'),
    ('for', 'private _n = 0; for "_i" from # to # step # do { _n = _n + 1; if (_n > 50) exitWith {} }; _n'), ('matrixmultiply', '[[#, #], [#, #]] matrixMultiply [[#, #], [#, #]]'),
    ('linearconversion', 'linearConversion [#, #, #, #, #, true]'), ('pushback', 'private _a = []; _a pushBack #; _a'), ('format', 'format ["%1 %2", #, #]'),
    ('parsenumber', 'parseNumber str #'), ('round', 'round #'), ('floor', 'floor #'), ('ceil', 'ceil #'), ('count', '{_x > #} count [#, #, #]'),
]
SLOTS = ['0', '-0', '0.25', '0.4', '0.49', '0.5', '0.51', '1', '-1', '-0.25', '3', '100', '1e10', '(log -1)', '1e39', '(-1e39)', '2147483648', '1e-45', '16777217']


class OpGen:
    def __init__(self, rng, sigs):
        self.r = rng
        self.sigs = [s for s in sigs if s[1].lower() not in SKIP]
        self.stats = {}

    def note(self, k):
        self.stats[k] = self.stats.get(k, 0) + 1

    def values(self, t, k):
        """k boundary expressions of type t (all of the pool when it is small)"""
        p = pool(t) if t != 'ANY' else ANY_POOL
        if p is None:
            p = ANY_POOL
        if len(p) <= k:
            return list(p)
        out = []
        seen = set()
        while len(out) < k:
            v = self.r.choice(p)
            if v not in seen:
                seen.add(v)
                out.append(v)
        return out

    def setup_for(self, text):
        return ' '.join(v for k, v in SETUP.items() if k in text)

    def cases(self, per_sig, full_product_up_to=3000):
        """-> list of (signature, expression text, setup)"""
        out = [(('X', 'mutation-while-iterating'), t, MUT_SETUP) for t in MUTATING]
        registered = set(s[1].lower() for s in self.sigs)
        for name, tpl in TEMPLATES:
            if name not in registered and name not in ('for', 'substr', '%', 'mod'):
                continue
            n = tpl.count('#')
            fills = [[v] * n for v in SLOTS] + [[self.r.choice(SLOTS) for _ in range(n)] for _ in range(6 if n > 1 else 0)]
            for fill in fills:
                t = tpl
                for v in fill:
                    t = t.replace('#', v, 1)
                out.append((('T', name), t, self.setup_for(t)))
            self.note('template')
        for sig in self.sigs:
            if sig[0] == 'N':
                out.append((sig, sig[1], ''))
                self.note('nular')
                continue
            if sig[0] == 'U':
                p = pool(sig[2]) if sig[2] != 'ANY' else None
                for v in (p if p is not None else self.values(sig[2], per_sig)):
                    t = '%s %s' % (sig[1], v)
                    out.append((sig, t, self.setup_for(t)))
                self.note('unary')
                continue
            lp = pool(sig[2]) if sig[2] != 'ANY' else None
            rp = pool(sig[3]) if sig[3] != 'ANY' else None
            if lp is not None and rp is not None and len(lp) * len(rp) <= full_product_up_to:
                # both argument types are specific: every combination of their boundary values
                pairs = set((l, rv) for l in lp for rv in rp)
                self.note('binary:full')
            else:
                ls = lp if lp is not None and len(lp) <= 60 else self.values(sig[2], per_sig)
                rs = rp if rp is not None and len(rp) <= 60 else self.values(sig[3], per_sig)
                # every left value with one right value and vice versa
                pairs = set()
                for i, l in enumerate(ls):
                    pairs.add((l, rs[i % len(rs)]))
                for i, rv in enumerate(rs):
                    pairs.add((ls[(i * 7 + 3) % len(ls)], rv))
                self.note('binary:sampled')
            for l, rv in sorted(pairs):
                t = '%s %s %s' % (l, sig[1], rv)
                out.append((sig, t, self.setup_for(t)))
        return out
