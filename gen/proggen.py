"""Type-directed generator of SQF programs over the fragment the VM model covers (C02–C05).

Every program terminates by construction (loops are driven by literal ranges / counters); every
statement of interest appends to the global array `tr`, so the sequence of executed statements and
the value of each construct are observable in the final state (and, with the `trace` verb, the whole
operand stack after every instruction).
"""


class ProgGen:
    def __init__(self, rng, max_depth=3, errors=False, weird=True):
        self.r = rng
        self.max_depth = max_depth
        self.errors = errors          # inject ill-typed operations (C04)
        self.weird = weird
        self.uid = 0
        self.stats = {}

    def note(self, k):
        self.stats[k] = self.stats.get(k, 0) + 1

    def fresh(self, prefix='_v'):
        self.uid += 1
        return '%s%d' % (prefix, self.uid)

    # ---- expressions ------------------------------------------------------------------------------
    def num(self, env, depth=0):
        r = self.r
        choices = [('lit', 5)]
        if env['nums']:
            choices.append(('var', 5))
        if depth < 2:
            choices.append(('bin', 4))
        if env.get('x_num'):
            choices.append(('x', 4))
        if env.get('fei'):
            choices.append(('fei', 2))
        if env['arrs'] and depth < 2:
            choices.append(('count', 1))
        if self.errors and r.chance(1, 25):
            self.note('err:illtyped')
            return r.choice(['(1 + "a")', '(undefinedvar + 1)', '([] select 5)', '(true + 1)', '(call 5)'])
        k = r.weighted(choices)
        if k == 'lit':
            return str(r.below(10))
        if k == 'var':
            return r.choice(env['nums'])
        if k == 'x':
            return '_x'
        if k == 'fei':
            return '_forEachIndex'
        if k == 'count':
            return '(count %s)' % r.choice(env['arrs'])
        op = r.choice(['+', '-', '*', '+'])
        a = self.num(env, depth + 1)
        b = self.num(env, depth + 1)
        if op == '*':
            b = str(r.below(4))
        return '(%s %s %s)' % (a, op, b)

    def boolean(self, env, depth=0):
        r = self.r
        k = r.weighted([('cmp', 6), ('lit', 2), ('not', 1), ('and', 2 if depth < 1 else 0), ('lazy', 2 if depth < 1 else 0)])
        if k == 'lit':
            return r.choice(['true', 'false'])
        if k == 'not':
            return '!(%s)' % self.boolean(env, depth + 1)
        if k == 'and':
            return '(%s %s %s)' % (self.boolean(env, depth + 1), r.choice(['&&', '||', 'and', 'or']), self.boolean(env, depth + 1))
        if k == 'lazy':
            self.note('lazy')
            marker = self.num(env)
            return '(%s %s {tr pushBack %s; %s})' % (self.boolean(env, depth + 1), r.choice(['&&', '||']), marker, self.boolean(env, depth + 1))
        return '(%s %s %s)' % (self.num(env), r.choice(['<', '<=', '>', '>=', '==', '!=']), self.num(env))

    def arr_lit(self, env):
        r = self.r
        n = r.below(5)
        return '[' + ', '.join(self.num(env, 1) for _ in range(n)) + ']'

    def value_expr(self, env, depth):
        """an expression whose value is a number or nil, built from a value-yielding construct"""
        r = self.r
        if depth >= self.max_depth:
            return self.num(env)
        k = r.weighted([('num', 3), ('call', 3), ('ifelse', 3), ('ifthen', 1), ('switch', 2), ('count', 2), ('findif', 2),
                        ('callargs', 2), ('try', 2), ('breakout', 2), ('arr', 2), ('selnum', 1), ('isnil', 1), ('exitwith', 2)])
        self.note('val:' + k)
        if k == 'num':
            return self.num(env)
        if k == 'call':
            return '(call %s)' % self.block(env, depth + 1, value=True)
        if k == 'callargs':
            e2 = dict(env, nums=env['nums'] + ['_this'])
            return '(%s call %s)' % (self.num(env), self.block(e2, depth + 1, value=True))
        if k == 'ifelse':
            return '(if %s then %s else %s)' % (self.boolean(env), self.block(env, depth + 1, value=True), self.block(env, depth + 1, value=True))
        if k == 'ifthen':
            return '(if %s then %s)' % (self.boolean(env), self.block(env, depth + 1, value=True))
        if k == 'switch':
            return '(%s)' % self.switch(env, depth + 1, value=True)
        if k == 'count':
            e2 = dict(env, x_num=True)
            return '({%s} count %s)' % (self.boolean(e2), self.arr_lit(env))
        if k == 'findif':
            e2 = dict(env, x_num=True)
            return '(%s findIf {%s})' % (self.arr_lit(env), self.boolean(e2))
        if k == 'try':
            thrown = self.num(env)
            return '(try { tr pushBack %s; if %s then { throw %s }; %s } catch { tr pushBack _exception; %s })' % (
                self.num(env), self.boolean(env), thrown, self.num(env), self.num(dict(env, nums=env['nums'] + ['_exception'])))
        if k == 'breakout':
            name = self.fresh('s')
            inner = '%s breakOut "%s"' % (self.num(env), name)
            wrap = r.choice(['call { %s; 99 }', 'if (true) then { %s; 98 }', '{ %s; 97 } forEach [1, 2]'])
            return '(call { scopeName "%s"; tr pushBack %s; %s; 96 })' % (name, self.num(env), wrap % inner)
        if k == 'arr':
            return '(count [%s, %s, %s])' % (self.num(env), self.value_expr(env, depth + 1), self.num(env))
        if k == 'selnum':
            n = 1 + r.below(4)
            return '([%s] select %d)' % (', '.join(self.num(env, 1) for _ in range(n)), r.below(n))
        if k == 'isnil':
            return '(if (isNil {%s}) then {1} else {0})' % r.choice([self.num(env), 'nil', 'call {}'])
        if k == 'exitwith':
            return '(call { if %s exitWith { tr pushBack %s; %s }; tr pushBack %s; %s })' % (
                self.boolean(env), self.num(env), self.num(env), self.num(env), self.num(env))
        return self.num(env)

    # ---- statements -------------------------------------------------------------------------------
    def block(self, env, depth, value=False):
        r = self.r
        env = dict(env, nums=list(env['nums']), arrs=list(env['arrs']))
        n = r.below(3) + (0 if value and r.chance(1, 6) else 1)
        stmts = [self.statement(env, depth) for _ in range(n)]
        if value:
            if r.chance(5, 6):
                stmts.append(self.num(env))
        sep = '; '
        body = sep.join(stmts)
        if stmts and r.chance(1, 3) and not value:
            body += ';'
        return '{ ' + body + ' }'

    def switch(self, env, depth, value=False):
        r = self.r
        self.note('switch')
        subj = self.num(env)
        parts = []
        ncases = 1 + r.below(3)
        for _ in range(ncases):
            labels = [str(r.below(6)) for _ in range(1 + (1 if r.chance(1, 4) else 0))]
            head = '; '.join('case %s' % l for l in labels)
            parts.append('%s: %s' % (head, self.block(env, depth + 1, value=value)))
        if r.chance(2, 3):
            parts.insert(r.below(len(parts) + 1), 'default %s' % self.block(env, depth + 1, value=value))
        return 'switch %s do { %s }' % (subj, '; '.join(parts) + (';' if r.chance(1, 2) else ''))

    def statement(self, env, depth):
        r = self.r
        if depth >= self.max_depth:
            k = r.weighted([('mark', 5), ('assign', 3)])
        else:
            k = r.weighted([('mark', 6), ('assign', 4), ('markval', 5), ('if', 3), ('while', 3), ('for', 3), ('foreach', 3),
                            ('switch', 2), ('call', 2), ('apply', 2), ('select', 2), ('try', 2), ('private', 1), ('exitwith', 1),
                            ('global', 2), ('arrvar', 1)])
        self.note(k)
        if k == 'mark':
            return 'tr pushBack %s' % self.num(env)
        if k == 'markval':
            return 'tr pushBack %s' % self.value_expr(env, depth + 1)
        if k == 'assign':
            if env['nums'] and r.chance(1, 2):
                v = r.choice([x for x in env['nums'] if x.startswith('_v') or x.startswith('_a')] or ['_a0'])
                if v not in env['nums']:
                    env['nums'].append(v)
                return '%s = %s' % (v, self.num(env))
            v = self.fresh()
            s = '%s%s = %s' % ('private ' if r.chance(1, 2) else '', v, self.num(env))
            env['nums'].append(v)
            return s
        if k == 'global':
            g = r.choice(['g1', 'g2', 'G1'])
            return '%s = %s' % (g, self.num(env))
        if k == 'arrvar':
            v = self.fresh('_arr')
            s = '%s = %s' % (v, self.arr_lit(env))
            env['arrs'].append(v)
            return s
        if k == 'private':
            v = self.fresh()
            return r.choice(['private "%s"' % v, 'private ["%s", "%s"]' % (v, self.fresh())])
        if k == 'if':
            if r.chance(1, 2):
                return 'if %s then %s' % (self.boolean(env), self.block(env, depth + 1))
            return 'if %s then %s else %s' % (self.boolean(env), self.block(env, depth + 1), self.block(env, depth + 1))
        if k == 'exitwith':
            return 'call { if %s exitWith %s; tr pushBack %s }' % (self.boolean(env), self.block(env, depth + 1), self.num(env))
        if k == 'while':
            c = self.fresh('_c')
            lim = r.below(4)
            env2 = dict(env, nums=env['nums'] + [c])
            body = self.block(env2, depth + 1)
            # counter increment first, so that the loop terminates whatever the body does
            body = '{ %s = %s + 1; ' % (c, c) + body[2:]
            return '%s = 0; while {%s < %d} do %s' % (c, c, lim, body)
        if k == 'for':
            v = self.fresh('_i')
            a, b = r.below(4), r.below(6)
            step = r.choice(['', '', ' step 1', ' step 2', ' step -1'])
            if step == ' step -1':
                a, b = b, a
            env2 = dict(env, nums=env['nums'] + [v])
            return 'for "%s" from %d to %d%s do %s' % (v, a, b, step, self.block(env2, depth + 1))
        if k == 'foreach':
            env2 = dict(env, x_num=True, fei=True)
            return '%s forEach %s' % (self.block(env2, depth + 1), self.arr_lit(env))
        if k == 'switch':
            return self.switch(env, depth + 1)
        if k == 'call':
            if r.chance(1, 2):
                return 'call %s' % self.block(env, depth + 1)
            env2 = dict(env, nums=env['nums'] + ['_this'])
            return '%s call %s' % (self.num(env), self.block(env2, depth + 1))
        if k == 'apply':
            env2 = dict(env, x_num=True)
            return 'tr pushBack (%s apply {%s})' % (self.arr_lit(env), self.num(env2))
        if k == 'select':
            env2 = dict(env, x_num=True)
            return 'tr pushBack (%s select {%s})' % (self.arr_lit(env), self.boolean(env2))
        if k == 'try':
            return 'try { tr pushBack %s; if %s then { throw %s }; tr pushBack %s } catch { tr pushBack _exception }' % (
                self.num(env), self.boolean(env), self.num(env), self.num(env))
        return 'tr pushBack %s' % self.num(env)

    def program(self):
        env = {'nums': [], 'arrs': []}
        n = 1 + self.r.below(4)
        stmts = ['tr = []'] + [self.statement(env, 0) for _ in range(n)]
        if self.r.chance(1, 2):
            stmts.append(self.value_expr(env, 1))
        return '; '.join(stmts)
