"""Generator and property-level reference for the virtual file system (C16)."""
import os

# `d12` and `d1/sub2` are unmapped siblings whose names extend the name of a directory that gets mapped
DIRS = ['d1', 'd1/sub', 'd2', 'd2/sub', 'other', 'd1/sub/deep', 'd12', 'd1/sub2', 'other2']
NAMES = ['a.sqf', 'b.hpp', 'c.sqf', 'inc.hpp']
# `/x/sub` and `/x/sub/deep`: a nested prefix whose last segment is also the name of a directory below the outer root, so that the
# inner mapping hides that directory
VIRTS = ['/x', '/x/y', '/addons/mod', '/', '/x/', 'x\\y', '/z', '/x/y/z', '/x/sub', '/x/sub/deep']


class VfsGen:
    def __init__(self, rng):
        self.r = rng
        self.stats = {}
        self.n = 0

    def note(self, k):
        self.stats[k] = self.stats.get(k, 0) + 1

    def case(self):
        r = self.r
        files = {}
        for d in DIRS:
            for nm in NAMES:
                if r.chance(1, 2):
                    self.n += 1
                    # (run by execVM from inside a call that has an argument: the new script sees no _this of its starter)
                    files['%s/%s' % (d, nm)] = 'gx = %d; if (!isNil {_this}) then { gx = 0 - %d }' % (self.n, self.n)
        mappings = []
        for _ in range(1 + r.below(4)):
            mappings.append((r.choice(['d1', 'd2', 'd1/sub', 'd2/sub', 'other', 'd1/sub/deep']), r.choice(VIRTS)))
        reqs = []
        for _ in range(6 + r.below(8)):
            k = r.weighted([('hit', 6), ('miss', 2), ('traverse', 4), ('messy', 3), ('physical', 2), ('outside', 2), ('relative', 3)])
            self.note('req:' + k)
            phys, virt = r.choice(mappings)
            v = virt.replace('\\', '/')
            if not v.startswith('/'):
                v = '/' + v
            v = v.rstrip('/')
            under = [p for p in files if p.startswith(phys + '/')]
            cur_v, cur_p = '', ''
            if k == 'hit' and under:
                rel = r.choice(under)[len(phys) + 1:]
                req = v + '/' + rel
            elif k == 'miss' or (k == 'hit' and not under):
                # also names of files that exist in some other directory: a file that is absent from the directory the
                # prefix is mapped to is not found, wherever else a file of that name may lie
                req = v + '/' + r.choice(['nope.sqf', 'sub/nope.sqf', 'zz/a.sqf'] + [nm for nm in NAMES if (phys + '/' + nm) not in files] * 2)
            elif k == 'traverse':
                rel = r.choice(list(files) or ['d1/a.sqf'])
                req = r.choice([v + '/../' + rel, v + '/../../' + rel, v + '/sub/../../' + rel, v + '/nothere/../../other/a.sqf',
                                v + '\\..\\..\\' + rel.replace('/', '\\'), '../' + rel, v + '/..//$R/' + rel, '/../../../../../../etc/passwd',
                                v + '/a.sqf/../../../' + rel])
            elif k == 'messy':
                rel = r.choice(under)[len(phys) + 1:] if under else 'a.sqf'
                req = r.choice([v + '//' + rel, v.replace('/', '\\') + '\\' + rel.replace('/', '\\'), ' ' + v + '/' + rel + ' ', v + '/./' + rel,
                                v[1:] + '/' + rel, v + '/' + rel + '/', v.upper() + '/' + rel, '\t' + v + '/' + rel + '\t ', v + '/' + rel + '\n'])
            elif k == 'physical':
                # an absolute physical path: inside the mapped directory, or inside a sibling whose name merely begins
                # with the mapped directory's name (d1 mapped, d12/... requested)
                sib = [p for p in files if p.startswith(phys) and not p.startswith(phys + '/')]
                if sib and r.chance(1, 2):
                    rel = r.choice(sib)
                    self.note('req:physical-sibling')
                else:
                    rel = r.choice(under) if under else 'd1/a.sqf'
                req = '/$R/' + rel
            elif k == 'outside':
                req = r.choice(['/$O', v + '/../..//$O', '/$R/../' + 'outside.sqf'])
            else:
                # relative to a current file (as an include would be)
                cur = r.choice(under) if under else ''
                cur_p = cur
                cur_v = (v + '/' + cur[len(phys) + 1:]) if cur else ''
                req = r.choice(['a.sqf', 'sub/c.sqf', '../a.sqf', 'inc.hpp', '../../other/a.sqf', '../%s2/a.sqf' % (phys.split('/')[-1]), '../%s2/inc.hpp' % (phys.split('/')[-1]),
                                '../sub2/b.hpp', '../../d12/a.sqf'])
            kind = r.weighted([('info', 6), ('load', 2), ('exec', 1), ('pre', 1)]) if k != 'relative' else r.weighted([('info', 3), ('inc', 2)])
            reqs.append((kind, cur_v, cur_p, req))
        if len(mappings) == 1 and mappings[0][0] in ('d1', 'd2') and mappings[0][1] not in ('/', ):
            # includes two deep across directories: a file included from sub/ includes its neighbour in sub/, not the file of
            # the same name beside the outermost file
            d, virt = mappings[0]
            v = virt.replace('\\', '/')
            v = ('/' + v if not v.startswith('/') else v).rstrip('/')
            files['%s/nest_m.hpp' % d] = '#include "sub/nest_a.hpp"\n'
            files['%s/sub/nest_a.hpp' % d] = 'ga = 1;\n#include "nest_b.hpp"\n'
            files['%s/sub/nest_b.hpp' % d] = 'gx = 7001;\n'
            files['%s/nest_b.hpp' % d] = 'gx = 7002;\n'
            reqs.append(('ninc', '', '', v + '/nest_m.hpp'))
            self.note('req:nested-include')
            # one run, two included files in different directories, each with the same-spelled relative include: each
            # gets the file that lies beside itself
            files['%s/nest2_m.hpp' % d] = '#include "sub/one.hpp"\n#include "sub/deep/two.hpp"\n#include "sub/one.hpp"\n'
            files['%s/sub/one.hpp' % d] = '#include "defs.hpp"\n'
            files['%s/sub/deep/two.hpp' % d] = '#include "defs.hpp"\n'
            files['%s/sub/defs.hpp' % d] = 'gx = 7101;\n'
            files['%s/sub/deep/defs.hpp' % d] = 'gx = 7102;\n'
            reqs.append(('ninc', '', '', v + '/nest2_m.hpp'))
            self.note('req:same-name-includes')
        return files, mappings, reqs


def inside_some_root(phys_path, mappings):
    """is the (normalised) physical path below one of the mapped directories?"""
    p = os.path.normpath(phys_path)
    for ph, _ in mappings:
        root = os.path.normpath('/$R/' + ph)
        if p.startswith(root + '/'):
            return True
    return False


def reference_clean(files, mappings, req):
    """expected physical path for a clean absolute virtual request (no '..', no doubled or back slashes):
    the deepest mapped prefix of the path is replaced by its physical directory; of several roots mapped
    to that prefix the first that holds the file wins; nothing else is tried"""
    segs = [s for s in req.split('/') if s]
    norm = []
    for ph, vt in mappings:
        v = [s for s in vt.replace('\\', '/').split('/') if s]
        norm.append((ph, v))
    # deepest node along the request that is a tree node (prefix of some mapped virtual path)
    depth = 0
    for k in range(1, len(segs) + 1):
        if any(v[:k] == segs[:k] for _, v in norm):
            depth = k
        else:
            break
    node = segs[:depth]
    rest = segs[depth:]
    for ph, v in norm:
        if v == node:
            cand = ph + ''.join('/' + s for s in rest)
            if cand in files:
                return '/$R/' + cand
    return None
