"""Generator of SQF expression trees and their renderings (C01, C06).

A tree is a tuple:
  ('num', text, rendered_value)   ('str', raw_bytes, quote)   ('var', name)   ('bool', True|False)
  ('nular', name)                 ('un', name, child)         ('bin', level, name, left, right)
  ('arr', [children])             ('code', [statements])
  ('assign', name, expr)          ('assignl', name, expr)

`render` prints a tree with the parentheses the documented reading requires (lower level under
higher, equal level on the right, any binary under a unary), plus random redundant parentheses,
random white space and random letter case.  `expected` is the post-order instruction listing of the
documented reading in the canonical text form of the harness — an oracle that is independent of the
Lean model.
"""
import re

WS = [b' ', b'  ', b'\t', b'\n', b' \r\n', b' \t ']


class Pools:
    """operator names by class; levels 1..10"""

    def __init__(self):
        self.n = []
        self.u = []           # unary-only (classes U and UN)
        self.b = {k: [] for k in range(1, 11)}     # binary-only
        self.bu = {k: [] for k in range(1, 11)}
        self.bn = {k: [] for k in range(1, 11)}
        self.bun = {k: [] for k in range(1, 11)}

    @staticmethod
    def synthetic():
        p = Pools()
        p.n = ['n']
        p.u = ['u', 'un', '!']
        for k in range(1, 11):
            p.b[k].append('b%d' % k)
            p.bu[k].append('bu%d' % k)
            p.bn[k].append('bn%d' % k)
            p.bun[k].append('bun%d' % k)
        p.b[7].append('*')
        p.b[1].append('||')
        p.b[2].append('&&')
        p.b[3].append('==')
        p.b[9].append('#')
        p.bu[6] += ['+', '-']
        return p

    @staticmethod
    def from_dump(path):
        nular, unary, first = set(), set(), {}
        for line in open(path, encoding='latin-1'):
            parts = line.rstrip('\n').split(' ')
            if len(parts) < 2:
                continue
            if parts[0] == 'N':
                nular.add(parts[1])
            elif parts[0] == 'U':
                unary.add(parts[1])
            elif parts[0] == 'F':
                first[parts[1]] = int(parts[2])
        p = Pools()
        skip = {'true', 'false', 'private', '.'}
        for name in sorted(nular | unary | set(first)):
            if name in skip:
                continue
            isn, isu, lvl = name in nular, name in unary, first.get(name)
            if lvl is None:
                if isu:
                    p.u.append(name)          # U and UN: the grammar has no nular reading for UN
                elif isn:
                    p.n.append(name)
            elif 1 <= lvl <= 10:
                if isu and isn:
                    p.bun[lvl].append(name)
                elif isu:
                    p.bu[lvl].append(name)
                elif isn:
                    p.bn[lvl].append(name)
                else:
                    p.b[lvl].append(name)
        return p

    def levels_binary(self):
        return [k for k in range(1, 11) if self.b[k] or self.bu[k] or self.bn[k] or self.bun[k]]


def is_symbol(name):
    return not (name[0].isalnum() or name[0] == '_')


class ExprGen:
    def __init__(self, rng, pools, max_depth=5, allow_code=True):
        self.rng = rng
        self.pools = pools
        self.max_depth = max_depth
        self.allow_code = allow_code
        self.stats = {'bin': 0, 'un': 0, 'nular': 0, 'num': 0, 'str': 0, 'var': 0, 'arr': 0, 'code': 0, 'bool': 0,
                      'assign': 0, 'levels': {}, 'classes': {}}

    # ---- trees ----------------------------------------------------------------------------
    def number(self):
        r = self.rng
        kind = r.weighted([('int', 8), ('dec', 2), ('exp', 1), ('hex', 1), ('ldot', 1)])
        if kind == 'int':
            v = r.below(1000)
            return ('num', str(v), str(v))
        if kind == 'dec':
            a = r.below(100)
            frac = r.choice(['5', '25', '75', '125', '0', '50'])
            val = a + int(frac) / (10 ** len(frac))
            return ('num', '%d.%s' % (a, frac), fmt_num(val))
        if kind == 'exp':
            a = r.below(9) + 1
            e = r.below(4)
            sign = r.choice(['', '+'])
            ech = r.choice(['e', 'E'])
            return ('num', '%d%s%s%d' % (a, ech, sign, e), str(a * 10 ** e))
        if kind == 'hex':
            v = r.below(4096)
            pre = r.choice(['0x', '$'])
            digits = '%x' % v
            digits = ''.join(c.upper() if r.chance(1, 2) else c for c in digits)
            return ('hex', pre + digits, str(v))
        frac = r.choice(['5', '25', '75'])
        return ('num', '.' + frac, fmt_num(int(frac) / (10 ** len(frac))))

    def string(self):
        r = self.rng
        n = r.below(6)
        alphabet = [b'a', b'B', b' ', b'"', b"'", b'\n', b'\\', b'{', b'}', b'1', b';', b'\xe4', b'\t', b'%']
        raw = b''.join(r.choice(alphabet) for _ in range(n))
        return ('str', raw, r.choice(['"', '"', "'"]))

    def var(self):
        r = self.rng
        base = r.choice(['_x', '_i', 'foo', 'Bar', 'x1', '_', 'tr', 'fn_abc', 'T', 'p', 'f', 'tru', 'privat', 'falsey'])
        return ('var', base)

    def leaf(self):
        r = self.rng
        k = r.weighted([('num', 5), ('var', 4), ('str', 2), ('bool', 1), ('nular', 3)])
        self.stats[k] = self.stats.get(k, 0) + 1
        if k == 'num':
            return self.number()
        if k == 'var':
            return self.var()
        if k == 'str':
            return self.string()
        if k == 'bool':
            return ('bool', r.chance(1, 2))
        p = self.pools
        cands = []
        if p.n:
            cands.append(('n', 3))
        if any(p.bn.values()):
            cands.append(('bn', 2))
        if any(p.bun.values()):
            cands.append(('bun', 2))
        if not cands:
            return self.number()
        c = r.weighted(cands)
        if c == 'n':
            return ('nular', r.choice(p.n), 'n')
        table = p.bn if c == 'bn' else p.bun
        lv = r.choice([k for k in table if table[k]])
        return ('nular', r.choice(table[lv]), c)

    def expr(self, depth=0):
        r = self.rng
        if depth >= self.max_depth or r.chance(1, 4 + depth):
            return self.leaf()
        k = r.weighted([('bin', 10), ('un', 4), ('arr', 2), ('code', 2 if self.allow_code else 0), ('leaf', 2)])
        if k == 'leaf':
            return self.leaf()
        p = self.pools
        if k == 'bin':
            lv = r.choice(p.levels_binary())
            classes = [(c, len(t[lv])) for c, t in (('b', p.b), ('bu', p.bu), ('bn', p.bn), ('bun', p.bun)) if t[lv]]
            c = r.weighted([(c, 1 + min(w, 5)) for c, w in classes])
            name = r.choice({'b': p.b, 'bu': p.bu, 'bn': p.bn, 'bun': p.bun}[c][lv])
            self.stats['bin'] += 1
            self.stats['levels'][lv] = self.stats['levels'].get(lv, 0) + 1
            self.stats['classes'][c] = self.stats['classes'].get(c, 0) + 1
            return ('bin', lv, name, self.expr(depth + 1), self.expr(depth + 1))
        if k == 'un':
            if r.chance(1, 6) and 6 in p.bu and '-' in p.bu[6]:
                # signs: in front of a literal, of a signed literal (a chain of signs), of something that is no literal
                self.stats['un'] += 1
                self.stats['classes']['un:sign'] = self.stats['classes'].get('un:sign', 0) + 1
                inner = r.weighted([('num', 3), ('chain', 4), ('other', 2)])
                if inner == 'num':
                    return ('un', r.choice(['+', '-']), self.number())
                if inner == 'chain':
                    e = self.number()
                    for _ in range(1 + r.below(3)):
                        e = ('un', r.choice(['+', '-']), e)
                    return ('un', r.choice(['+', '-']), e)
                return ('un', r.choice(['+', '-']), self.expr(depth + 1))
            cands = [('u', 4)]
            if any(p.bu.values()):
                cands.append(('bu', 3))
            if any(p.bun.values()):
                cands.append(('bun', 2))
            cands.append(('private', 1))
            c = r.weighted(cands)
            if c == 'u':
                name = r.choice(p.u)
            elif c == 'private':
                name = 'private'
            else:
                t = p.bu if c == 'bu' else p.bun
                lv = r.choice([k2 for k2 in t if t[k2]])
                name = r.choice(t[lv])
            self.stats['un'] += 1
            self.stats['classes']['un:' + c] = self.stats['classes'].get('un:' + c, 0) + 1
            return ('un', name, self.expr(depth + 1))
        if k == 'arr':
            self.stats['arr'] += 1
            return ('arr', [self.expr(depth + 1) for _ in range(r.below(4))])
        self.stats['code'] += 1
        return ('code', self.statements(depth + 1))

    def statement(self, depth=0):
        r = self.rng
        k = r.weighted([('expr', 6), ('assign', 2), ('assignl', 1)])
        if k == 'expr':
            return self.expr(depth)
        self.stats['assign'] += 1
        name = r.choice(['a', '_b', 'Foo', '_x', 'tr'])
        return (k, name, self.expr(depth))

    def statements(self, depth=0):
        return [self.statement(depth) for _ in range(self.rng.below(4))]

    # ---- rendering ------------------------------------------------------------------------
    def randcase(self, s):
        r = self.rng
        mode = r.below(4)
        if mode == 0:
            return s
        if mode == 1:
            return s.upper()
        if mode == 2:
            return s[:1].upper() + s[1:]
        return ''.join(c.upper() if r.chance(1, 2) else c for c in s)

    def toks(self, t, ctx_level=0, side='none', under_unary=False):
        """token list (bytes) for tree t. ctx_level: level of the enclosing binary operator (0 = none);
        side: 'l' / 'r' / 'none'."""
        r = self.rng
        kind = t[0]
        out = None
        need = False
        if kind == 'num' or kind == 'hex':
            out = [t[1].encode()]
        elif kind == 'str':
            q = t[2].encode()
            out = [q + t[1].replace(q, q + q) + q]
        elif kind == 'var':
            out = [t[1].encode()]
        elif kind == 'bool':
            out = [self.randcase('true' if t[1] else 'false').encode()]
        elif kind == 'nular':
            out = [self.randcase(t[1]).encode()]
            if t[2] == 'bun':
                need = True          # a BUN operand directly before an operand-start token would read as unary
        elif kind == 'un':
            out = [self.randcase(t[1]).encode()] + self.toks(t[2], 0, 'none', True)
        elif kind == 'bin':
            lv = t[1]
            out = self.toks(t[3], lv, 'l') + [self.randcase(t[2]).encode()] + self.toks(t[4], lv, 'r')
            if under_unary:
                need = True
            elif side == 'l' and lv < ctx_level:
                need = True
            elif side == 'r' and lv <= ctx_level:
                need = True
        elif kind == 'arr':
            out = [b'[']
            for i, e in enumerate(t[1]):
                if i:
                    out.append(b',')
                out += self.toks(e)
            out.append(b']')
        elif kind == 'code':
            out = [b'{'] + self.stmt_toks(t[1]) + [b'}']
        elif kind == 'assign':
            out = [t[1].encode(), b'='] + self.toks(t[2])
        elif kind == 'assignl':
            out = [self.randcase('private').encode(), t[1].encode(), b'='] + self.toks(t[2])
        if kind in ('assign', 'assignl'):
            return out
        if need or r.chance(1, 8):
            out = [b'('] + out + [b')']
            if r.chance(1, 10):
                out = [b'('] + out + [b')']
        return out

    def stmt_toks(self, stmts):
        r = self.rng
        out = []
        if r.chance(1, 8):
            out.append(r.choice([b';', b',']))
        for i, s in enumerate(stmts):
            if i:
                out.append(b';' if r.chance(4, 5) else b',')
                if r.chance(1, 10):
                    out.append(b';')
            out += self.toks(s)
        if stmts and r.chance(1, 3):
            out.append(b';')
        return out

    def join(self, toks):
        """concatenate tokens with random white space; a separator is mandatory unless one of the two
        neighbours is a bracket / separator character"""
        r = self.rng
        free = set(b'()[]{};,')
        out = bytearray()
        if r.chance(1, 6):
            out += r.choice(WS)
        for i, t in enumerate(toks):
            if i:
                prev = toks[i - 1]
                optional = (prev[-1] in free) or (t[0] in free)
                if optional and r.chance(1, 2):
                    pass
                else:
                    out += r.choice(WS)
            out += t
        if r.chance(1, 6):
            out += r.choice(WS)
        return bytes(out)

    def render_program(self, stmts):
        return self.join(self.stmt_toks(stmts))


def fmt_num(v):
    if v == int(v):
        return str(int(v))
    s = '%.9g' % v
    return s


# ---- expected listing (post-order of the documented reading) --------------------------------------
def render_str_value(raw):
    return b'"' + raw.replace(b'"', b'""') + b'"'


def expected(t):
    k = t[0]
    if k == 'num' or k == 'hex':
        return [b'P:' + t[2].encode()]
    if k == 'str':
        return [b'P:' + render_str_value(t[1])]
    if k == 'var':
        return [b'g:' + t[1].encode()]
    if k == 'bool':
        return [b'P:true' if t[1] else b'P:false']
    if k == 'nular':
        return [b'n:' + t[1].lower().encode()]
    if k == 'un':
        c = t[2]
        if c[0] in ('num', 'hex') and t[1] in ('+', '-'):
            v = c[2]
            if t[1] == '-':
                v = '-' + v
            return [b'P:' + v.encode()]
        if t[1] in ('+', '-') and c[0] == 'un' and c[1] in ('+', '-'):
            # a sign in front of a signed literal belongs to the literal as well
            ce = expected(c)
            if len(ce) == 1 and ce[0].startswith(b'P:') and re.fullmatch(rb'P:-?[0-9.e+]+', ce[0]):
                v = ce[0][2:]
                if t[1] == '-':
                    v = v[1:] if v.startswith(b'-') else b'-' + v
                return [b'P:' + v]
        return expected(c) + [b'u:' + t[1].lower().encode()]
    if k == 'bin':
        return expected(t[3]) + expected(t[4]) + [('b%d:' % t[1]).encode() + t[2].lower().encode()]
    if k == 'arr':
        out = []
        for e in t[1]:
            out += expected(e)
        return out + [('a:%d' % len(t[1])).encode()]
    if k == 'code':
        return [b'P:{' + b' '.join(expected_stmts(t[1])) + b'}']
    if k == 'assign':
        return expected(t[2]) + [b'=:' + t[1].encode()]
    if k == 'assignl':
        return expected(t[2]) + [b'=l:' + t[1].encode()]
    raise ValueError(k)


def expected_stmts(stmts):
    out = []
    for i, s in enumerate(stmts):
        if i:
            out.append(b';')
        out += expected(s)
    return out


def tree_size(t):
    k = t[0]
    if k == 'un':
        return 1 + tree_size(t[2])
    if k == 'bin':
        return 1 + tree_size(t[3]) + tree_size(t[4])
    if k in ('arr', 'code'):
        return 1 + sum(tree_size(e) for e in t[1])
    if k in ('assign', 'assignl'):
        return 1 + tree_size(t[2])
    return 1
