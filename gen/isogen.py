"""Programs for the isolation check (C20): P observes what process-wide state could leak into — number
formatting, preprocessor counters, type registration, global variables, containers — and Q disturbs it."""


class IsoGen:
    def __init__(self, rng):
        self.r = rng
        self.stats = {}

    def note(self, k):
        self.stats[k] = self.stats.get(k, 0) + 1

    def observer(self):
        r = self.r
        parts = []
        for _ in range(2 + r.below(6)):
            k = r.weighted([('str', 5), ('counter', 4), ('format', 2), ('tofixed_bin', 2), ('global', 3), ('type', 2), ('arr', 2),
                            ('tofixed_mode', 2), ('line', 1), ('hash', 1), ('eval', 2)])
            self.note('P:' + k)
            if k == 'str':
                parts.append('diag_log str %s' % r.choice(['1.5', '(10 / 3)', '123456789', '0.1', '[1.25, 2]', '1e-5']))
            elif k == 'counter':
                parts.append('diag_log str [__COUNTER__, __COUNTER__]')
            elif k == 'format':
                parts.append('diag_log format ["%1 %2", 2.5, "x"]')
            elif k == 'tofixed_bin':
                parts.append('diag_log (1.23456 toFixed %d)' % r.below(4))
            elif k == 'tofixed_mode':
                parts.append('toFixed %d; diag_log str 2.5; toFixed -1' % r.below(4))
            elif k == 'global':
                g = r.choice(['ga', 'gb'])
                parts.append(r.choice(['diag_log str (isNil "%s")' % g, '%s = 3; diag_log str %s' % (g, g)]))
            elif k == 'type':
                parts.append('diag_log str [typeName [], typeName 1, typeName "", typeName {}, typeName createHashMap, typeName true]')
            elif k == 'arr':
                parts.append('private _a = [3, 1, 2]; _a sort true; diag_log str _a')
            elif k == 'line':
                parts.append('diag_log str __LINE__')
            elif k == 'eval':
                # numbers that are printed while the text is preprocessed
                parts.append(r.choice(['diag_log str __EVAL(2/3)', 'diag_log str (__EVAL(1/4) * 4)', 'diag_log str [__EVAL(10/3), __EVAL(1.23456)]']))
            else:
                parts.append('private _h = createHashMap; _h set ["k", 1.5]; diag_log str (_h get "k")')
        return ';\n'.join(parts) + ';'

    def disturber(self):
        r = self.r
        parts = []
        for _ in range(1 + r.below(4)):
            k = r.weighted([('tofixed', 5), ('counter', 4), ('globals', 3), ('reset', 1), ('types', 2), ('error', 1), ('loop', 1), ('eval_tofixed', 3)])
            self.note('Q:' + k)
            if k == 'tofixed':
                parts.append('toFixed %d; diag_log str 1.5' % r.below(6))
            elif k == 'counter':
                parts.append('; '.join(['diag_log str __COUNTER__'] * (1 + r.below(4))))
            elif k == 'eval_tofixed':
                # the print mode is set by an expression the preprocessor evaluates (it does not come through execute())
                parts.append('gq = [__EVAL(toFixed %d)]; diag_log str 1.5' % r.below(4))
            elif k == 'globals':
                parts.append('ga = %d; gb = "q"' % r.below(9))
            elif k == 'reset':
                parts.append('__COUNTER_RESET__ diag_log 1')
            elif k == 'types':
                parts.append('diag_log str [createHashMap, configFile, objNull, grpNull, scriptNull, {}, text "a"]')
            elif k == 'error':
                parts.append('1 + "a"')
            else:
                parts.append('for "_i" from 0 to 50 do { ga = _i }')
        return ';\n'.join(parts) + ';'
