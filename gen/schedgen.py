"""Generator of multi-script programs for the scheduler (C12, C03-spawn, C11): a main (unscheduled)
script spawns scripts whose statements append `[script id, step]` markers to the global `tr`; script
lengths are chosen around multiples of the 150-instruction slice; sleep / spawn / scriptDone /
terminate events are placed at random points."""


class SchedGen:
    def __init__(self, rng, max_scripts=4):
        self.r = rng
        self.max_scripts = max_scripts
        self.expected = {}
        self.terminates = False
        self.stats = {'scripts': 0, 'sleep': 0, 'terminate': 0, 'scriptDone': 0, 'nested_spawn': 0, 'waituntil': 0}

    def body(self, sid, handles, depth=0):
        """returns the script text; the markers the script appends when it runs alone and to the end
        are recorded in self.expected[sid] (scriptDone results excluded: they depend on the others)"""
        r = self.r
        parts = []
        step = 0
        exp = self.expected.setdefault(sid, [])
        if depth == 0:
            self.nested = 0
        for _ in range(1 + r.below(4)):
            k = r.weighted([('loop', 5), ('mark', 3), ('sleep', 3), ('done', 2), ('term', 1), ('spawn', 1 if depth == 0 else 0), ('wait', 1)])
            if k == 'loop':
                # one iteration is about 12 instructions; lengths straddle the slice boundary
                n = r.choice([1, 3, 11, 12, 13, 24, 25, 26, 40, 60])
                parts.append('for "_i" from 1 to %d do { tr pushBack [%d, _i] }' % (n, sid))
                exp += [i for i in range(1, n + 1)]
            elif k == 'mark':
                step += 1
                parts.append('tr pushBack [%d, %d]' % (sid, 1000 + step))
                exp.append(1000 + step)
            elif k == 'sleep':
                self.stats['sleep'] += 1
                parts.append('sleep %s' % r.choice(['0.001', '0.005', '0.01', '0.02', '0']))
            elif k == 'done' and handles:
                self.stats['scriptDone'] += 1
                parts.append('tr pushBack [%d, scriptDone %s]' % (sid, r.choice(handles)))
            elif k == 'term' and handles:
                self.stats['terminate'] += 1
                self.terminates = True
                parts.append('terminate %s' % r.choice(handles))
            elif k == 'spawn':
                self.stats['nested_spawn'] += 1
                self.nested += 1
                nid = sid * 10 + self.nested
                parts.append('h%d = [] spawn { %s }' % (nid, self.body(nid, handles, depth + 1)))
            elif k == 'wait' and handles:
                self.stats['waituntil'] += 1
                h = r.choice(handles)
                # the wait only ends when its condition holds: behind it the other script is done
                parts.append('waitUntil { scriptDone %s }; tr pushBack [%d, if (scriptDone %s) then {3001} else {3000}]' % (h, sid, h))
                exp.append(3001)
            else:
                step += 1
                parts.append('tr pushBack [%d, %d]' % (sid, 1000 + step))
                exp.append(1000 + step)
        step += 1
        parts.append('tr pushBack [%d, %d]' % (sid, 2000))
        exp.append(2000)
        return '; '.join(parts)

    def program(self):
        r = self.r
        self.expected = {}
        self.terminates = False
        n = 1 + r.below(self.max_scripts)
        self.stats['scripts'] += n
        stmts = ['tr = []']
        handles = []
        for sid in range(1, n + 1):
            stmts.append('h%d = [] spawn { %s }' % (sid, self.body(sid, list(handles))))
            handles.append('h%d' % sid)
            if r.chance(1, 3):
                stmts.append('tr pushBack [0, scriptDone h%d]' % sid)
            if r.chance(1, 6):
                self.terminates = True
                stmts.append('terminate h%d' % r.choice(range(1, sid + 1)))
        stmts.append('tr pushBack [0, 2000]')
        return '; '.join(stmts)
