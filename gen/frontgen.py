"""Inputs for the front-end totality check (C10): valid SQF, config and preprocessor sources and their
truncations and single-token mutations, plus scaling inputs (deep nesting, long inputs, recursive macros
and includes)."""
import proggen
import cfggen


class PpGen:
    """small preprocessor sources: object- and function-like macros, conditionals, includes, strings, comments"""
    def __init__(self, rng):
        self.r = rng

    def source(self):
        r = self.r
        lines = []
        files = {}
        names = ['A', 'B', 'MAX', 'F', 'G', 'QUOTE', 'GLUE']
        defined = []
        for _ in range(2 + r.below(8)):
            k = r.weighted([('define', 4), ('fdefine', 3), ('use', 5), ('ifdef', 2), ('include', 1), ('comment', 2), ('string', 2), ('undef', 1), ('multiline', 1)])
            if k == 'define':
                n = r.choice(names)
                lines.append('#define %s %s' % (n, r.choice(['1', '(2 + 3)', '"text"', 'B', '', 'x y'])))
                defined.append((n, 0))
            elif k == 'fdefine':
                n = r.choice(names)
                lines.append('#define %s(a,b) %s' % (n, r.choice(['(a + b)', 'a##b', '#a', '[a, b]', 'a', 'G(a,b)'])))
                defined.append((n, 2))
            elif k == 'multiline':
                n = r.choice(names)
                lines.append('#define %s(a,b) a \\\n + \\\n b' % n)
                defined.append((n, 2))
            elif k == 'use' and defined:
                n, ar = r.choice(defined)
                lines.append('x = %s;' % (n if ar == 0 else '%s(%s,%s)' % (n, r.choice(['1', 'B', '[1,2]', '"a,b"', '']), r.choice(['2', 'A', '(3,4)']))))
            elif k == 'ifdef':
                n = r.choice(names)
                lines.append('#%s %s' % (r.choice(['ifdef', 'ifndef']), n))
                lines.append('y = 1;')
                if r.chance(1, 2):
                    lines.append('#else')
                    lines.append('y = 2;')
                lines.append('#endif')
            elif k == 'include':
                fn = 'inc%d.hpp' % r.below(3)
                files[fn] = '#define INC%d 1\nz = %d;\n' % (r.below(3), r.below(9))
                lines.append('#include "%s"' % fn)
            elif k == 'comment':
                lines.append(r.choice(['// line comment A', 'a = 1; /* block A */ b = 2;', '/* multi\nline A */']))
            elif k == 'string':
                lines.append('s = "A // not a comment /* A */ #define";')
            elif k == 'undef' and defined:
                lines.append('#undef %s' % r.choice(defined)[0])
            else:
                lines.append('q = 1;')
        return '\n'.join(lines) + ('\n' if r.chance(1, 2) else ''), files


class FrontGen:
    def __init__(self, rng):
        self.r = rng
        self.pg = proggen.ProgGen(rng.fork('fprog'), max_depth=2)
        self.cg = cfggen.CfgGen(rng.fork('fcfg'))
        self.ppg = PpGen(rng.fork('fpp'))
        self.stats = {}

    def note(self, k):
        self.stats[k] = self.stats.get(k, 0) + 1

    def seed(self):
        """(kind, text, files)"""
        r = self.r
        k = r.weighted([('sqf', 4), ('cfg', 3), ('pp', 4)])
        if k == 'sqf':
            return 'sqf', self.pg.program(), {}
        if k == 'cfg':
            return 'cfg', self.cg.render_load(self.cg.load()), {}
        t, files = self.ppg.source()
        return 'pp', t, files

    def mutate(self, text):
        r = self.r
        k = r.weighted([('truncate', 6), ('delete', 3), ('insert', 4), ('dup', 2), ('swap', 1), ('byte', 2)])
        self.note('mut:' + k)
        if not text:
            return k, text
        if k == 'truncate':
            return k, text[:r.below(len(text) + 1)]
        toks = ['"', "'", '/*', '//', '*/', '{', '}', '[', ']', '(', ')', ';', ',', '#', '\\\n', '#define X(', '#include "', '#ifdef', '#else', '#endif',
                'class', ':', '=', '+=', '\n', '\0', '\xff', '0x', '1e', '##', '__EVAL(', '__LINE__', '#line 5 "f"', '#line x']
        i = r.below(len(text) + 1)
        if k == 'insert':
            return k, text[:i] + r.choice(toks) + text[i:]
        if k == 'delete':
            j = min(len(text), i + 1 + r.below(6))
            return k, text[:i] + text[j:]
        if k == 'dup':
            j = min(len(text), i + 1 + r.below(12))
            return k, text[:j] + text[i:j] + text[j:]
        if k == 'swap':
            j = r.below(len(text) + 1)
            a, b = min(i, j), max(i, j)
            return k, text[:a] + text[b:] + text[a:b]
        return k, text[:i] + chr(r.below(256)) + text[i + 1:]

    def scaling(self):
        """(kind, text, files, label): inputs whose cost must stay proportional to their size"""
        out = []
        for n in (2000, 9000):
            out.append(('sqf', '[' * n + ']' * n, {}, 'nested arrays %d' % n))
            out.append(('sqf', '{' * n + '}' * n, {}, 'nested code %d' % n))
            out.append(('sqf', '(' * n + '1' + ')' * n, {}, 'nested parentheses %d' % n))
            out.append(('sqf', 'a = ' + '1 + ' * n + '1', {}, 'long sum %d' % n))
            out.append(('cfg', 'class A {' * n + '};' * n, {}, 'nested classes %d' % n))
            out.append(('cfg', 'class A { a[] = ' + '{' * n + '}' * n + '; };', {}, 'nested config arrays %d' % n))
            out.append(('pp', '#define A 1\n' + 'A ' * n, {}, 'many expansions %d' % n))
            out.append(('pp', ''.join('#define M%d M%d\n' % (i, i + 1) for i in range(min(n, 400))) + '#define M%d 7\nM0' % min(n, 400), {}, 'macro chain %d' % min(n, 400)))
        for n in (20000, 300000):
            out.append(('sqf', '[' * n, {}, 'unclosed brackets %d' % n))
            out.append(('sqf', '[' * n + ']' * n, {}, 'too deeply nested arrays %d' % n))
            out.append(('cfg', 'class A {' * n, {}, 'unclosed classes %d' % n))
        out.append(('pp', '#define A A\nA', {}, 'self-recursive macro'))
        out.append(('pp', '#define A B\n#define B C\n#define C A\nA', {}, 'mutually recursive macros'))
        out.append(('pp', '#define F(x) F(x)\nF(1)', {}, 'self-recursive function-like macro'))
        out.append(('pp', '#define F(A,,B) x\nF(1,2,3)', {}, 'empty parameter name'))
        # cycles that pass through the argument of a function-like macro
        out.append(('pp', '#define F(x) x\n#define A F(A)\nA\n', {}, 'macro cycle through an argument'))
        out.append(('pp', '#define F(x) G(x)\n#define G(x) x\n#define A F(B)\n#define B G(A)\nA\n', {}, 'macro cycle through nested arguments'))
        out.append(('preprocess', '#define F(x) x\n#define A F(A)\nA\n', {}, 'macro cycle through an argument, from a script'))
        out.append(('pp', '#define F(x) [x, x]\n#define A F(F(A))\nx = A;\n', {}, 'macro cycle through a nested call in an argument'))
        # evaluated expressions: broken ones, several in one text, one inside the text another one preprocesses
        out.append(('pp', 'a __EVAL(1 +) b __EVAL(1 + 2) c', {}, 'EVAL behind a broken EVAL'))
        out.append(('pp', '__EXEC(x = )\n__EXEC(y = 2)\n__EVAL(y)', {}, 'EXEC behind a broken EXEC'))
        out.append(('preprocess', 'a __EVAL(1 +) b', {}, 'broken EVAL, from a script'))
        out.append(('preprocess', 'c __EVAL(1 + 2) d __EVAL([1, 2) e __EVAL("s") f', {}, 'several EVALs, one broken, from a script'))
        out.append(('pp', '__EVAL(preprocess__ "__EVAL(7)")', {}, 'EVAL inside the text an EVAL preprocesses'))
        out.append(('pp', '__EVAL(compile "1 +")', {}, 'EVAL whose expression fails at run time'))
        # time proportional to the input: long flat inputs of every kind
        for n in (20000, 80000):
            out.append(('sqf', '[' + '1,' * n + '1]', {}, 'array literal with %d elements' % n))
            out.append(('compile', '[' + '1,' * n + '1]', {}, 'array literal with %d elements, compiled' % n))
            out.append(('sqf', 'a = 1;' * n, {}, '%d statements' % n))
            out.append(('sqf', '[' + '[1],' * (n // 2) + '[2]]', {}, 'array of %d arrays' % (n // 2)))
            out.append(('sqf', 'a = "' + 'x' * n + '"; b = \'' + 'y""' * (n // 4) + '\';', {}, 'strings of %d characters' % n))
            out.append(('cfg', 'class A { a[] = {' + '1,' * n + '1}; };', {}, 'config array with %d elements' % n))
            out.append(('cfg', 'class A { ' + 'x = 1; ' * n + '};', {}, 'config class with %d fields' % n))
            out.append(('cfg', 'class A {};' * n, {}, '%d config classes' % n))
            out.append(('pp', '#define F(a) a\nx = F(' + '1 + ' * (n // 4) + '1);', {}, 'macro argument of %d tokens' % (n // 4)))
            out.append(('pp', '/**/' * n + 'a = 1;', {}, '%d adjacent comments' % n))
            out.append(('pp', 'a = 1 + \\\n' * (n // 4) + '1;', {}, '%d line continuations' % (n // 4)))
        out.append(('pp', '/**/' * 1000000 + 'a = 1;', {}, '1000000 adjacent comments'))
        out.append(('pp', '#include "main.sqf"', {}, 'self include'))
        out.append(('pp', '#include "a.hpp"', {'a.hpp': '#include "b.hpp"', 'b.hpp': '#include "a.hpp"'}, 'mutual include'))
        out.append(('pp', '__EXEC(x = 1)', {}, 'EXEC without value'))
        # numbers at the edge of what the scanners convert: #line counts, scalars, hexadecimal literals, config numbers
        for digits in (17, 18, 19, 20, 21, 40):
            out.append(('sqf', 'a = 1; #line %s "x.sqf"\nb = 2;' % ('9' * digits), {}, '#line with %d digits' % digits))
            out.append(('compile', '#line %s "x.sqf"\n1 + 1' % ('9' * digits), {}, '#line with %d digits, compiled' % digits))
            out.append(('sqf', 'a = %s;' % ('9' * digits), {}, 'number with %d digits' % digits))
            out.append(('sqf', 'a = 0x%s;' % ('F' * digits), {}, 'hexadecimal with %d digits' % digits))
            out.append(('sqf', 'a = 1e%s;' % ('9' * digits), {}, 'exponent with %d digits' % digits))
            out.append(('cfg', 'class A { x = %s; y = 1e%s; z[] = {%s}; };' % ('9' * digits, '9' * digits, '9' * digits), {}, 'config numbers with %d digits' % digits))
            out.append(('cfg', '#line %s "x.cpp"\nclass A { v = 1; };' % ('9' * digits), {}, 'config #line with %d digits' % digits))
            out.append(('configparse', '#line %s "x.cpp"\nclass A { v = 1; };' % ('9' * digits), {}, 'config #line with %d digits, from a script' % digits))
            out.append(('cfg', 'class A { v = 0x%s; w = $%s; };' % ('F' * digits, 'F' * digits), {}, 'config hexadecimal with %d digits' % digits))
        out.append(('sqf', '#line 18446744073709551615 "x"\n1', {}, '#line 2^64-1'))
        out.append(('sqf', '#line 18446744073709551616 "x"\n1', {}, '#line 2^64'))
        out.append(('sqf', '#line 1 "' + 'p' * 100000 + '"\n1', {}, '#line with a long path'))
        out.append(('cfg', '#line 18446744073709551615 "x"\nclass A {};', {}, 'config #line 2^64-1'))
        out.append(('cfg', '#line 18446744073709551616 "x"\nclass A {};', {}, 'config #line 2^64'))
        out.append(('cfg', '#line', {}, 'config #line alone'))
        out.append(('cfg', '#line 1 "', {}, 'config #line with an open path'))
        out.append(('sqf', '#line', {}, '#line alone'))
        out.append(('sqf', '#line 1', {}, '#line without path'))
        out.append(('sqf', '#line 1 "', {}, '#line with an open path'))
        return out
