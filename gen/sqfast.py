"""AST-level generator, renderer and *reference interpreter* for the control-structure fragment of SQF
(C02, C03, C04).  The reference interpreter is written directly from the language semantics the
properties state (structured, recursive, no frames, no value stack): it is the independent oracle
against which the implementation's observable behaviour (`tr`, globals, final value) is compared.

Values: int | bool | str | list (arrays, by reference) | None (nil).
"""


class Nil:
    def __repr__(self):
        return 'nil'


NIL = None


class ExitScope(Exception):        # exitWith: leaves the scope that contains the `if … exitWith`
    def __init__(self, value):
        self.value = value


class BreakOut(Exception):
    def __init__(self, name, value):
        self.name = name
        self.value = value


class Thrown(Exception):
    def __init__(self, value):
        self.value = value


class RuntimeErr(Exception):
    """a runtime error; `injected` = raised by a deliberately ill-typed operation (certain to be an
    error-level diagnostic in the implementation), as opposed to a nil operand (only a warning there)"""
    def __init__(self, msg='', injected=False):
        Exception.__init__(self, msg)
        self.injected = injected


# ---------------------------------------------------------------------------------------------------
# generator
# ---------------------------------------------------------------------------------------------------
class Gen:
    def __init__(self, rng, max_depth=3, scoping=False, errors=False):
        self.r = rng
        self.max_depth = max_depth
        self.scoping = scoping
        self.errors = errors
        self.uid = 0
        self.stats = {}

    def note(self, k):
        self.stats[k] = self.stats.get(k, 0) + 1

    def fresh(self, p):
        self.uid += 1
        return '%s%d' % (p, self.uid)

    def spell(self, name):
        """random letter case of a variable name (C03: names are case-insensitive)"""
        if not self.scoping or self.r.chance(2, 3):
            return name
        return ''.join(c.upper() if self.r.chance(1, 2) else c.lower() for c in name)

    # env: {'loc': [names assignable], 'ro': [read-only numeric names], 'x': bool, 'fei': bool, 'this': bool, 'exc': bool, 'arrs': [...]}
    def num(self, env, depth=0):
        r = self.r
        ch = [('lit', 5)]
        names = env['loc'] + env['ro']
        if names:
            ch.append(('var', 5))
        if env['globs']:
            ch.append(('glob', 2))
        if depth < 2:
            ch.append(('bin', 4))
        if env.get('x'):
            ch.append(('x', 4))
        if env.get('fei'):
            ch.append(('fei', 2))
        if env.get('this'):
            ch.append(('this', 2))
        if env.get('exc'):
            ch.append(('exc', 2))
        if env['arrs'] and depth < 2:
            ch.append(('cnt', 1))
        if self.errors and r.chance(1, 30):
            self.note('err:expr')
            return ('err', r.choice(['(1 + "a")', '(true + 1)', '(call 5)', '([] select 5)']))
        k = r.weighted(ch)
        if k == 'lit':
            return ('n', r.below(10))
        if k == 'var':
            return ('v', r.choice(names))
        if k == 'glob':
            return ('g', r.choice(env['globs']))
        if k == 'x':
            return ('v', '_x')
        if k == 'fei':
            return ('v', '_forEachIndex')
        if k == 'this':
            return ('v', '_this')
        if k == 'exc':
            return ('v', '_exception')
        if k == 'cnt':
            return ('cnt', ('v', r.choice(env['arrs'])))
        op = r.choice(['+', '-', '*', '+'])
        a = self.num(env, depth + 1)
        b = self.num(env, depth + 1) if op != '*' else ('n', r.below(4))
        return ('bin', op, a, b)

    def boolean(self, env, depth=0):
        r = self.r
        k = r.weighted([('cmp', 6), ('lit', 2), ('not', 1), ('and', 2 if depth < 1 else 0), ('lazy', 2 if depth < 1 else 0)])
        if k == 'lit':
            return ('b', r.chance(1, 2))
        if k == 'not':
            return ('not', self.boolean(env, depth + 1))
        if k == 'and':
            return ('and', r.choice(['&&', '||', 'and', 'or']), self.boolean(env, depth + 1), self.boolean(env, depth + 1))
        if k == 'lazy':
            self.note('lazy')
            return ('lazy', r.choice(['&&', '||', 'and', 'or']), self.boolean(env, depth + 1), self.num(env), self.boolean(env, depth + 1))
        return ('cmp', r.choice(['<', '<=', '>', '>=', '==', '!=']), self.num(env), self.num(env))

    def arr(self, env):
        return ('arr', [self.num(env, 1) for _ in range(self.r.below(5))])

    def sub(self, env, **kw):
        e = dict(env)
        e['loc'] = list(env['loc'])
        e['ro'] = list(env['ro'])
        e['arrs'] = list(env['arrs'])
        e['globs'] = list(env['globs'])
        e.update(kw)
        return e

    def block(self, env, depth, value=False):
        env = self.sub(env)
        n = self.r.below(3) + (0 if value else 1)
        stmts = [self.stmt(env, depth) for _ in range(n)]
        val = None
        if value:
            val = self.num(env) if self.r.chance(3, 4) or depth >= self.max_depth else self.vexpr(env, depth + 1)
        return ('block', stmts, val)

    def switch(self, env, depth, value):
        r = self.r
        self.note('switch')
        subj = self.num(env)
        cases = []
        for _ in range(1 + r.below(3)):
            labels = [('n', r.below(6)) for _ in range(1 + (1 if r.chance(1, 4) else 0))]
            cases.append((labels, self.block(env, depth + 1, value)))
        default = self.block(env, depth + 1, value) if r.chance(2, 3) else None
        pos = r.below(len(cases) + 1)
        if r.chance(1, 2):
            # the subject is the label of one of the cases (mostly the first one): a case that matches leaves its own
            # leftovers in the part of the stack that belongs to the switch body
            self.note('switch:subject is a label')
            subj = cases[0 if r.chance(2, 3) else r.below(len(cases))][0][0]
        # some of the leading cases may stand in a block that the switch body calls (a shared case list): the first match
        # still wins, wherever it was found
        wrapn = r.below(min(pos, len(cases)) + 1) if r.chance(1, 3) else 0
        if wrapn:
            self.note('switch:cases in a called block')
        return ('switch', subj, cases, default, pos, wrapn)

    def vexpr(self, env, depth):
        """a value-yielding construct used as an expression"""
        r = self.r
        if depth >= self.max_depth:
            return self.num(env)
        k = r.weighted([('num', 2), ('call', 3), ('ifelse', 3), ('switch', 2), ('count', 2), ('findif', 2), ('callargs', 2),
                        ('try', 2), ('breakout', 3), ('exitwith', 2), ('inarr', 2), ('selnum', 1), ('isnil', 1),
                        ('exc', 3 if self.errors else 0), ('excexit', 2 if self.errors else 0), ('rethrow', 1),
                        ('exitpend', 2), ('trypend', 2)])
        self.note('v:' + k)
        if k == 'num':
            return self.num(env)
        if k == 'call':
            return ('call', self.block(env, depth + 1, True))
        if k == 'callargs':
            return ('callargs', self.num(env), self.block(self.sub(env, this=True), depth + 1, True))
        if k == 'ifelse':
            return ('ifelse', self.boolean(env), self.block(env, depth + 1, True), self.block(env, depth + 1, True))
        if k == 'switch':
            return self.switch(env, depth + 1, True)
        if k == 'count':
            return ('countc', self.boolean(self.sub(env, x=True)), self.arr(env), self.prex(env))
        if k == 'findif':
            return ('findif', self.arr(env), self.boolean(self.sub(env, x=True)), self.prex(env))
        if k == 'try':
            return ('try', self.num(env), self.boolean(env), self.num(env), self.num(env), self.num(self.sub(env, exc=True)))
        if k == 'breakout':
            # few names: the same scope name is met again in dynamically enclosing scopes
            return ('breakout', r.choice(['sa', 'sb']), self.num(env), self.num(env), r.below(5), self.num(env))
        if k == 'exitpend':
            # a block left by exitWith while it has operands pending, a nil among them
            return ('exitpend', self.num(env), self.boolean(env), self.num(env), self.num(env))
        if k == 'trypend':
            # a try block that has an operand pending when a block it called throws
            return ('trypend', self.num(env), self.num(env))
        if k == 'rethrow':
            return ('rethrow', self.num(env), self.num(env), self.num(env), self.num(env), r.chance(1, 2))
        if k == 'exc':
            return self.handler(env, depth, True)
        if k == 'excexit':
            inj = lambda e: ('err', r.choice(['(1 + "a")', '([] select 5)'])) if r.chance(1, 2) else e
            return ('excexit', self.boolean(env), self.num(env), inj(self.num(env)), self.num(env), inj(self.num(env)), self.num(env), self.num(env))
        if k == 'exitwith':
            return ('exitwithv', self.boolean(env), self.num(env), self.num(env), self.num(env), self.num(env))
        if k == 'inarr':
            return ('cnt', ('arrv', [self.num(env), self.vexpr(env, depth + 1), self.num(env)]))
        if k == 'selnum':
            n = 1 + r.below(4)
            return ('selnum', [self.num(env, 1) for _ in range(n)], r.below(n))
        return ('isnilc', r.choice([self.num(env), ('nil',), ('call', ('block', [], None))]))

    def prex(self, env):
        """optionally an expression assigned to _x before the predicate/body of an iteration is evaluated:
        the iteration must keep working on the array's own elements"""
        if self.r.chance(1, 3):
            self.note('x-reassigned')
            return self.num(self.sub(env, x=True), 1)
        return None

    def handler(self, env, depth, value):
        """{ body } except__ { handler }: the body usually raises an error, often from a nested frame while
        operands of an enclosing expression are pending"""
        r = self.r
        self.note('except')
        body = self.block(env, depth + 1, value)
        stmts = list(body[1])
        kind = r.weighted([('none', 1), ('stmt', 2), ('nested', 3), ('last', 1)])
        errtxt = r.choice(['(1 + "a")', '(true + 1)', '([] select 5)'])
        if kind == 'stmt':
            stmts.insert(r.below(len(stmts) + 1), ('mark', ('err', errtxt)))
        elif kind == 'nested':
            stmts.insert(r.below(len(stmts) + 1),
                         ('mark', ('cnt', ('arrv', [self.num(env), self.num(env), ('call', ('block', [('mark', self.num(env))], ('err', errtxt)))]))))
        elif kind == 'last':
            stmts.append(('mark', ('err', errtxt)))
        body = ('block', stmts, body[2])
        hval = value and r.chance(2, 3)
        hb = self.block(self.sub(env), depth + 1, hval)
        if not value and r.chance(1, 4):
            # a handler with nothing in it still takes the error: the protected block is left at the failing statement
            self.note('except:empty handler')
            hb = ('block', [], None)
        return ('exc', body, hb)

    def stmt(self, env, depth):
        r = self.r
        if depth >= self.max_depth:
            k = r.weighted([('mark', 5), ('assign', 3)])
        else:
            k = r.weighted([('mark', 6), ('assign', 5 if not self.scoping else 9), ('markv', 5), ('if', 3), ('while', 3), ('for', 3), ('foreach', 3),
                            ('switch', 2), ('call', 3 if not self.scoping else 6), ('apply', 2), ('select', 2), ('try', 2),
                            ('private', 1 if not self.scoping else 4), ('exitwith', 1), ('global', 2 if not self.scoping else 5), ('arrvar', 1),
                            ('excst', 3 if self.errors else 0), ('whilescope', 2 if self.scoping else 1), ('loopscope', 2 if self.scoping else 1)])
        self.note(k)
        if k == 'mark':
            return ('mark', self.num(env))
        if k == 'markv':
            return ('mark', self.vexpr(env, depth + 1))
        if k == 'assign':
            if env['loc'] and r.chance(1, 2):
                v = r.choice(env['loc'])
                return ('assign', False, self.spell(v), self.num(env))
            if self.scoping and r.chance(1, 3):
                v = r.choice(['_a', '_b', '_c', '_Zq'])   # few names: shadowing across scopes (one with letters from the end of the alphabet, in mixed case)
            else:
                v = self.fresh('_v')
            e = self.num(env)
            if v not in env['loc']:
                env['loc'].append(v)
            return ('assign', r.chance(1, 2), self.spell(v), e)
        if k == 'global':
            g = r.choice(['g1', 'g2', 'gX'])
            e = self.num(env)
            if g not in env['globs']:
                env['globs'].append(g)
            return ('gassign', self.spell(g), e)
        if k == 'arrvar':
            v = self.fresh('_arr')
            a = self.arr(env)
            env['arrs'].append(v)
            return ('assign', False, v, a)
        if k == 'private':
            v = r.choice(['_a', '_b', '_c', '_Zq']) if self.scoping else self.fresh('_v')
            e = self.num(env)
            decl = ('private', [self.spell(v)] if r.chance(1, 2) else [self.spell(v), self.fresh('_v')], r.chance(1, 2))
            if v not in env['loc']:
                env['loc'].append(v)
            # the declaration is followed by an assignment, so that the shadowing binding is never read as nil
            return ('seq', [decl, ('assign', False, self.spell(v), e)])
        if k == 'if':
            return ('if', self.boolean(env), self.block(env, depth + 1), self.block(env, depth + 1) if r.chance(1, 2) else None)
        if k == 'exitwith':
            return ('exitwith', self.boolean(env), self.block(env, depth + 1), self.num(env))
        if k == 'while':
            c = self.fresh('_c')
            return ('while', c, r.below(4), self.block(self.sub(env, ro=env['ro'] + [c]), depth + 1))
        if k == 'for':
            v = self.fresh('_i')
            a, b = r.below(4), r.below(6)
            step = r.choice([None, None, 1, 2, -1])
            if step == -1:
                a, b = b, a
            blk = self.block(self.sub(env, ro=env['ro'] + [v]), depth + 1)
            if r.chance(1, 3):
                # the body moves its own loop variable (in the direction of the step, so that the loop still ends): the
                # next pass continues from the value the variable holds at the end of the pass
                self.note('for:body moves the loop variable')
                k = r.below(3)
                bump = ('assign', False, v, ('bin', '-' if step == -1 else '+', ('v', v), ('n', k)))
                stmts = list(blk[1])
                stmts.insert(r.below(len(stmts) + 1), bump)
                blk = ('block', stmts, blk[2])
            return ('for', v, a, b, step, blk)
        if k == 'foreach':
            e = self.sub(env, x=True, fei=True)
            if r.chance(1, 3):
                e['loc'] = e['loc'] + ['_x']          # the body may assign _x: later iterations still see the elements
            return ('foreach', self.block(e, depth + 1), self.arr(env))
        if k == 'switch':
            return self.switch(env, depth + 1, False)
        if k == 'call':
            if r.chance(1, 2):
                return ('callst', None, self.block(env, depth + 1))
            return ('callst', self.num(env), self.block(self.sub(env, this=True), depth + 1))
        if k == 'whilescope':
            # does a local declared in the body survive into the next evaluation of the condition (or body)?
            c = self.fresh('_c')
            w = self.fresh('_w')
            return ('whilescope', c, 1 + r.below(3), w, self.block(self.sub(env, ro=env['ro'] + [c]), depth + 1))
        if k == 'loopscope':
            # the same question for for / forEach bodies: a local of one iteration is gone in the next
            w = self.fresh('_w')
            return ('loopscope', r.choice(['for', 'foreach']), 1 + r.below(3), w)
        if k == 'excst':
            return self.handler(env, depth, False)
        if k == 'apply':
            return ('mark', ('apply', self.arr(env), self.num(self.sub(env, x=True)), self.prex(env)))
        if k == 'select':
            return ('mark', ('selectc', self.arr(env), self.boolean(self.sub(env, x=True)), self.prex(env)))
        if k == 'try':
            if self.scoping and r.chance(1, 2):
                # the try block binds locals of its own and throws: the handler runs in a fresh scope, where those names
                # mean what they mean outside the try block (a plain assignment in the handler reaches the outer binding)
                self.note('try:locals of the try block')
                v = r.choice(['_a', '_b', '_c', '_Zq'])
                form = r.choice(['private', 'plain'])
                # (the plain form declares the name first, so its value must not read the name)
                return ('tryscope', v, self.num(env) if form == 'private' else ('n', r.below(9)), self.num(env), r.below(50), form)
            return ('tryst', self.num(env), self.boolean(env), self.num(env), self.num(env))
        return ('mark', self.num(env))

    def program(self):
        env = {'loc': [], 'ro': [], 'arrs': [], 'globs': []}
        stmts = [self.stmt(env, 0) for _ in range(1 + self.r.below(4))]
        val = self.vexpr(env, 1) if self.r.chance(1, 2) else None
        return ('block', stmts, val)


# ---------------------------------------------------------------------------------------------------
# renderer
# ---------------------------------------------------------------------------------------------------
def render_block(b):
    stmts, val = b[1], b[2]
    parts = [render(s) for s in stmts]
    if val is not None:
        parts.append(render(val))
    return '{ ' + '; '.join(parts) + ' }'


def pre_x(e):
    return '' if e is None else '_x = %s; ' % render(e)


def render(n):
    k = n[0]
    if k == 'n':
        return str(n[1])
    if k == 'v' or k == 'g':
        return n[1]
    if k == 'nil':
        return 'nil'
    if k == 'err':
        return n[1]
    if k == 'bin':
        return '(%s %s %s)' % (render(n[2]), n[1], render(n[3]))
    if k == 'cnt':
        return '(count %s)' % render(n[1])
    if k == 'b':
        return 'true' if n[1] else 'false'
    if k == 'not':
        return '!(%s)' % render(n[1])
    if k == 'and':
        return '(%s %s %s)' % (render(n[2]), n[1], render(n[3]))
    if k == 'lazy':
        return '(%s %s {tr pushBack %s; %s})' % (render(n[2]), n[1], render(n[3]), render(n[4]))
    if k == 'cmp':
        return '(%s %s %s)' % (render(n[2]), n[1], render(n[3]))
    if k == 'arr' or k == 'arrv':
        return '[' + ', '.join(render(e) for e in n[1]) + ']'
    if k == 'block':
        return render_block(n)
    if k == 'call':
        return '(call %s)' % render_block(n[1])
    if k == 'callargs':
        return '(%s call %s)' % (render(n[1]), render_block(n[2]))
    if k == 'ifelse':
        return '(if %s then %s else %s)' % (render(n[1]), render_block(n[2]), render_block(n[3]))
    if k == 'switch':
        subj, cases, default, pos = n[1], n[2], n[3], n[4]
        parts = []
        for labels, blk in cases:
            parts.append('; '.join('case %s' % render(l) for l in labels) + ': ' + render_block(blk))
        if default is not None:
            parts.insert(pos, 'default ' + render_block(default))
        wrapn = n[5] if len(n) > 5 else 0
        if wrapn:
            parts = ['call { %s }' % '; '.join(parts[:wrapn])] + parts[wrapn:]
        return '(switch %s do { %s })' % (render(subj), '; '.join(parts))
    if k == 'countc':
        return '({%s%s} count %s)' % (pre_x(n[3]), render(n[1]), render(n[2]))
    if k == 'findif':
        return '(%s findIf {%s%s})' % (render(n[1]), pre_x(n[3]), render(n[2]))
    if k == 'apply':
        return '(%s apply {%s%s})' % (render(n[1]), pre_x(n[3]), render(n[2]))
    if k == 'selectc':
        return '(%s select {%s%s})' % (render(n[1]), pre_x(n[3]), render(n[2]))
    if k == 'rethrow':
        # an exception thrown inside a catch block belongs to the next handler further out
        inner = 'try { tr pushBack %s; throw %s } catch { tr pushBack _exception; %s; 4 }' % (
            render(n[1]), render(n[2]), ('throw %s' % render(n[3])) if n[5] else 'tr pushBack 0')
        return '(try { %s; 5 } catch { tr pushBack _exception; %s })' % (inner, render(n[4]))
    if k == 'exc':
        return '(%s except__ %s)' % (render_block(n[1]), render_block(n[2]))
    if k == 'excexit':
        return '({ if %s exitWith { tr pushBack %s; %s }; tr pushBack %s; %s } except__ { tr pushBack %s; %s })' % tuple(render(x) for x in n[1:8])
    if k == 'try':
        return '(try { tr pushBack %s; if %s then { throw %s }; %s } catch { tr pushBack _exception; %s })' % tuple(render(x) for x in n[1:6])
    if k == 'tryscope':
        v = n[1]
        probe = '(if (isNil {%s}) then {-1} else {%s})' % (v, v)
        bind = {'private': 'private %s = %s' % (v, render(n[2])), 'plain': 'private "%s"; %s = %s' % (v, v, render(n[2])),
                'params': '[%s] params ["%s"]' % (render(n[2]), v)}[n[5]]
        return 'try { %s; throw %s } catch { tr pushBack %s; tr pushBack _exception; %s = %d }; tr pushBack %s' % (
            bind, render(n[3]), probe, v, n[4], probe)
    if k == 'tryst':
        return 'try { tr pushBack %s; if %s then { throw %s }; tr pushBack %s } catch { tr pushBack _exception }' % tuple(render(x) for x in n[1:5])
    if k == 'breakout':
        name, mark, val, form, mark2 = n[1], n[2], n[3], n[4], n[5]
        inner = '%s breakOut "%s"' % (render(val), name)
        if form == 3:
            # an inner scope of the same name: breakOut leaves the innermost one only
            return '(call { scopeName "%s"; tr pushBack %s; call { scopeName "%s"; %s; 95 }; tr pushBack %s; 96 })' % (
                name, render(mark), name, inner, render(mark2))
        if form == 4:
            # … also when the inner scope is two frames down and its value is used
            return '(call { scopeName "%s"; tr pushBack %s; tr pushBack (call { scopeName "%s"; if (true) then { %s; 94 }; 95 }); 96 })' % (
                name, render(mark), name, inner)
        wrap = ['call { %s; 99 }', 'if (true) then { %s; 98 }', '{ %s; 97 } forEach [1, 2]'][form] % inner
        return '(call { scopeName "%s"; tr pushBack %s; %s; 96 })' % (name, render(mark), wrap)
    if k == 'exitpend':
        return '(call { count [%s, nil, if %s exitWith { %s }, %s] })' % tuple(render(x) for x in n[1:5])
    if k == 'trypend':
        return '(try { %s + (call { throw %s }) } catch { _exception })' % (render(n[1]), render(n[2]))
    if k == 'exitwithv':
        return '(call { if %s exitWith { tr pushBack %s; %s }; tr pushBack %s; %s })' % tuple(render(x) for x in n[1:6])
    if k == 'selnum':
        return '([%s] select %d)' % (', '.join(render(e) for e in n[1]), n[2])
    if k == 'isnilc':
        return '(if (isNil {%s}) then {1} else {0})' % render(n[1])
    # statements
    if k == 'seq':
        return '; '.join(render(x) for x in n[1])
    if k == 'mark':
        return 'tr pushBack %s' % render(n[1])
    if k == 'assign':
        return '%s%s = %s' % ('private ' if n[1] else '', n[2], render(n[3]))
    if k == 'gassign':
        return '%s = %s' % (n[1], render(n[2]))
    if k == 'private':
        names = n[1]
        if len(names) == 1 and n[2]:
            return 'private "%s"' % names[0]
        return 'private [%s]' % ', '.join('"%s"' % x for x in names)
    if k == 'if':
        if n[3] is None:
            return 'if %s then %s' % (render(n[1]), render_block(n[2]))
        return 'if %s then %s else %s' % (render(n[1]), render_block(n[2]), render_block(n[3]))
    if k == 'exitwith':
        return 'call { if %s exitWith %s; tr pushBack %s }' % (render(n[1]), render_block(n[2]), render(n[3]))
    if k == 'while':
        c, lim, blk = n[1], n[2], n[3]
        body = render_block(blk)
        return '%s = 0; while {%s < %d} do { %s = %s + 1; %s' % (c, c, lim, c, c, body[2:])
    if k == 'whilescope':
        c, lim, w, blk = n[1:5]
        body = render_block(blk)
        return ('%s = 0; while {tr pushBack (if (isNil "%s") then {0} else {1}); %s < %d} do { tr pushBack (if (isNil "%s") then {2} else {3}); '
                '%s = %s + 1; private %s = 5; %s' % (c, w, c, lim, w, c, c, w, body[2:]))
    if k == 'loopscope':
        kind, cnt, w = n[1:4]
        body = '{ tr pushBack (if (isNil "%s") then {0} else {1}); private %s = 7; tr pushBack %s }' % (w, w, w)
        if kind == 'for':
            return 'for "_i" from 1 to %d do %s' % (cnt, body)
        return '%s forEach [%s]' % (body, ', '.join('1' for _ in range(cnt)))
    if k == 'for':
        v, a, b, step, blk = n[1:6]
        return 'for "%s" from %d to %d%s do %s' % (v, a, b, '' if step is None else ' step %d' % step, render_block(blk))
    if k == 'foreach':
        return '%s forEach %s' % (render_block(n[1]), render(n[2]))
    if k == 'callst':
        if n[1] is None:
            return 'call %s' % render_block(n[2])
        return '%s call %s' % (render(n[1]), render_block(n[2]))
    raise ValueError(k)


def render_program(p):
    stmts, val = p[1], p[2]
    parts = ['tr = []'] + [render(s) for s in stmts]
    if val is not None:
        parts.append(render(val))
    return '; '.join(parts)


# ---------------------------------------------------------------------------------------------------
# reference interpreter
# ---------------------------------------------------------------------------------------------------
class Interp:
    """Structured big-step semantics. Scopes form a dynamic chain (list of dicts, innermost last);
    names are case-insensitive."""

    def __init__(self):
        self.globals = {}
        self.tr = []
        self.globals['tr'] = self.tr
        self.scopes = [{}]
        self.steps = 0
        self.handled = 0          # errors an except__ handler took over

    # -- variables ------------------------------------------------------------------------------
    def lookup(self, name):
        n = name.lower()
        if n.startswith('_'):
            for sc in reversed(self.scopes):
                if n in sc:
                    return sc[n]
            return NIL                     # undefined local: nil (warning only)
        return self.globals.get(n, NIL)

    def assign(self, name, value, private=False):
        n = name.lower()
        if not n.startswith('_'):
            self.globals[n] = value
            return
        if not private:
            for sc in reversed(self.scopes):
                if n in sc:
                    sc[n] = value
                    return
        self.scopes[-1][n] = value

    # -- expressions ----------------------------------------------------------------------------
    def ev(self, n):
        self.steps += 1
        if self.steps > 200000:
            raise RuntimeErr('too long')
        k = n[0]
        if k == 'n':
            return n[1]
        if k == 'v' or k == 'g':
            return self.lookup(n[1])
        if k == 'nil':
            return NIL
        if k == 'err':
            raise RuntimeErr(n[1], injected=True)
        if k == 'bin':
            a, b = self.ev(n[2]), self.ev(n[3])
            if a is NIL or b is NIL:
                raise RuntimeErr('nil operand')
            return {'+': a + b, '-': a - b, '*': a * b}[n[1]]
        if k == 'cnt':
            a = self.ev(n[1])
            if a is NIL:
                raise RuntimeErr('nil operand')
            return len(a)
        if k == 'b':
            return n[1]
        if k == 'not':
            return not self.ev(n[1])
        if k == 'and':
            a, b = self.ev(n[2]), self.ev(n[3])
            return (a and b) if n[1] in ('&&', 'and') else (a or b)
        if k == 'lazy':
            a = self.ev(n[2])
            need = a if n[1] in ('&&', 'and') else (not a)
            if not need:
                return a
            return self.in_scope(lambda: (self.mark(self.ev(n[3])), self.ev(n[4]))[1])
        if k == 'cmp':
            a, b = self.ev(n[2]), self.ev(n[3])
            if a is NIL or b is NIL:
                raise RuntimeErr('nil operand')
            return {'<': a < b, '<=': a <= b, '>': a > b, '>=': a >= b, '==': a == b, '!=': a != b}[n[1]]
        if k == 'arr' or k == 'arrv':
            return [self.ev(e) for e in n[1]]
        if k == 'call':
            return self.call_block(n[1], {})
        if k == 'callargs':
            this = self.ev(n[1])
            if this is NIL:
                raise RuntimeErr('nil operand')
            return self.call_block(n[2], {'_this': this})
        if k == 'ifelse':
            return self.plain_block(n[2] if self.ev(n[1]) else n[3])
        if k == 'switch':
            return self.do_switch(n)
        if k == 'countc':
            arr = self.ev(n[2])
            c = 0
            for x in arr:
                if self.in_scope(lambda: self.with_x(n[3], n[1]), {'_x': x}):
                    c += 1
            return c
        if k == 'findif':
            arr = self.ev(n[1])
            for i, x in enumerate(arr):
                if self.in_scope(lambda: self.with_x(n[3], n[2]), {'_x': x}):
                    return i
            return -1
        if k == 'apply':
            arr = self.ev(n[1])
            return [self.in_scope(lambda: self.with_x(n[3], n[2]), {'_x': x}) for x in arr]
        if k == 'selectc':
            arr = self.ev(n[1])
            return [x for x in arr if self.in_scope(lambda: self.with_x(n[3], n[2]), {'_x': x})]
        if k == 'rethrow':
            def outer_body():
                def inner_body():
                    self.mark(self.ev(n[1]))
                    self.in_scope(lambda: self.throw(self.ev(n[2])))
                try:
                    self.in_scope(inner_body)
                except Thrown as t:
                    def inner_handler():
                        self.mark(self.lookup('_exception'))
                        if n[5]:
                            self.throw(self.ev(n[3]))
                        else:
                            self.mark(0)
                        return 4
                    self.in_scope(inner_handler, {'_exception': t.value})
                return 5
            try:
                return self.in_scope(outer_body)
            except Thrown as t:
                def outer_handler():
                    self.mark(self.lookup('_exception'))
                    return self.ev(n[4])
                return self.in_scope(outer_handler, {'_exception': t.value})
        if k == 'exc':
            return self.do_except(lambda: self.run_block(n[1]), lambda: self.run_block(n[2]))
        if k == 'excexit':
            def body():
                if self.ev(n[1]):
                    def blk():
                        self.mark(self.ev(n[2]))
                        return self.ev(n[3])
                    raise ExitScope(self.in_scope(blk))
                self.mark(self.ev(n[4]))
                return self.ev(n[5])

            def guarded():
                try:
                    return body()
                except ExitScope as e:
                    return e.value

            def handler():
                self.mark(self.ev(n[6]))
                return self.ev(n[7])
            return self.do_except(guarded, handler)
        if k == 'try':
            def body():
                self.mark(self.ev(n[1]))
                if self.ev(n[2]):
                    self.in_scope(lambda: self.throw(self.ev(n[3])))
                return self.ev(n[4])
            try:
                return self.in_scope(body)
            except Thrown as t:
                def handler():
                    self.mark(self.lookup('_exception'))
                    return self.ev(n[5])
                return self.in_scope(handler, {'_exception': t.value})
        if k == 'breakout':
            name, mark, val, form, mark2 = n[1], n[2], n[3], n[4], n[5]

            def outer():
                self.mark(self.ev(mark))

                def inner():
                    raise BreakOut(name, self.ev(val))
                if form == 3 or form == 4:
                    # an inner scope with the same name catches it: the innermost named scope is left
                    def inner_scope():
                        try:
                            if form == 4:
                                self.in_scope(inner)
                            else:
                                inner()
                            return 95
                        except BreakOut as b:
                            if b.name != name:
                                raise
                            return b.value
                    v = self.in_scope(inner_scope, {'_this': self.lookup('_this')})
                    if form == 3:
                        self.mark(self.ev(mark2))
                    else:
                        self.mark(v)
                    return 96
                if form == 2:
                    for i, x in enumerate([1, 2]):
                        self.in_scope(inner, {'_x': x, '_foreachindex': i})
                else:
                    self.in_scope(inner)
                return 96
            try:
                return self.in_scope(outer, {'_this': self.lookup('_this')})
            except BreakOut as b:
                if b.name != name:
                    raise
                return b.value
        if k == 'exitpend':
            def body():
                self.ev(n[1])
                if self.ev(n[2]):
                    raise ExitScope(self.in_scope(lambda: self.ev(n[3])))
                self.ev(n[4])
                return 4
            try:
                return self.in_scope(body, {'_this': self.lookup('_this')})
            except ExitScope as e:
                return e.value
        if k == 'trypend':
            def body():
                self.ev(n[1])
                return self.in_scope(lambda: self.throw(self.ev(n[2])))
            try:
                return self.in_scope(body)
            except Thrown as t:
                return self.in_scope(lambda: self.lookup('_exception'), {'_exception': t.value})
        if k == 'exitwithv':
            def body():
                if self.ev(n[1]):
                    def blk():
                        self.mark(self.ev(n[2]))
                        return self.ev(n[3])
                    raise ExitScope(self.in_scope(blk))
                self.mark(self.ev(n[4]))
                return self.ev(n[5])
            try:
                return self.in_scope(body, {'_this': self.lookup('_this')})
            except ExitScope as e:
                return e.value
        if k == 'selnum':
            return [self.ev(e) for e in n[1]][n[2]]
        if k == 'isnilc':
            v = self.in_scope(lambda: self.ev(n[1]))
            return self.plain_block(('block', [], ('n', 1 if v is NIL else 0)))
        raise ValueError(k)

    def with_x(self, pre, body):
        if pre is not None:
            self.assign('_x', self.ev(pre))
        return self.ev(body)

    def do_except(self, body, handler):
        """{ body } except__ { handler }: an error raised while the body runs (at any depth) passes control
        once to the handler, which runs in a fresh scope holding _exception; the construct yields the value
        of whichever block finished. Errors the reference does not decide (nil operands) stay undecided."""
        try:
            return self.in_scope(body)
        except RuntimeErr as e:
            if not e.injected:
                raise
            self.handled += 1
            return self.in_scope(handler, {'_exception': 'exc'})

    def throw(self, v):
        if v is NIL:
            raise RuntimeErr('nil operand')
        raise Thrown(v)

    def mark(self, v):
        if v is NIL:
            raise RuntimeErr('nil operand')
        self.tr.append(v)
        return len(self.tr) - 1

    # -- scopes / blocks ------------------------------------------------------------------------
    def in_scope(self, fn, binds=None):
        self.scopes.append(dict((k.lower(), v) for k, v in (binds or {}).items()))
        try:
            return fn()
        finally:
            self.scopes.pop()

    def run_block(self, b):
        """statements of a block in the *current* scope; value = value of the last statement or nil"""
        last = NIL
        for s in b[1]:
            last = self.st(s)
        if b[2] is not None:
            last = self.ev(b[2])
        return last

    def plain_block(self, b):
        return self.in_scope(lambda: self.run_block(b))

    def call_block(self, b, binds):
        if '_this' not in binds:
            binds = dict(binds, _this=self.lookup('_this'))
        try:
            return self.in_scope(lambda: self.run_block(b), binds)
        except ExitScope as e:
            return e.value

    def do_switch(self, n):
        subj, cases, default, pos = n[1], n[2], n[3], n[4]
        v = self.ev(subj)
        if v is NIL:
            raise RuntimeErr('nil operand')

        def body():
            # the switch body runs as a scope of its own: `case` labels are evaluated in order until the
            # first match; the matching block (or `default`, wherever it stands) runs afterwards
            for labels, blk in cases:
                hit = False
                for l in labels:
                    if self.ev(l) == v:
                        hit = True
                if hit:
                    return blk
            return default
        chosen = self.in_scope(body)
        if chosen is None:
            return NIL
        return self.plain_block_switch(chosen)

    def plain_block_switch(self, b):
        return self.in_scope(lambda: self.run_block(b))

    # -- statements -----------------------------------------------------------------------------
    def st(self, n):
        k = n[0]
        if k == 'seq':
            last = NIL
            for x in n[1]:
                last = self.st(x)
            return last
        if k == 'mark':
            return self.mark(self.ev(n[1]))
        if k == 'assign':
            v = self.ev(n[3])
            if v is NIL and False:
                pass
            self.assign(n[2], v, private=n[1])
            return NIL
        if k == 'gassign':
            self.assign(n[1], self.ev(n[2]))
            return NIL
        if k == 'private':
            for name in n[1]:
                # declares the name in the current scope; a binding the scope already holds is kept
                self.scopes[-1].setdefault(name.lower(), NIL)
            return NIL
        if k == 'if':
            if self.ev(n[1]):
                return self.plain_block(n[2])
            if n[3] is not None:
                return self.plain_block(n[3])
            return NIL
        if k == 'exitwith':
            def body():
                if self.ev(n[1]):
                    raise ExitScope(self.plain_block(n[2]))
                return self.mark(self.ev(n[3]))
            try:
                return self.in_scope(body, {'_this': self.lookup('_this')})
            except ExitScope as e:
                return e.value
        if k == 'while':
            c, lim, blk = n[1], n[2], n[3]
            self.assign(c, 0)
            last = NIL
            while self.lookup(c) < lim:
                def it():
                    self.assign(c, self.lookup(c) + 1)
                    return self.run_block(blk)
                last = self.in_scope(it)
            return NIL
        if k == 'whilescope':
            c, lim, w, blk = n[1:5]
            self.assign(c, 0)

            def cond():
                self.mark(0 if self.lookup(w) is NIL else 1)
                return self.lookup(c) < lim
            while self.in_scope(cond):
                def it():
                    self.mark(2 if self.lookup(w) is NIL else 3)
                    self.assign(c, self.lookup(c) + 1)
                    self.assign(w, 5, private=True)
                    return self.run_block(blk)
                self.in_scope(it)
            return NIL
        if k == 'loopscope':
            kind, cnt, w = n[1:4]
            last = NIL
            for i in range(cnt):
                def it():
                    self.mark(0 if self.lookup(w) is NIL else 1)
                    self.assign(w, 7, private=True)
                    return self.mark(self.lookup(w))
                # like `for` and `forEach`, the statement yields the value of its last iteration
                last = self.in_scope(it, {'_i': i + 1} if kind == 'for' else {'_x': 1, '_foreachindex': i})
            return last
        if k == 'for':
            v, a, b, step, blk = n[1:6]
            s = 1 if step is None else step
            i = a
            last = NIL
            if (a > b) if s > 0 else (b > a):
                return NIL
            while True:
                # the loop variable lives in the scope of the pass; the step is applied to the value it holds at the end
                self.scopes.append({v.lower(): i})
                try:
                    last = self.run_block(blk)
                    cur = self.scopes[-1].get(v.lower(), i)
                finally:
                    self.scopes.pop()
                i = cur
                if (i + s > b) if s >= 0 else (i + s < b):
                    break
                i += s
            return last
        if k == 'foreach':
            arr = self.ev(n[2])
            last = NIL
            for i, x in enumerate(arr):
                last = self.in_scope(lambda: self.run_block(n[1]), {'_x': x, '_foreachindex': i})
            return last
        if k == 'callst':
            if n[1] is None:
                return self.call_block(n[2], {})
            this = self.ev(n[1])
            if this is NIL:
                raise RuntimeErr('nil operand')
            return self.call_block(n[2], {'_this': this})
        if k == 'tryscope':
            v = n[1]

            def probe():
                x = self.lookup(v)
                return self.mark(-1 if x is NIL else x)

            def body():
                val = self.ev(n[2])
                if val is NIL:
                    raise RuntimeErr('nil operand')
                self.assign(v, val, private=True)
                self.throw(self.ev(n[3]))
            try:
                self.in_scope(body)
            except Thrown as t:
                def handler():
                    probe()
                    self.mark(self.lookup('_exception'))
                    self.assign(v, n[4])
                self.in_scope(handler, {'_exception': t.value})
            return probe()
        if k == 'tryst':
            def body():
                self.mark(self.ev(n[1]))
                if self.ev(n[2]):
                    self.in_scope(lambda: self.throw(self.ev(n[3])))
                return self.mark(self.ev(n[4]))
            try:
                return self.in_scope(body)
            except Thrown as t:
                return self.in_scope(lambda: self.mark(self.lookup('_exception')), {'_exception': t.value})
        if k == 'switch':
            return self.do_switch(n)
        return self.ev(n)

    def run_program(self, p):
        """returns (status, value): status 'ok' | 'error'"""
        try:
            last = NIL
            for s in p[1]:
                last = self.st(s)
            if p[2] is not None:
                last = self.ev(p[2])
            return 'ok', last
        except RuntimeErr as e:
            return ('error' if e.injected else 'nil-error'), NIL
        except (ExitScope, BreakOut, Thrown):
            return 'escape', NIL


def fmt_value(v):
    if v is NIL:
        return 'nil'
    if v is True:
        return 'true'
    if v is False:
        return 'false'
    if isinstance(v, list):
        return '[' + ','.join(fmt_value(x) for x in v) + ']'
    if isinstance(v, str):
        return '"' + v.replace('"', '""') + '"'
    return str(v)
