"""Generator and reference semantics for the config tree (C15).

A case is a sequence of config texts (loads) and a list of queries. The generator builds every text
from an AST it keeps, so that the same AST can be handed to the Lean model (which does not parse
config text) while the implementation parses the text. The reference semantics below is written at
the level of the property (classes are Python objects holding a dictionary of entries, a base class
and an enclosing class) and answers the queries independently of model and implementation.
"""
import valgen

CLASS_NAMES = ['A', 'B', 'C', 'D', 'E', 'Base', 'Veh']
CHAIN_NAMES = ['B0', 'B1', 'L', 'L2']
FIELD_NAMES = ['x', 'y', 'z', 'arr', 'txt', 'list']


def hx(s):
    return s.encode('latin-1').hex()


# ---------------------------------------------------------------------------------------------------
# reference semantics
# ---------------------------------------------------------------------------------------------------
class Entry:
    def __init__(self, name, parent):
        self.name = name
        self.parent = parent        # enclosing class
        self.base = None            # base class
        self.entries = {}           # name -> Entry | None (deleted marker)
        self.order = []             # own entries in declaration order
        self.value = None           # None for a class; ('num', float) | ('str', s) | ('arr', [...])

    def path(self):
        p = []
        e = self
        while e is not None:
            p.append(e.name)
            e = e.parent
        return '/'.join(reversed(p))

    def is_class(self):
        return len(self.order) > 0 or self.value is None


class RefConfig:
    def __init__(self):
        self.root = Entry('config/bin', None)
        self.stats = {}

    def note(self, k):
        self.stats[k] = self.stats.get(k, 0) + 1

    # -- loading ------------------------------------------------------------------------------------
    def resolve_scope(self, cls, name):
        """a base class is looked up by name in the enclosing classes, innermost first"""
        c = cls
        while c is not None:
            if name in c.entries:
                return c.entries[name]
            c = c.parent
        return None

    def open(self, parent, name, base=None):
        e = parent.entries.get(name)
        if e is None:
            e = Entry(name, parent)
            if base is not None:
                e.base = self.resolve_scope(parent, base)
            if name not in parent.entries or parent.entries[name] is None:
                parent.order.append(e)
            parent.entries[name] = e
        elif base is not None:
            b = self.resolve_scope(parent, base)
            # never let a class inherit from itself
            x = b
            cyclic = False
            while x is not None:
                if x is e:
                    cyclic = True
                    break
                x = x.base
            self.note('rebind_refused_cyclic' if cyclic else ('rebind' if b is not None else 'rebind_to_missing'))
            if not cyclic:
                e.base = b
        return e

    def lookup(self, cls, name):
        """entry `name` of `cls`: own definition first, then the nearest ancestor's; a delete hides"""
        c = cls
        while c is not None:
            if name in c.entries:
                return c.entries[name]
            c = c.base
        return None

    def apply(self, parent, node):
        k = node[0]
        if k == 'classdef':
            self.open(parent, node[1], node[2])
        elif k == 'class':
            e = self.open(parent, node[1], node[2])
            for sub in node[3]:
                self.apply(e, sub)
        elif k == 'delete':
            old = parent.entries.get(node[1])
            if parent.base is not None and self.lookup(parent.base, node[1]) is not None:
                self.note('delete_hides_inherited')
            if old is not None:
                self.note('delete_own_entry')
                parent.order = [x for x in parent.order if x is not old]
            parent.entries[node[1]] = None
        elif k in ('field', 'array', 'append'):
            e = self.open(parent, node[1])
            e.value = lit_value(node[2])
            if k == 'append':
                src = self.lookup(parent.base, node[1]) if parent.base is not None else None
                if src is not None and e.value[0] == 'arr' and src.value is not None and src.value[0] == 'arr':
                    self.note('append_extends_inherited')
                    e.value = ('arr', list(src.value[1]) + list(e.value[1]))

    def load(self, ast):
        for n in ast:
            self.apply(self.root, n)

    # -- queries ------------------------------------------------------------------------------------
    def query(self, steps, obs):
        cur = self.root
        for st in steps:
            if st[0] == 'd':
                cur = self.lookup(cur, st[1]) if cur is not None else None
            elif st[0] == 's':
                if cur is None:
                    return '!'
                cur = cur.order[st[1]] if 0 <= st[1] < len(cur.order) else None
            elif st[0] == 'i':
                if cur is None:
                    return '!'
                cur = cur.base
        if obs == 'self':
            return '<cfg:%s>' % cur.path() if cur is not None else '<cfg-null>'
        if obs == 'isNull':
            return 'true' if cur is None else 'false'
        if cur is None:
            return {'num': '0', 'text': '""', 'arr': '[]', 'isNum': 'false', 'isText': 'false', 'isArr': 'false',
                    'isClass': 'false'}.get(obs, '!')
        v = cur.value
        if obs == 'num':
            return fmt_val(v) if v is not None and v[0] == 'num' else '0'
        if obs == 'text':
            return fmt_val(v) if v is not None and v[0] == 'str' else '""'
        if obs == 'arr':
            return fmt_val(v) if v is not None and v[0] == 'arr' else '[]'
        if obs == 'isNum':
            return 'true' if v is not None and v[0] == 'num' else 'false'
        if obs == 'isText':
            return 'true' if v is not None and v[0] == 'str' else 'false'
        if obs == 'isArr':
            return 'true' if v is not None and v[0] == 'arr' else 'false'
        if obs == 'isClass':
            return 'true' if cur.is_class() else 'false'
        if obs == 'name':
            return '"%s"' % cur.name
        if obs == 'count':
            return str(len(cur.order))
        if obs == 'hier':
            names = []
            e = cur
            while e is not None:
                names.append('"%s"' % e.name)
                e = e.parent
            return '[' + ','.join(reversed(names)) + ']'
        if obs == 'classes':
            return '[' + ','.join('<cfg:%s>' % e.path() for e in cur.order if e.is_class()) + ']'
        raise ValueError(obs)


def lit_value(lit):
    k = lit[0]
    if k == 'dec':
        return ('num', float(lit[1]))
    if k == 'hex':
        t = lit[1]
        return ('num', float(int(t[1:] if t[0] == '$' else t[2:], 16)))
    if k == 'str':
        t = lit[1]
        q = t[0]
        return ('str', t[1:-1].replace(q + q, q))
    if k == 'text':
        return ('str', lit[1])
    return ('arr', [lit_value(x) for x in lit[1]])


def fmt_val(v):
    if v[0] == 'num':
        return valgen.fmt_render(v[1])
    if v[0] == 'str':
        return '"' + v[1].replace('"', '""') + '"'
    return '[' + ','.join(fmt_val(x) for x in v[1]) + ']'


# ---------------------------------------------------------------------------------------------------
# generator
# ---------------------------------------------------------------------------------------------------
class CfgGen:
    def __init__(self, rng):
        self.r = rng
        self.stats = {}

    def note(self, k):
        self.stats[k] = self.stats.get(k, 0) + 1

    # -- literals -----------------------------------------------------------------------------------
    def scalar(self, in_array=False):
        r = self.r
        k = r.weighted([('int', 5), ('dec', 2), ('neg', 2), ('hex', 1), ('str', 4), ('sq', 1), ('ident', 2), ('text', 2)])
        self.note('lit:' + k)
        if k == 'int':
            return ('dec', str(r.below(100)))
        if k == 'dec':
            return ('dec', r.choice(['1.5', '0.25', '2.75', '10.5', '0.5', '1e2', '3.0', '.5']))
        if k == 'neg':
            return ('dec', r.choice(['-', '+']) + str(1 + r.below(50)))
        if k == 'hex':
            # also values at and beyond the ends of the 32-bit ranges: hexadecimal numbers are read as 64-bit values
            return ('hex', r.choice(['0x1F', '0xff', '$A', '0x0', '0x10', '$7f', '0x7FFFFFFF', '0x80000000', '0xFFFFFFFF', '$FFFFFFFF', '0x100000000', '$ABCDEF0123']))
        if k == 'str':
            return ('str', '"' + r.choice(['test', '', 'a b', 'with ""quotes""', "it's", 'x;y', '{ }', 'class A']) + '"')
        if k == 'sq':
            return ('str', "'" + r.choice(['single', 'a "b" c', "it''s", '']) + "'")
        if k == 'ident':
            return ('text', r.choice(['someIdent', 'abc_1', 'value', 'TRUE_', 'x1']))
        words = [r.choice(['any', 'fancy', 'text', '12', 'goes', 'here', 'a1', '3.5', ':', '=', '[', ']']) for _ in range(2 + r.below(3))]
        if not in_array:
            pass
        sep = r.choice([' ', '  ', ' '])
        return ('text', sep.join(words))

    def array(self, depth=0):
        r = self.r
        n = r.below(4)
        items = []
        for _ in range(n):
            if depth < 2 and r.chance(1, 5):
                items.append(self.array(depth + 1))
            else:
                items.append(self.scalar(in_array=True))
        return ('arr', items)

    # -- statements ---------------------------------------------------------------------------------
    def class_name(self):
        return self.r.choice(CLASS_NAMES)

    def body(self, depth):
        r = self.r
        out = []
        for _ in range(r.below(5)):
            k = r.weighted([('field', 5), ('array', 3), ('append', 2), ('delete', 2), ('class', 3 if depth < 3 else 0), ('classdef', 1)])
            self.note('stmt:' + k)
            if k == 'field':
                out.append(('field', r.choice(FIELD_NAMES), self.scalar()))
            elif k == 'array':
                out.append(('array', r.choice(FIELD_NAMES), self.array()))
            elif k == 'append':
                out.append(('append', r.choice(FIELD_NAMES), self.array()))
            elif k == 'delete':
                out.append(('delete', r.choice(FIELD_NAMES + CLASS_NAMES)))
            elif k == 'class':
                out.append(self.klass(depth + 1))
            else:
                out.append(('classdef', self.class_name(), self.class_name() if r.chance(1, 2) else None))
        return out

    def klass(self, depth):
        r = self.r
        base = self.class_name() if r.chance(2, 5) else None
        if base is not None:
            self.note('class-with-base')
        return ('class', self.class_name(), base, self.body(depth))

    def append_chain(self):
        """an enclosing class and an inheritance chain of nested classes in which the array a `+=` extends is
        defined at some of the levels (enclosing class, base, base of the base): += must take the nearest
        *inherited* definition, never the enclosing class's"""
        r = self.r
        self.note('append-chain')
        fld = r.choice(['arr', 'list'])

        def arrdef(k):
            return [('array', fld, ('arr', [('dec', str(k))]))] if r.chance(1, 2) else []
        outer = self.class_name()
        body = arrdef(9)
        body.append(('class', 'B0', None, arrdef(1) + ([('field', 'x', ('dec', '1'))] if r.chance(1, 2) else [])))
        body.append(('class', 'B1', 'B0', arrdef(2)))
        leaf_body = [('append', fld, ('arr', [('dec', '3')]))]
        if r.chance(1, 3):
            leaf_body.append(('append', fld, ('arr', [('dec', '4')])))
        body.append(('class', 'L', r.choice(['B1', 'B1', 'B0']), leaf_body))
        if r.chance(1, 2):
            body.append(('class', 'L2', 'L', [('append', fld, ('arr', [('dec', '5')]))]))
        return ('class', outer, None, body)

    def load(self):
        r = self.r
        out = []
        for _ in range(1 + r.below(5)):
            k = r.weighted([('class', 8), ('classdef', 1), ('delete', 1), ('chain', 2)])
            if k == 'chain':
                out.append(self.append_chain())
            elif k == 'class':
                out.append(self.klass(1))
            elif k == 'classdef':
                out.append(('classdef', self.class_name(), self.class_name() if r.chance(1, 2) else None))
            else:
                out.append(('delete', self.class_name()))
        return out

    # -- rendering ----------------------------------------------------------------------------------
    def ws(self):
        return self.r.choice([' ', ' ', '\n', '  ', '\t', ' // c\n'])

    def render_lit(self, lit):
        if lit[0] == 'arr':
            if not lit[1]:
                return '{}' if self.r.chance(1, 2) else '{ }'
            return '{' + ','.join(self.r.choice(['', ' ']) + self.render_lit(x) + self.r.choice(['', ' ']) for x in lit[1]) + '}'
        return lit[1]

    def render_node(self, n):
        k = n[0]
        w = self.ws
        if k == 'classdef':
            return 'class%s%s' % (w(), n[1]) + ('%s:%s%s' % (w(), w(), n[2]) if n[2] is not None else '')
        if k == 'class':
            head = 'class%s%s' % (w(), n[1]) + ('%s:%s%s' % (self.r.choice(['', ' ']), self.r.choice(['', ' ']), n[2]) if n[2] is not None else '')
            return head + w() + '{' + w() + ''.join(self.render_node(s) + ';' + w() for s in n[3]) + '}'
        if k == 'delete':
            return 'delete%s%s' % (w(), n[1])
        if k == 'field':
            return n[1] + self.r.choice(['=', ' = ', ' =', '= ']) + self.render_lit(n[2])
        if k == 'array':
            return n[1] + '[]' + self.r.choice(['=', ' = ']) + self.render_lit(n[2])
        return n[1] + '[]' + self.r.choice(['+=', ' += ']) + self.render_lit(n[2])

    def render_load(self, ast):
        return ''.join(self.render_node(n) + ';' + self.ws() for n in ast)

    # -- model serialisation ------------------------------------------------------------------------
    def ser_lit(self, lit):
        if lit[0] == 'arr':
            return '[ ' + ''.join(self.ser_lit(x) + ' ' for x in lit[1]) + ']'
        return {'dec': 'n', 'hex': 'h', 'str': 's', 'text': 't'}[lit[0]] + ':' + hx(lit[1])

    def ser_node(self, n):
        k = n[0]
        if k == 'classdef':
            return ('c %s' % hx(n[1])) if n[2] is None else ('x %s %s' % (hx(n[1]), hx(n[2])))
        if k == 'class':
            body = ''.join(self.ser_node(s) + ' ' for s in n[3])
            if n[2] is None:
                return 'k %s { %s}' % (hx(n[1]), body)
            return 'e %s %s { %s}' % (hx(n[1]), hx(n[2]), body)
        if k == 'delete':
            return 'D %s' % hx(n[1])
        return {'field': 'f', 'array': 'a', 'append': 'p'}[k] + ' %s %s' % (hx(n[1]), self.ser_lit(n[2]))

    def ser_load(self, ast):
        return ' '.join(self.ser_node(n) for n in ast)

    # -- queries ------------------------------------------------------------------------------------
    def queries(self, ref, n):
        r = self.r
        out = []
        for _ in range(n):
            steps = []
            cur = ref.root
            for _ in range(1 + r.below(4)):
                k = r.weighted([('down', 8), ('missing', 1), ('select', 2), ('inherits', 2)])
                if k == 'down' and cur is not None:
                    # names visible from here: own and inherited
                    names = []
                    c = cur
                    seen = 0
                    while c is not None and seen < 50:
                        names += list(c.entries.keys())
                        c = c.base
                        seen += 1
                    if names:
                        nm = r.choice(names)
                        steps.append(('d', nm))
                        cur = ref.lookup(cur, nm)
                        continue
                    k = 'missing'
                if k in ('down', 'missing'):
                    nm = r.choice(CLASS_NAMES + FIELD_NAMES + ['nope'])
                    steps.append(('d', nm))
                    cur = ref.lookup(cur, nm) if cur is not None else None
                elif k == 'select':
                    ln = len(cur.order) if cur is not None else 0
                    i = r.choice([0, 0, 1, 2, ln - 1, ln, -1, 7])
                    steps.append(('s', i))
                    if cur is None:
                        break
                    cur = cur.order[i] if 0 <= i < ln else None
                else:
                    steps.append(('i',))
                    if cur is None:
                        break
                    cur = cur.base
            obs = r.weighted([('num', 3), ('text', 3), ('arr', 3), ('isNum', 1), ('isText', 1), ('isArr', 1), ('isClass', 2), ('isNull', 2),
                              ('name', 2), ('count', 2), ('hier', 2), ('classes', 2), ('self', 3)])
            self.note('obs:' + obs)
            out.append((steps, obs))
        return out

    def ser_query(self, q):
        steps, obs = q
        parts = []
        for st in steps:
            if st[0] == 'd':
                parts.append('d:' + hx(st[1]))
            elif st[0] == 's':
                parts.append('s:%d' % st[1])
            else:
                parts.append('i')
        parts.append('o:' + obs)
        return ','.join(parts)

    def case(self):
        r = self.r
        nloads = r.weighted([(1, 4), (2, 3), (3, 2)])
        self.note('loads:%d' % nloads)
        asts = [self.load() for _ in range(nloads)]
        texts = [self.render_load(a) for a in asts]
        ref = RefConfig()
        for a in asts:
            ref.load(a)
        for k, v in ref.stats.items():
            self.stats['ref:' + k] = self.stats.get('ref:' + k, 0) + v
        qs = self.queries(ref, 8 + r.below(8))
        expected = [ref.query(s, o) for s, o in qs]
        return {'texts': texts, 'asts': asts, 'ser': ' | '.join(self.ser_load(a) for a in asts), 'queries': qs,
                'qser': ';'.join(self.ser_query(q) for q in qs), 'expected': expected}
