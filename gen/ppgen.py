"""Generator for preprocessor sources (C13) with rule-level expectations that need no model.

A case is a main text plus include files. Besides the text the generator returns what the property lets one
expect without an expander:

* `shown`:  marker tokens written into sections that are active  -> must occur in the output
* `hidden`: marker tokens written into sections that are inactive -> must not occur in the output
* `strings`: string literals written into active text outside macro calls -> must occur unaltered
* `plain`:  the text contains no directive, macro name, comment or continuation -> output = header + text
"""

NAMES = ['A', 'B', 'MAX', 'F', 'G', 'QUOTE', 'GLUE', 'DBG', 'ADDON', 'FNC', 'EMPTY', 'x', 'a']
# some parameter names are also names of macros that may be defined (a parameter shadows a macro of its name)
PARAMS = [('a', 'b'), ('X', 'Y'), ('p1', 'p2'), ('a',), ('x', 'y', 'z'), (), ('A', 'B'), ('MAX', 'x'), ('F',), ('x', 'EMPTY')]
IDENTS = ['x', 'foo', '_v', 'player', 'v1', 'count', 'hint', 'q_r']


class PpGen:
    def __init__(self, rng):
        self.r = rng
        self.stats = {}
        self.n = 0

    def note(self, k):
        self.stats[k] = self.stats.get(k, 0) + 1

    def uid(self):
        self.n += 1
        return self.n

    # -- pieces ---------------------------------------------------------------------------------
    def near_names(self, name):
        """identifiers that contain a macro name but are not it"""
        return [name + 'x', 'x' + name, name + '_', '_' + name, name + '1', '1' + name, name + name, name.lower() if name.lower() != name else name + 'q']

    def string(self, defined):
        r = self.r
        inner = r.choice(['plain text', 'A // not a comment', '/* A */', '#define A 1', 'MAX(1,2)', 'a\\b', "it's", 'x ## y', '#a', ' ', '',
                          'B', 'F(', ')', ',', 'http://x/y', '*/', '#endif', "'", '__LINE__'] + [n for n in defined])
        return '"%s|%d"' % (inner, self.uid())

    def plain_token(self):
        r = self.r
        return r.choice(IDENTS + ['1', '2.5', '0x1F', '1e3', '+', '-', '*', '==', '&&', '[', ']', '{', '}', '(', ')', ';', ',', ':', '=', '!', '<', '>>', '%', '^', "'sq'", '$', '@', '.', '?', '~', '|'])

    def arg(self, defined, depth=0):
        r = self.r
        k = r.weighted([('num', 4), ('ident', 3), ('obj', 3 if any(v is None for v in defined.values()) else 0), ('call', 2 if depth < 2 and any(v for v in defined.values()) else 0),
                        ('empty', 1), ('brackets', 3), ('string', 3), ('near', 2), ('spaced', 2), ('expr', 2), ('adjacent', 2), ('multiline', 1), ('comment', 1)])
        self.note('arg:' + k)
        if k == 'num':
            return r.choice(['1', '22', '0.5'])
        if k == 'ident':
            return r.choice(IDENTS)
        if k == 'obj':
            return r.choice([n for n, v in defined.items() if v is None])
        if k == 'call':
            return self.call(defined, depth + 1)
        if k == 'empty':
            return ''
        if k == 'brackets':
            return r.choice(['[1,2]', '(3,4)', '{a;b}', '[x, [y, z]]', '{f(1,2)}', '[(1),{2,3}]', '((1,2),3)'])
        if k == 'string':
            return r.choice(['"a,b"', '"x)"', '"("', '"A"', '"]"', '"q" + "r"', '"//"', '""'])
        if k == 'near':
            return r.choice(self.near_names(r.choice(list(defined) or ['A'])))
        if k == 'spaced':
            return ' ' + r.choice(IDENTS) + ' '
        if k == 'adjacent':
            return self.adjacent_arg(defined)
        if k == 'multiline':
            return r.choice(['\n  1\n', '[1,\n 2]', 'x\n'])
        if k == 'comment':
            return r.choice(['1 /* c, d) */', '2 // e, f)\n', '/* g */ 3'])
        return r.choice(['1 + 2', 'x select 0', '_v # 1', 'a*b'])

    def adjacent_arg(self, defined):
        """a word directly beside a string inside an argument"""
        r = self.r
        n = r.choice([m for m, v in defined.items() if v is None] or ['hint'])
        return r.choice(['%s"r"', '"l"%s', '"l"%s"r"', 'hint"x"', '%s"r";x', 'x %s"r"']).replace('%s', n)

    def call(self, defined, depth=0):
        r = self.r
        fl = [n for n, v in defined.items() if v is not None]
        n = r.choice(fl)
        return '%s(%s)' % (n, ','.join(self.arg(defined, depth) for _ in range(defined[n])))

    def body(self, params, defined):
        r = self.r
        ps = list(params)
        p = lambda i: ps[i % len(ps)] if ps else 'k'
        objs = [n for n, v in defined.items() if v is None]
        fls = [n for n, v in defined.items() if v]
        forms = ['(%s + %s)' % (p(0), p(1)), '%s##%s' % (p(0), p(1)), '#%s' % p(0), '[%s, %s]' % (p(0), p(1)), p(0), '%s##_##%s' % (p(0), p(1)),
                 '"%s" + %s' % (p(0), p(0)), '%sx %s x%s' % (p(0), p(0), p(0)), 'pre_##%s' % p(0), '%s##_post' % p(0), '#%s + #%s' % (p(0), p(1)),
                 '(%s) call {%s}' % (p(0), p(1)), '', '1', 'x y', '"text"', '(2 + 3)', '%s;%s' % (p(1), p(0)), '[%s] # 0' % p(0), '\\path\\%s' % p(0),
                 # identifiers that contain a parameter name as an underscore-delimited piece: whole-identifier matching only
                 'player_%s = %s' % (p(0), p(0)), 'my_%s_val = #%s' % (p(0), p(0)), '_%s + %s_' % (p(0), p(0)), '%s_%s' % (p(0), p(1)), 'x_%s_y_%s_z' % (p(0), p(1)),
                 '%s1 + 1%s + %s' % (p(0), p(0), p(0)),
                 # a word directly in front of a string that holds comment markers
                 'parseText %s"<a href=http://x.y/z>" + %s' % (p(0), p(0)), 'hint"/* not a comment */" + %s' % p(0), '%s"a // b" + "c /* d"' % p(0), '[%s"//", "*/"%s]' % (p(0), p(1))]
        if objs:
            forms += ['%s + %s' % (r.choice(objs), p(0)), '#%s' % r.choice(objs), '%s##%s' % (p(0), r.choice(objs)),
                      'foo_%s + %s_bar + _%s' % (r.choice(objs), r.choice(objs), r.choice(objs))]
        if fls:
            f = r.choice(fls)
            forms += ['%s(%s)' % (f, ','.join(p(i) for i in range(defined[f]))), '%s(%s)' % (f, ','.join('(%s)' % p(i) for i in range(defined[f]))),
                      '#%s(%s)' % (f, ','.join(p(i) for i in range(defined[f]))) if False else '%s' % f]
        return r.choice(forms)

    # -- a structured source -----------------------------------------------------------------------
    def lines(self, defined, active, depth, files, exp, budget, in_include=False):
        """emit `budget` items; `defined`: name -> arity or None, exact for active text"""
        r = self.r
        out = []
        for _ in range(budget):
            k = r.weighted([('define', 4), ('fdefine', 4), ('use', 6 if defined else 0), ('fuse', 6 if any(v for v in defined.values()) else 0),
                            ('cond', 3 if depth < 2 else 0), ('include', 1 if not in_include and depth == 0 else 0), ('comment', 3), ('string', 3), ('undef', 1 if defined else 0),
                            ('multiline', 1), ('plain', 4), ('near', 3 if defined else 0), ('marker', 2), ('adjacent', 2 if defined else 0), ('hash', 1), ('cba', 1 if depth == 0 else 0), ('linestart', 1)])
            self.note('item:' + k + ('' if active else ':inactive'))
            if k == 'define':
                n = r.choice(NAMES)
                val = self.body((), {m: v for m, v in defined.items() if m != n})
                sp = r.choice([' ', ' ', '  ', '\t'])
                out.append('#define %s%s%s' % (n, sp if val else r.choice(['', ' ']), val))
                if active:
                    defined[n] = None
            elif k == 'fdefine':
                n = r.choice(NAMES)
                ps = r.choice(PARAMS)
                val = self.body(ps, {m: v for m, v in defined.items() if m != n})
                plist = r.choice([',', ', ', ' , ']).join(ps)
                out.append('#define %s(%s) %s' % (n, plist, val))
                if active:
                    if ps:
                        defined[n] = len(ps)
                    else:
                        defined[n] = 0
            elif k == 'multiline':
                n = r.choice(NAMES)
                out.append('#define %s(a,b) a \\\n + \\\n b' % n)
                if active:
                    defined[n] = 2
            elif k == 'use':
                n = r.choice(list(defined))
                t = n if defined[n] is None or r.chance(1, 6) else self.call_of(n, defined)
                out.append(r.choice(['x = %s;', '%s', '[%s, 1]', '(%s)', 'y=%s+%s;' % ('%s', n if defined[n] is None else '1'), '  %s  ', '%s;%s' % ('%s', r.choice(IDENTS))]) % t)
            elif k == 'fuse':
                out.append(r.choice(['x = %s;', '%s', 'call {%s};']) % self.call(defined))
            elif k == 'cond':
                n = r.choice(NAMES + ['_SQFVM', 'NEVER'])
                neg = r.chance(1, 2)
                is_def = n in defined or n == '_SQFVM'
                first = active and (is_def != neg)
                second = active and not first
                out.append('#%s %s' % ('ifndef' if neg else r.choice(['ifdef', 'ifdef', 'IFDEF']), n))
                d1 = dict(defined)
                out += self.lines(d1 if first else dict(defined), first, depth + 1, files, exp, 1 + r.below(3), in_include)
                if first:
                    defined.clear(); defined.update(d1)
                if r.chance(1, 2):
                    out.append('#else')
                    d2 = dict(defined)
                    out += self.lines(d2, second, depth + 1, files, exp, 1 + r.below(3), in_include)
                    if second:
                        defined.clear(); defined.update(d2)
                out.append(r.choice(['#endif', '#endif', '#endif // ' + n]))
            elif k == 'include':
                fn = r.choice(['inc%d.hpp' % r.below(3), 'sub/inc%d.hpp' % r.below(2)])
                if fn not in files:
                    d = dict(defined)
                    body = self.lines(d, active, 1, files, exp, 1 + r.below(4), True)
                    files[fn] = '\n'.join(body) + r.choice(['\n', ''])
                    if active:
                        defined.clear(); defined.update(d)
                    out.append('#include "%s"' % r.choice(['\\' + fn.replace('/', '\\'), '/' + fn, fn]))
                else:
                    out.append('z = 1;')
            elif k == 'comment':
                u = self.uid()
                out.append(r.choice(['// line comment A %d' % u, 'a = 1; /* block A %d */ b = 2;' % u, '/* multi\nline A %d */' % u, 'c = 3; // trailing B "q %d' % u,
                                     '/* "unbalanced %d */ d = 4;' % u, 'e = 5 / 2; f = 6 /7;', '/**/g = 1;', 'h = 1;/* x */// y %d' % u, '/* #define A 9\n#endif %d */' % u,
                                     'i = 1; /* a // b %d */ j = 2;' % u,
                                     # comments whose text begins or ends with the characters that delimit comments
                                     'k = 1; /*/ hidden A %d */ l = 2;' % u, 'm = 1; /*// hidden %d */ n = 2;' % u, 'o = /***/ 1; p = /** A %d **/ 2;' % u,
                                     'q = 1; /*/*/ r = %d;' % u, 's = 1; /* * / A %d */ t = 2;' % u, '//* line comment A %d' % u, 'u = 1; //// A %d' % u,
                                     'v = 1; /* A %d *//* B */ w = 2;' % u, 'x = 1 /*A*/+/*B %d*/ 2;' % u,
                                     'y = /* c %d */"s // not a comment"; z = 1;' % u, 'y = /* c *//* d %d */"/* s */" + "t";' % u, 'y = [/**/"a // b %d"/**/];' % u]))
            elif k == 'string':
                s = self.string(defined)
                out.append(r.choice(['s = %s;', 'hint %s;', '[%s, 1]', '%s']) % s)
                if active:
                    exp['strings'].append(s)
            elif k == 'undef':
                n = r.choice(list(defined))
                out.append('#undef %s' % n)
                if active:
                    defined.pop(n, None)
            elif k == 'near':
                out.append(' '.join(r.choice(self.near_names(r.choice(list(defined)))) for _ in range(1 + r.below(3))))
            elif k == 'marker':
                m = ('SHOWN_%d' if active else 'HIDDEN_%d') % self.uid()
                out.append('m = %s;' % m)
                exp['shown' if active else 'hidden'].append(m)
            elif k == 'adjacent':
                # a macro name directly in front of or behind a string, an operator, a bracket
                n = r.choice(list(defined))
                t = n if defined[n] is None else self.call_of(n, defined)
                out.append(r.choice(['"l"%s"r"', '%s"r"', '"l"%s', '[%s]', '-%s', '%s-1', '{%s}', '!%s', '%s;', '(%s)']) % t)
            elif k == 'cba':
                out += self.cba(defined, active)
            elif k == 'linestart':
                # what may stand in front of a '#' that is not a directive
                out.append(r.choice(['"s" # 0', 'x # 1', '[1,2] # 0', '"a" #b']))
            elif k == 'hash':
                out.append(r.choice(['x = y # 1;', '_a = [1,2] # 0;', 'a #b', '  # 1']) if False else r.choice(['x = y # 1;', '_a = [1,2] # 0;', 'a #b']))
            else:
                out.append(' '.join(self.plain_token() for _ in range(1 + r.below(6))))
        return out

    CBA = [('QUOTE', 1, '#var1', ('var1',)), ('DOUBLES', 2, 'var1##_##var2', ('var1', 'var2')), ('TRIPLES', 3, 'var1##_##var2##_##var3', ('var1', 'var2', 'var3')),
           ('ADDON', None, 'DOUBLES(PREFIX,COMPONENT)', ()), ('GVAR', 1, 'DOUBLES(ADDON,var1)', ('var1',)), ('QGVAR', 1, 'QUOTE(GVAR(var1))', ('var1',)),
           ('FUNC', 1, 'TRIPLES(ADDON,fnc,var1)', ('var1',)), ('QFUNC', 1, 'QUOTE(FUNC(var1))', ('var1',)), ('PATHTOF', 1, '\\MAINPREFIX\\PREFIX\\COMPONENT\\var1', ('var1',)),
           ('QPATHTOF', 1, 'QUOTE(PATHTOF(var1))', ('var1',)), ('ARR_2', 2, 'var1, var2', ('var1', 'var2')), ('EGVAR', 2, 'TRIPLES(PREFIX,var1,var2)', ('var1', 'var2')),
           ('PREP', 1, 'FUNC(var1) = compile preprocessFileLineNumbers QPATHTOF(functions\\DOUBLES(fnc,var1).sqf)', ('var1',))]

    def cba(self, defined, active):
        """the macro layer of CBA-style mods and uses of it"""
        r = self.r
        out = ['#define PREFIX %s' % r.choice(['ace', 'cba', 'x']), '#define COMPONENT %s' % r.choice(['main', 'common']), '#define MAINPREFIX z']
        if active:
            defined['PREFIX'] = None; defined['COMPONENT'] = None; defined['MAINPREFIX'] = None
        for n, ar, body, ps in self.CBA:
            out.append('#define %s%s %s' % (n, '(%s)' % ','.join(ps) if ar is not None else '', body))
            if active:
                defined[n] = ar
        for _ in range(1 + r.below(5)):
            n, ar, _b, _p = r.choice(self.CBA)
            args = [r.choice(['foo', 'bar', 'init', 'x y', '1', 'enabled', '"s"', 'QUOTE(a)', 'GVAR(z)', 'ui\\icon.paa']) for _ in range(ar or 0)]
            use = n if ar is None else '%s(%s)' % (n, ','.join(args))
            out.append(r.choice(['%s;', 'x = %s;', '[%s] call %s;' % ('%s', r.choice(['FUNC(go)', 'foo'])), 'class %s {};', '%s']) % use)
        return out

    def call_of(self, n, defined):
        return '%s(%s)' % (n, ','.join(self.arg(defined, 1) for _ in range(defined[n])))

    def structured(self):
        r = self.r
        files = {}
        exp = {'shown': [], 'hidden': [], 'strings': [], 'plain': False}
        defined = {}
        ls = self.lines(defined, True, 0, files, exp, 3 + r.below(10))
        text = '\n'.join(ls) + r.choice(['\n', '\n', ''])
        if r.chance(1, 8):
            text = text.replace('\n', '\r\n')
            files = {k: v.replace('\n', '\r\n') for k, v in files.items()}
            self.note('crlf')
        return text, files, exp

    def plain(self):
        """no directive, no macro name, no comment, no continuation"""
        r = self.r
        ls = []
        for _ in range(1 + r.below(8)):
            toks = []
            for _ in range(r.below(8)):
                t = r.weighted([('tok', 6), ('str', 2), ('sp', 1)])
                toks.append(self.plain_token() if t == 'tok' else ('"%s"' % r.choice(['s', 'a b', '#x', 'it''s', ''])) if t == 'str' else ' ')
            line = r.choice(['', ' ', '\t']) + ' '.join(toks)
            line = line.replace('/ /', '/').replace('//', '/ ').replace('/*', '/ ')
            ls.append(line)
        text = '\n'.join(ls) + r.choice(['\n', ''])
        # '#' must not begin a line, '/' must not pair up
        text = text.replace('\n#', '\n #')
        while '//' in text or '/*' in text:
            text = text.replace('//', '/ /').replace('/*', '/ *')
        return text, {}, {'shown': [], 'hidden': [], 'strings': [], 'plain': True}

    def malformed(self):
        r = self.r
        k = r.weighted([('argcount', 3), ('recursive', 3), ('unknown', 2), ('else', 1), ('endif', 1), ('noendif', 2), ('noinclude', 2), ('selfinclude', 1),
                        ('unterminated', 2), ('unknown_inactive', 2), ('else_inactive_nested', 2)])
        self.note('malformed:' + k)
        files = {}
        if k == 'argcount':
            t = '#define F(a,b) a+b\nx = F(%s);\n' % r.choice(['1', '1,2,3', ''])
        elif k == 'recursive':
            t = r.choice(['#define A A\nA\n', '#define A B\n#define B A\nx = A;\n', '#define F(a) F(a)\nF(1)\n', '#define F(a) G(a)\n#define G(a) F(a)\nF(1)\n',
                          '#define F(x) x\n#define A F(A)\nA\n', '#define F(x) [x, x]\n#define A F(F(A))\nx = A;\n', '#define G(x) x\n#define F(x) G(x)\n#define A F(B)\n#define B G(A)\nA\n'])
        elif k == 'unknown':
            t = 'a = 1;\n#%s x\nb = 2;\n' % r.choice(['foo', 'elif', 'if', 'error', 'defin'])
        elif k == 'else':
            t = 'a = 1;\n#else\nb = 2;\n'
        elif k == 'endif':
            t = 'a = 1;\n#endif\nb = 2;\n'
        elif k == 'noendif':
            t = '#ifdef %s\na = 1;\n' % r.choice(['_SQFVM', 'NEVER'])
        elif k == 'noinclude':
            t = 'a = 1;\n#include "%s"\nb = 2;\n' % r.choice(['nothere.hpp', '\\x\\nothere.hpp', ''])
        elif k == 'selfinclude':
            files['inc0.hpp'] = 'q = 1;\n#include "\\inc0.hpp"\n'
            t = '#include "\\inc0.hpp"\n'
        elif k == 'unterminated':
            t = '#define F(a,b) a+b\nx = F(1,%s\ny = 2;\n' % r.choice(['2', '(2)', '"s"', '[2'])
        elif k == 'unknown_inactive':
            t = '#ifdef NEVER\n#%s x\nHIDDEN_1\n#endif\nSHOWN_2\n' % r.choice(['foo', 'elif', 'error "x"', 'if 1'])
            return t, files, {'shown': ['SHOWN_2'], 'hidden': ['HIDDEN_1'], 'strings': [], 'plain': False}
        else:
            t = '#ifdef NEVER\n#ifdef %s\nHIDDEN_1\n#else\nHIDDEN_2\n#endif\nHIDDEN_3\n#else\nSHOWN_4\n#endif\n' % r.choice(['_SQFVM', 'NEVER'])
            return t, files, {'shown': ['SHOWN_4'], 'hidden': ['HIDDEN_1', 'HIDDEN_2', 'HIDDEN_3'], 'strings': [], 'plain': False}
        return t, files, {'shown': [], 'hidden': [], 'strings': [], 'plain': False}

    def case(self):
        k = self.r.weighted([('structured', 14), ('plain', 3), ('malformed', 3)])
        self.note('case:' + k)
        return (k,) + getattr(self, k)()
