"""Independent PBO packer and damage generator (C17).

The packer follows the published PBO layout (version header, properties, entry headers, data blocks,
optional 21-byte checksum trailer) and shares no code with the model or the implementation."""
import struct


def cstr(b):
    return b + b'\0'


def rec(method, orig, reserved, timestamp, size):
    return struct.pack('<IIIII', method, orig, reserved, timestamp, size)


METHOD_VERS = 0x56657273


def pack(props, items, trailer=b''):
    out = cstr(b'') + rec(METHOD_VERS, 0, 0, 0, 0)
    for k, v in props:
        out += cstr(k) + cstr(v)
    out += b'\0'
    for it in items:
        out += cstr(it['name']) + rec(it.get('method', 0), len(it['content']), 0, it.get('timestamp', 0), len(it['content']))
    out += cstr(b'') + rec(0, 0, 0, 0, 0)
    for it in items:
        out += it['content']
    return out + trailer


class PboGen:
    def __init__(self, rng):
        self.r = rng
        self.stats = {}

    def note(self, k):
        self.stats[k] = self.stats.get(k, 0) + 1

    def name(self, used):
        r = self.r
        while True:
            # 'mod', 'z' and 'addons' repeat pieces of the prefixes below: an entry may be called like the prefix it lives under
            parts = [r.choice(['a', 'fn_x', 'data', 'sub', 'Config', 'init', 'b2', 'mod', 'z', 'addons', 'x']) for _ in range(1 + r.below(3))]
            n = '\\'.join(parts) + r.choice(['.sqf', '.bin', '.hpp', '.txt', ''])
            if r.chance(1, 12):
                # a long name: 250-320 bytes (strings are read in chunks)
                n = 'long' + 'n' * (246 + r.below(70)) + n
            if n not in used:
                used.add(n)
                return n.encode()

    def content(self):
        r = self.r
        k = r.weighted([('empty', 2), ('text', 4), ('binary', 3), ('big', 1), ('one', 1), ('bom', 2)])
        self.note('content:' + k)
        if k == 'empty':
            return b''
        if k == 'text':
            return r.choice([b'1 + 1', b'diag_log "x";\n', b'class A {};', b'#define X 1\nX'])
        if k == 'one':
            return bytes([r.below(256)])
        if k == 'bom':
            # bytes that look like a byte order mark are content like any other
            return r.choice([b'\xef\xbb\xbf', b'\xfe\xff', b'\xff\xfe', b'\xff\xfe\x00\x00', b'\x00\x00\xfe\xff', b'\x2b\x2f\x76']) + r.choice([b'', b'abc', b'\x00\x01', b'class A {};'])
        n = 3 + r.below(40) if k == 'binary' else 300 + r.below(700)
        return bytes(r.below(256) for _ in range(n))

    def archive(self):
        r = self.r
        props = []
        if r.chance(5, 6):
            props.append((b'prefix', r.choice([b'x\\addons\\mod', b'mod', b'z\\a'])))
        for _ in range(r.below(3)):
            props.append((r.choice([b'version', b'author', b'product']), r.choice([b'1.0', b'', b'some text', b'd' * (250 + r.below(400))])))
        if props and r.chance(1, 3):
            r2 = r.below(len(props) + 1)
            props.insert(r2, (r.choice([b'description', b'k' * 256, b'note']), r.choice([b'v' * 255, b'v' * 256, b'v' * 257, b'w' * 600, b'short'])))
        used = set()
        items = [{'name': self.name(used), 'content': self.content(), 'timestamp': r.below(1 << 31), 'method': 0} for _ in range(r.below(6))]
        if items and r.chance(1, 4):
            # a second entry whose name differs from an existing one only in the case of its letters: entry names are
            # arbitrary, the two are different entries with their own bytes
            base = r.choice(items)['name'].decode('latin-1')
            var = ''.join(ch.upper() if ch.islower() and r.chance(1, 2) else ch.lower() if ch.isupper() and r.chance(1, 2) else ch for ch in base)
            if var == base:
                var = base.swapcase()
            if var != base and var not in used:
                used.add(var)
                items.insert(r.below(len(items) + 1), {'name': var.encode('latin-1'), 'content': self.content() + b'#case', 'timestamp': 1, 'method': 0})
                self.note('case-variant entry')
        trailer = r.choice([b'', b'', b'\0' + bytes(r.below(256) for _ in range(20))])
        return props, items, trailer

    def pair(self):
        """two archives under different prefixes that hold entries of the same names with different bytes"""
        r = self.r
        used = set()
        names = [self.name(used) for _ in range(1 + r.below(4))]
        pa, pb = r.choice([(b'modA', b'modB'), (b'x\\addons\\one', b'x\\addons\\two'), (b'z\\a', b'z\\b'), (b'mod', b'mod2')])
        ia = [{'name': n, 'content': self.content() + b'#A', 'timestamp': 1, 'method': 0} for n in names]
        ib = [{'name': n, 'content': self.content() + b'#B', 'timestamp': 2, 'method': 0} for n in names if r.chance(3, 4)]
        if r.chance(1, 2):
            ib.append({'name': self.name(used), 'content': self.content() + b'#B', 'timestamp': 2, 'method': 0})
        self.note('pair')
        return ([(b'prefix', pa)], ia), ([(b'prefix', pb)], ib)

    def damage(self, data):
        """(kind, bytes)"""
        r = self.r
        k = r.weighted([('truncate', 6), ('flip', 4), ('sizefield', 3), ('insert', 1), ('zeros', 1), ('random', 1)])
        self.note('damage:' + k)
        if k == 'truncate':
            return k, data[:r.below(len(data) + 1)]
        if k == 'flip':
            if not data:
                return k, data
            i = r.below(len(data))
            return k, data[:i] + bytes([data[i] ^ (1 << r.below(8))]) + data[i + 1:]
        if k == 'sizefield':
            # overwrite four bytes somewhere in the header area with a huge little-endian number
            i = r.below(max(1, min(len(data), 200)))
            big = struct.pack('<I', r.choice([0xFFFFFFFF, 0x7FFFFFFF, 0x10000000, len(data) + 1, len(data)]))
            return k, data[:i] + big + data[i + 4:]
        if k == 'insert':
            i = r.below(len(data) + 1)
            return k, data[:i] + bytes(r.below(256) for _ in range(1 + r.below(5))) + data[i:]
        if k == 'zeros':
            return k, bytes(r.below(64))
        return k, bytes(r.below(256) for _ in range(r.below(120)))
