"""Programs for the value-for-value comparison of the operators whose arguments decide what memory is touched
(C09): select, resize, deleteAt, deleteRange, set, sort, format, and iteration over an array the code changes.
One operator use per program, so that a diagnostic of error level (which stops the script) is seen together
with the state of the array behind it."""

# whole-number edge cases; 1e400 is not a number (NaN) for the tokenizer and for the model
IDX = ['0', '1', '2', '3', '4', '5', '6', '-1', '-0', '0.4', '0.5', '0.6', '1.5', '2.5', '-0.5', '-0.6', '4.49', '4.5', '100', '-100', '2147483520', '2147483647', '2147483648',
       '-2147483648', '-2147483904', '4294967296', '2e9', '-2e9', '4e9', '1e10', '9.2e18', '1e38', '-1e38', '1e39', '-1e39', '1e400', '-1e400', '16777217', '9999999', '10000000']
SMALL = ['0', '1', '2', '3', '5', '7', '-1', '0.5', '1.5', '2.49', '-0.4']
ARRS = ['[]', '[1]', '[1,2,3,4,5]', '["a","b","c"]', '[[1,2],[3],[]]', '[1,"a",true,{},[],nil]', '[nil,nil]', '[5,4,3,2,1,0,9,8,7,6,11,10]']
SIZES = {'[]': 0, '[1]': 1, '[1,2,3,4,5]': 5, '["a","b","c"]': 3, '[[1,2],[3],[]]': 3, '[1,"a",true,{},[],nil]': 6, '[nil,nil]': 2, '[5,4,3,2,1,0,9,8,7,6,11,10]': 12}


class KernGen:
    def __init__(self, rng):
        self.r = rng
        self.stats = {}

    def note(self, k):
        self.stats[k] = self.stats.get(k, 0) + 1

    def n(self, small=1, big=2, size=None):
        r = self.r
        if size is not None and r.chance(1, 3):
            # around the size of the array: the last index, the size itself, one more
            return str(r.choice([size - 1, size, size + 1, size, size - 0.5, size + 0.4]))
        return r.choice(SMALL) if r.below(small + big) < small else r.choice(IDX)

    def program(self):
        r = self.r
        k = r.weighted([('select', 5), ('selectrange', 6), ('resize', 4), ('deleteat', 4), ('deleterange', 6), ('set', 4), ('sort', 6), ('format', 6), ('mutate', 5), ('selectrange_bad', 2),
                        ('deleterange_bad', 2)])
        self.note(k)
        a = r.choice(ARRS)
        size = SIZES[a]
        if k == 'select':
            return 'tr = %s; g1 = tr select %s; g2 = 1;' % (a, self.n(size=size))
        if k == 'selectrange':
            return 'tr = %s; g1 = tr select [%s, %s]; g2 = 1;' % (a, self.n(size=size), self.n(size=size))
        if k == 'selectrange_bad':
            return 'tr = %s; g1 = tr select %s; g2 = 1;' % (a, r.choice(['[]', '[1]', '["a", 1]', '[1, "a"]', '[1, 2, 3]', '[nil, 1]', '[1, nil]', '[[1], 1]']))
        if k == 'resize':
            # growth is kept small (or beyond the limit): the model would build the list
            return 'tr = %s; tr resize %s; g1 = count tr; g2 = tr;' % (a, r.choice(SMALL + ['-100', '1e400', '-1e400', '10000000', '1e10', '4e9', '2147483648', '-2147483904', '12', '40']))
        if k == 'deleteat':
            return 'tr = %s; g1 = tr deleteAt %s; g2 = tr;' % (a, self.n(size=size))
        if k == 'deleterange':
            return 'tr = %s; tr deleteRange [%s, %s]; g1 = count tr; g2 = tr;' % (a, self.n(size=size), self.n(size=size))
        if k == 'deleterange_bad':
            return 'tr = %s; tr deleteRange %s; g2 = tr;' % (a, r.choice(['[]', '[1]', '["a", 1]', '[1, "a"]', '[1, 2, 3]', '["a", "b"]', '[nil, 1]']))
        if k == 'set':
            return 'tr = %s; tr set [%s, 7]; g1 = count tr; g2 = tr;' % (a, r.choice(SMALL + ['-100', '1e400', '10000000', '1e10', '4e9', '2147483648', '-2147483904', '12', '30', '"a"', 'nil']))
        if k == 'sort':
            keys = r.choice(['nums', 'nums_nan', 'strs', 'pairs', 'pairs_nan', 'mixed', 'shape', 'one', 'empty', 'nested', 'bools', 'lens', 'many_nan', 'many_nan_pairs'])
            self.note('sort:' + keys)
            asc = r.choice(['true', 'false'])
            if keys == 'nums':
                xs = [str(v) for v in self.distinct(['3', '1', '2', '-1', '0.5', '10', '-7', '1e10', '-1e9', '2.5', '100', '7'])]
            elif keys == 'nums_nan':
                xs = [str(v) for v in self.distinct(['3', '1', '2', '-1', '0.5', '10'])] + ['1e400']
            elif keys == 'strs':
                xs = ['"%s"' % v for v in self.distinct(['b', 'a', 'ab', '', 'B', 'z', 'a b', '10', '9', 'aa', '~'])]
            elif keys == 'pairs':
                ns = self.distinct(['3', '1', '2', '7', '0', '-4', '5'])
                xs = ['[%s, "%s"]' % (r.choice(['1', '2']), v) for v in self.distinct(['k', 'a', 'c', 'b', 'z', 'm'])] if r.chance(1, 2) else ['[%s, "x"]' % v for v in ns]
            elif keys == 'pairs_nan':
                xs = ['[%s, %s]' % (v, w) for v, w in zip(self.distinct(['1', '1e400', '2', '0']), ['5', '6', '7', '8'])]
            elif keys == 'many_nan':
                # enough equal (unordered) keys for the sorting routine to leave its insertion sort
                xs = ['1e400'] * (17 + r.below(8))
            elif keys == 'many_nan_pairs':
                xs = ['[1e400, %d]' % (40 - i) for i in range(18 + r.below(8))]
            elif keys == 'mixed':
                xs = ['1', '"a"', '2']
            elif keys == 'shape':
                xs = r.choice([['[1, "a"]', '["b", 2]'], ['[1, 2]', '[3]'], ['[1]', '2'], ['[1, [2]]', '[0, [3]]'], ['[]', '[]']])
            elif keys == 'one':
                xs = ['"only"']
            elif keys == 'empty':
                xs = []
            elif keys == 'nested':
                xs = ['[[2], 1]', '[[1], 2]']
            elif keys == 'bools':
                xs = ['true', 'false']
            else:
                xs = ['[1, 2, 3]', '[1, 2]']
            return 'tr = [%s]; tr sort %s; g1 = count tr; g2 = tr;' % (', '.join(xs), asc)
        if k == 'format':
            f = r.choice(['%1', '%2 %1', '%0', '%99999999999', '%', '%%', '%a', '%1%', 'x%1y%2z', '%3', '%1%2%3%4', '%10', '%01', '%1 %1 %1', 'plain', '', '%-1', '%1.5', '%2147483648', '100%',
                          '%18446744073709551617', '%4294967297'])
            args = r.choice(['', ', 1', ', "s", 2', ', [1, "a"], nil', ', true, {x}, 2.5', ', 1, 2, 3, 4, 5, 6, 7, 8, 9, 10'])
            if r.chance(1, 12):
                return 'g1 = format %s; g2 = 1;' % r.choice(['[]', '[1, 2]', '[nil]', '[["%1"], 1]'])
            return 'g1 = format ["%s"%s]; g2 = 1;' % (f, args)
        # the code changes the array that is being walked
        body = r.choice(['tr resize 0; %s', 'tr deleteAt 0; %s', 'tr resize 1; %s', 'tr resize 2; %s', 'if (_x == 2) then {tr resize 1}; %s', 'if (count tr < 7) then {tr pushBack 9}; %s'])
        op = r.choice(['apply', 'forEach', 'select', 'count', 'findIf'])
        val = {'apply': '_x', 'forEach': '_x', 'select': 'true', 'count': 'true', 'findIf': 'false'}[op]
        body = body % val if '%s' in body else body
        if op in ('forEach', 'count'):
            return 'tr = [1,2,3,4]; g1 = {%s} %s tr; g2 = tr;' % (body, op)
        return 'tr = [1,2,3,4]; g1 = tr %s {%s}; g2 = tr;' % (op, body)

    def distinct(self, pool):
        r = self.r
        k = 2 + r.below(min(5, len(pool) - 1))
        out = []
        while len(out) < k:
            v = r.choice(pool)
            if v not in out:
                out.append(v)
        return out
