"""Generators for the container properties.

HeapGen (C08): operation histories over a few array variables with heavy aliasing, fresh-copy operators
and self-insertion attempts; a Python simulation with real object identity (lists are references) is the
reference semantics.

MapGen (C07): histories over hash maps with keys from a collision alphabet; the reference is a Python
dictionary keyed by the equivalence class of the key.
"""
import copy

NIL = None


def fmt(v):
    if v is NIL:
        return 'nil'
    if v is True:
        return 'true'
    if v is False:
        return 'false'
    if isinstance(v, list):
        return '[' + ','.join(fmt(x) for x in v) + ']'
    if isinstance(v, str):
        return '"' + v.replace('"', '""') + '"'
    if isinstance(v, float) and v == int(v):
        v = int(v)
    return str(v)


def reaches(container, target, seen=None):
    """does `container` (a list) contain `target` directly or through nested lists?"""
    for x in container:
        if x is target:
            return True
        if isinstance(x, list) and reaches(x, target):
            return True
    return False


def val_eq(a, b):
    """value::operator== : nil == nil, arrays element-wise with nil elements never equal"""
    if a is NIL and b is NIL:
        return True
    if a is NIL or b is NIL:
        return False
    return data_eq(a, b)


def data_eq(a, b):
    if isinstance(a, bool) or isinstance(b, bool):
        return isinstance(a, bool) and isinstance(b, bool) and a == b
    if isinstance(a, list) and isinstance(b, list):
        if a is b:
            return True
        if len(a) != len(b):
            return False
        for x, y in zip(a, b):
            if x is NIL or y is NIL:
                return False
            if not data_eq(x, y):
                return False
        return True
    if isinstance(a, (int, float)) and isinstance(b, (int, float)):
        return a == b
    if isinstance(a, str) and isinstance(b, str):
        return a == b
    return False



def copy_deep(v):
    """unary +: every nested array is copied, each occurrence on its own — an array that occurs twice in the
    original gives two independent copies (the property promises that the copy shares nothing with the original,
    not that sharing inside the copy mirrors sharing inside the original)"""
    if isinstance(v, list):
        return [copy_deep(x) for x in v]
    return v

class HeapGen:
    VARS = ['g1', 'g2', 'gx', 'ga']

    def __init__(self, rng):
        self.r = rng
        self.stats = {}

    def note(self, k):
        self.stats[k] = self.stats.get(k, 0) + 1

    def lit(self):
        r = self.r
        k = r.weighted([('num', 5), ('str', 2), ('arr', 2)])
        if k == 'num':
            n = r.below(9)
            return str(n), n
        if k == 'str':
            s = r.choice(['a', 'A', 'b', ''])
            return '"%s"' % s, s
        items = [self.lit() for _ in range(r.below(3))]
        return '[' + ', '.join(i[0] for i in items) + ']', [i[1] for i in items]

    def history(self):
        r = self.r
        env = {}
        stmts = ['tr = []']
        snaps = []
        # initialise
        for v in self.VARS:
            t, val = self.lit() if r.chance(1, 3) else ('[' + ', '.join(str(r.below(9)) for _ in range(r.below(4))) + ']', None)
            if val is None:
                val = [int(x) for x in t.strip('[]').split(', ') if x != '']
            if not isinstance(val, list):
                t, val = '[%s]' % t, [val]
            env[v] = val
            stmts.append('%s = %s' % (v, t))
        for _ in range(3 + r.below(10)):
            a = r.choice(self.VARS)
            b = r.choice(self.VARS)
            op = r.weighted([('alias', 3), ('copy', 2), ('plus', 2), ('minus', 1), ('selrange', 2), ('apply', 1), ('filter', 1),
                             ('set', 4), ('pushBack', 4), ('pushBackUnique', 2), ('append', 3), ('deleteAt', 3), ('resize', 2),
                             ('reverse', 2), ('selfins', 4), ('nest', 3), ('deeplit', 2), ('deepmut', 4), ('freshlit', 3)])
            self.note(op)
            A, Bv = env[a], env[b]
            if op == 'alias':
                env[a] = Bv
                stmts.append('%s = %s' % (a, b))
            elif op == 'copy':
                env[a] = copy_deep(Bv)
                stmts.append('%s = +%s' % (a, b))
            elif op == 'plus':
                c = r.choice(self.VARS)
                env[a] = list(Bv) + list(env[c])
                stmts.append('%s = %s + %s' % (a, b, c))
            elif op == 'minus':
                c = r.choice(self.VARS)
                env[a] = [x for x in Bv if not any(val_eq(y, x) for y in env[c])]
                stmts.append('%s = %s - %s' % (a, b, c))
            elif op == 'selrange':
                s = r.below(len(Bv) + 1)
                ln = r.below(4)
                env[a] = list(Bv[s:s + ln])
                stmts.append('%s = %s select [%d, %d]' % (a, b, s, ln))
            elif op == 'apply':
                env[a] = list(Bv)
                stmts.append('%s = %s apply { _x }' % (a, b))
            elif op == 'filter':
                env[a] = list(Bv)
                stmts.append('%s = %s select { true }' % (a, b))
            elif op == 'set':
                i = r.below(len(A) + 3)
                t, val = self.lit()
                while len(A) <= i:
                    A.append(NIL)
                A[i] = val
                stmts.append('%s set [%d, %s]' % (a, i, t))
            elif op == 'pushBack':
                t, val = self.lit()
                A.append(val)
                stmts.append('%s pushBack %s' % (a, t))
            elif op == 'pushBackUnique':
                t, val = self.lit()
                if not any(val_eq(x, val) for x in A):
                    A.append(val)
                stmts.append('%s pushBackUnique %s' % (a, t))
            elif op == 'append':
                items = list(Bv)
                if any((x is A) or (isinstance(x, list) and reaches(x, A)) for x in items):
                    pass        # refused: would make the array contain itself
                else:
                    A.extend(items)
                stmts.append('{ %s append %s } except__ { }' % (a, b))
            elif op == 'deleteAt':
                i = r.below(len(A) + 2)
                if i < len(A):
                    del A[i]
                stmts.append('%s deleteAt %d' % (a, i))
            elif op == 'resize':
                n = r.below(6)
                if n <= len(A):
                    del A[n:]
                else:
                    A.extend([NIL] * (n - len(A)))
                stmts.append('%s resize %d' % (a, n))
            elif op == 'reverse':
                A.reverse()
                stmts.append('reverse %s' % a)
            elif op == 'freshlit':
                # the same array literal evaluated more than once (function called twice, loop body) yields a fresh array
                # each time: what an earlier evaluation's array was given later is not in the next one
                lit = r.choice(['[]', '[]', '[7]', '[[]]'])
                base = {'[]': [], '[7]': [7], '[[]]': [[]]}[lit]
                if r.chance(1, 2):
                    n1, n2 = r.below(9), r.below(9)
                    env[a] = copy_deep(base) + [n1]
                    stmts.append('gf = { private _r = %s; _r pushBack _this; _r }; %s = %d call gf' % (lit, a, n1))
                    if b != a:
                        env[b] = copy_deep(base) + [n2]
                        stmts.append('%s = %d call gf' % (b, n2))
                    self.note('freshlit:function')
                else:
                    k = 2 + r.below(2)
                    env[a] = [copy_deep(base) + [i] for i in range(k)]
                    stmts.append('%s = []; for "_i" from 0 to %d do { private _e = %s; _e pushBack _i; %s pushBack _e }' % (a, k - 1, lit, a))
                    self.note('freshlit:loop')
            elif op == 'deeplit':
                n1, n2, n3 = r.below(9), r.below(9), r.below(9)
                env[a] = [[[n1], n2], [n3]]
                stmts.append('%s = [[[%d], %d], [%d]]' % (a, n1, n2, n3))
            elif op == 'deepmut':
                # mutate an array nested one to three levels below a variable: every alias of that inner array
                # sees it, every (deep) copy made earlier does not
                paths = []

                def walk(v, path, depth):
                    if depth > 3:
                        return
                    for i, x in enumerate(v):
                        if isinstance(x, list):
                            paths.append((path + [i], x))
                            walk(x, path + [i], depth + 1)
                walk(A, [], 1)
                if paths:
                    path, target = r.choice(paths)
                    n = r.below(9)
                    target.append(n)
                    expr = a
                    for i in path:
                        expr = '(%s select %d)' % (expr, i)
                    stmts.append('%s pushBack %d' % (expr, n))
                    self.note('deepmut:depth%d' % len(path))
                else:
                    A.append(3)
                    stmts.append('%s pushBack 3' % a)
            elif op == 'nest':
                # put one array inside another (aliasing through containers); refused if it closes a cycle
                via = r.choice(['pushBack', 'set'])
                # `set` at an index inside, at the end of, or beyond the end of the array (it grows with nils)
                k = r.choice([0, 0, len(A), len(A) + 1 + r.below(3)]) if via == 'set' else 0
                if (Bv is A) or reaches(Bv, A):
                    pass                       # refused: the array stays as it was, it does not even grow
                else:
                    if via == 'pushBack':
                        A.append(Bv)
                    else:
                        while len(A) <= k:
                            A.append(NIL)
                        A[k] = Bv
                stmts.append('{ %s } except__ { }' % ('%s pushBack %s' % (a, b) if via == 'pushBack' else '%s set [%d, %s]' % (a, k, b)))
            elif op == 'selfins':
                route = r.choice(['pushBack', 'set', 'append', 'appendwrap', 'wrap2', 'pushBackUnique'])
                self.note('selfins:' + route)
                if route == 'pushBack':
                    stmts.append('{ %s pushBack %s } except__ { }' % (a, a))
                elif route == 'pushBackUnique':
                    stmts.append('{ %s pushBackUnique %s } except__ { }' % (a, a))
                elif route == 'set':
                    # refused wherever the index points: inside, at the end or beyond it — the array does not grow
                    k = r.choice([0, len(A), len(A) + 1 + r.below(3)])
                    stmts.append('{ %s set [%d, %s] } except__ { }' % (a, k, a))
                elif route == 'append':
                    A.extend(list(A))       # appending an array to itself copies its elements: not a cycle
                    stmts.append('%s append %s' % (a, a))
                elif route == 'appendwrap':
                    stmts.append('{ %s append [%s] } except__ { }' % (a, a))
                else:
                    stmts.append('{ %s pushBack [[%s]] } except__ { }' % (a, a))
            snaps.append(fmt([fmt_snapshot(env[v]) for v in self.VARS]))
            stmts.append('tr pushBack str [%s]' % ', '.join(self.VARS))
        return '; '.join(stmts), snaps


class PMap:
    """a hash map of the simulation: insertion-ordered (key, value) pairs; identity matters"""
    def __init__(self):
        self.items = []

    def children(self):
        for k, v in self.items:
            yield k
            yield v


def reaches_any(x, target):
    """can `target` be reached from container `x` through arrays and maps (keys and values)?"""
    kids = x if isinstance(x, list) else (list(x.children()) if isinstance(x, PMap) else [])
    for c in kids:
        if c is target:
            return True
        if isinstance(c, (list, PMap)) and reaches_any(c, target):
            return True
    return False


def is_or_reaches(v, target):
    return v is target or (isinstance(v, (list, PMap)) and reaches_any(v, target))


def render_h(v):
    """text of the harness' render_value: arrays by content, hash maps as sorted entry lists"""
    if isinstance(v, PMap):
        return '#{' + ','.join(sorted(render_h(k) + '=' + render_h(x) for k, x in v.items)) + '}'
    if isinstance(v, list):
        return '[' + ','.join(render_h(x) for x in v) + ']'
    return fmt(v)


class CycleGen:
    """C08: histories over two arrays and two hash maps that try to close a cycle through every
    inserting operator of either container kind; an insertion that would make a container reach
    itself must be refused and leave everything as it was."""
    AV = ['g1', 'g2']
    MV = ['gx', 'ga']

    def __init__(self, rng):
        self.r = rng
        self.stats = {}

    def note(self, k):
        self.stats[k] = self.stats.get(k, 0) + 1

    def history(self):
        r = self.r
        env = {'g1': [], 'g2': [], 'gx': PMap(), 'ga': PMap()}
        stmts = ['tr = []', 'g1 = []', 'g2 = []', 'gx = createHashMap', 'ga = createHashMap']
        snaps = []
        refused = 0
        for _ in range(3 + r.below(10)):
            op = r.weighted([('arr_in_map', 5), ('map_in_arr', 5), ('map_in_map', 4), ('arr_in_arr', 3), ('selfmap', 2), ('selfkey', 1), ('map_in_key', 4),
                             ('wrapmap', 2), ('alias_arr', 1), ('alias_map', 1), ('get', 2), ('delete', 2), ('num', 2), ('fresh', 1)])
            self.note(op)
            a = r.choice(self.AV)
            b = r.choice(self.AV)
            h = r.choice(self.MV)
            g = r.choice(self.MV)
            key = r.choice(['k', 'j'])
            A, Bv, H, G = env[a], env[b], env[h], env[g]

            def mapset(M, k, val):
                for i, (kk, _) in enumerate(M.items):
                    if kk == k:
                        M.items[i] = (kk, val)
                        return
                M.items.append((k, val))

            if op == 'arr_in_map':
                if is_or_reaches(A, H):
                    refused += 1
                else:
                    mapset(H, key, A)
                stmts.append('{ %s set ["%s", %s] } except__ { }' % (h, key, a))
            elif op == 'map_in_map':
                if is_or_reaches(G, H):
                    refused += 1
                else:
                    mapset(H, key, G)
                stmts.append('{ %s set ["%s", %s] } except__ { }' % (h, key, g))
            elif op == 'map_in_arr':
                via = r.choice(['pushBack', 'set', 'append'])
                self.note('map_in_arr:' + via)
                cyc = is_or_reaches(H, A)
                if cyc:
                    refused += 1
                if via == 'pushBack':
                    if not cyc:
                        A.append(H)
                    stmts.append('{ %s pushBack %s } except__ { }' % (a, h))
                elif via == 'set':
                    k = r.choice([0, len(A), len(A) + 1 + r.below(2)])
                    if not cyc:
                        while len(A) <= k:
                            A.append(NIL)
                        A[k] = H
                    stmts.append('{ %s set [%d, %s] } except__ { }' % (a, k, h))
                else:
                    if not cyc:
                        A.append(H)
                    stmts.append('{ %s append [%s] } except__ { }' % (a, h))
            elif op == 'arr_in_arr':
                if is_or_reaches(Bv, A):
                    refused += 1
                else:
                    A.append(Bv)
                stmts.append('{ %s pushBack %s } except__ { }' % (a, b))
            elif op == 'map_in_key':
                # a map (or an array holding it) as part of a key of another map: keys are containers too
                self.uid = getattr(self, 'uid', 0) + 1
                inner = r.choice(['%s' % g, '[%s]' % g])
                if is_or_reaches(G, H):
                    refused += 1
                else:
                    kv = [G, self.uid] if inner == g else [[G], self.uid]
                    H.items.append((kv, 1))
                stmts.append('{ %s set [[%s, %d], 1] } except__ { }' % (h, inner, self.uid))
            elif op == 'selfmap':
                refused += 1
                stmts.append('{ %s set ["%s", %s] } except__ { }' % (h, key, h))
            elif op == 'selfkey':
                refused += 1
                stmts.append('{ %s set [[%s], 1] } except__ { }' % (h, h))
            elif op == 'wrapmap':
                refused += 1
                stmts.append('{ %s set ["%s", [[%s]]] } except__ { }' % (h, key, h))
            elif op == 'alias_arr':
                env[a] = Bv
                stmts.append('%s = %s' % (a, b))
            elif op == 'alias_map':
                env[h] = G
                stmts.append('%s = %s' % (h, g))
            elif op == 'get':
                got = [v for k, v in H.items if k == key]
                if got and isinstance(got[0], list):
                    env[a] = got[0]
                    stmts.append('%s = %s get "%s"' % (a, h, key))
                elif got and isinstance(got[0], PMap):
                    env[g] = got[0]
                    stmts.append('%s = %s get "%s"' % (g, h, key))
                else:
                    stmts.append('%s pushBack 7' % a)
                    A.append(7)
            elif op == 'delete':
                H.items = [(k, v) for k, v in H.items if k != key]
                stmts.append('%s deleteAt "%s"' % (h, key))
            elif op == 'num':
                n = r.below(9)
                mapset(H, key, n)
                stmts.append('%s set ["%s", %d]' % (h, key, n))
            else:
                if r.chance(1, 2):
                    env[a] = []
                    stmts.append('%s = []' % a)
                else:
                    env[h] = PMap()
                    stmts.append('%s = createHashMap' % h)
            snaps.append([len(env['g1']), len(env['g2']), len(env['gx'].items), len(env['ga'].items)])
            stmts.append('tr pushBack [count g1, count g2, count gx, count ga]')
        if refused:
            self.note('histories_with_refusal')
        final = {v: render_h(env[v]) for v in self.AV + self.MV}
        return '; '.join(stmts), snaps, final


def fmt_snapshot(v):
    return v


def fmt_str(v):
    """what `str` prints: arrays without spaces, numbers by %g"""
    return fmt(v)


# ---------------------------------------------------------------------------------------------------
# C07: equality / hashing / hash maps
# ---------------------------------------------------------------------------------------------------
# (source text, key) — `key` is the equivalence class under isEqualTo; `cikey` additionally ignores
# string case (what `==` does)
CODE_CLASSES = {'{0}': 'c0', '{-0}': 'c0', '{1+1}': 'c11', '{1 + 1}': 'c11', '{(1+1)}': 'c11', '{1}': 'c1', '{}': 'ce', '{"a"}': 'ca', '{"A"}': 'cA'}


def key_of(v, ci=False):
    if isinstance(v, tuple) and v and v[0] == 'code':
        return ('code', CODE_CLASSES[v[1]])      # code compares instruction-wise, case-sensitively, in both modes
    if isinstance(v, bool):
        return ('b', v)
    if isinstance(v, (int, float)):
        return ('n', float(v) + 0.0 if v != 0 else 0.0)
    if isinstance(v, str):
        return ('s', v.lower() if ci else v)
    if isinstance(v, list):
        return ('a', tuple(key_of(x, ci) for x in v))
    raise ValueError(v)


ALPHABET = [
    ('0', 0), ('-0', -0.0), ('1', 1), ('1.5', 1.5), ('"a"', 'a'), ('"A"', 'A'), ('""', ''), ('true', True), ('false', False),
    ('[]', []), ('[0]', [0]), ('[-0]', [-0.0]), ('[1,"a"]', [1, 'a']), ('[1,"A"]', [1, 'A']), ('[[0]]', [[0]]), ('[[]]', [[]]),
    ('[0,0]', [0, 0]), ('{0}', ('code', '{0}')), ('{-0}', ('code', '{-0}')), ('{1+1}', ('code', '{1+1}')), ('{1 + 1}', ('code', '{1 + 1}')),
    ('{(1+1)}', ('code', '{(1+1)}')), ('{1}', ('code', '{1}')), ('{}', ('code', '{}')), ('{"a"}', ('code', '{"a"}')), ('{"A"}', ('code', '{"A"}')),
    ('[{0}]', [('code', '{0}')]), ('[{-0}]', [('code', '{-0}')]), ('[true]', [True]), ('[1]', [1]), ('"0"', '0'),
    # strings that differ only in bit 0x20 of a character that is not a letter ([ {, @ `, ^ ~), and letters from the end
    # of the alphabet: ignoring case must not identify the former and must identify the latter
    ('"[x]"', '[x]'), ('"{x}"', '{x}'), ('"a@b"', 'a@b'), ('"a`b"', 'a`b'), ('"^"', '^'), ('"~"', '~'), ('"Zz"', 'Zz'), ('"zZ"', 'zZ'),
    # neighbouring single-precision values (one unit in the last place apart): different numbers, different keys
    ('1.0000001', 1.0000001), ('1.0000002', 1.0000002), ('16777216', 16777216), ('16777218', 16777218), ('[1.0000001]', [1.0000001]),
]


class MapGen:
    def __init__(self, rng):
        self.r = rng
        self.stats = {}

    def note(self, k):
        self.stats[k] = self.stats.get(k, 0) + 1

    def key(self):
        return self.r.choice(ALPHABET)

    def history(self):
        """returns (program text, expected list of observations as rendered text)"""
        r = self.r
        maps = {'h1': {}, 'h2': {}}
        stmts = ['tr = []', 'h1 = createHashMap', 'h2 = createHashMap']
        exp = []

        def show(v):
            return fmt_val(v)
        for _ in range(4 + r.below(12)):
            h = r.choice(['h1', 'h2'])
            op = r.weighted([('set', 6), ('get', 5), ('in', 3), ('count', 2), ('delete', 3), ('copy', 2), ('fromarray', 1), ('fromarray_dup', 2), ('keys', 2), ('alias', 2), ('mutkey', 3), ('snapshot', 2)])
            self.note(op)
            D = maps[h]
            if op == 'set':
                kt, kv = self.key()
                val = r.below(100)
                D[key_of(kv)] = val
                stmts.append('%s set [%s, %d]' % (h, kt, val))
            elif op == 'get':
                kt, kv = self.key()
                got = D.get(key_of(kv))
                exp.append('[%s]' % ('nil' if got is None else str(got)))
                stmts.append('tr pushBack [%s get %s]' % (h, kt))
            elif op == 'in':
                kt, kv = self.key()
                exp.append('true' if key_of(kv) in D else 'false')
                stmts.append('tr pushBack (%s in %s)' % (kt, h))
            elif op == 'count':
                exp.append(str(len(D)))
                stmts.append('tr pushBack (count %s)' % h)
            elif op == 'keys':
                exp.append('[%d,%d]' % (len(D), len(D)))
                stmts.append('tr pushBack [count (keys %s), {_x in %s} count (keys %s)]' % (h, h, h))
            elif op == 'delete':
                kt, kv = self.key()
                got = D.pop(key_of(kv), None)
                exp.append('[%s]' % ('nil' if got is None else str(got)))
                stmts.append('tr pushBack [%s deleteAt %s]' % (h, kt))
            elif op == 'copy':
                other = 'h2' if h == 'h1' else 'h1'
                maps[other] = dict(D)
                stmts.append('%s = +%s' % (other, h))
            elif op == 'fromarray':
                pairs = [(self.key(), r.below(100)) for _ in range(r.below(4))]
                nd = {}
                for (kt, kv), val in pairs:
                    nd[key_of(kv)] = val
                maps[h] = nd
                stmts.append('%s = createHashMapFromArray [%s]' % (h, ', '.join('[%s, %d]' % (kt, val) for (kt, kv), val in pairs)))
            elif op == 'fromarray_dup':
                # the same key (or an equal one of another spelling) more than once: the last pair wins
                k1 = self.key()
                same = [k for k in ALPHABET if key_of(k[1]) == key_of(k1[1])]
                k2 = r.choice(same)
                pairs = [(k1, r.below(100)), (self.key(), r.below(100)), (k2, r.below(100))]
                if r.chance(1, 2):
                    pairs.append((r.choice(same), r.below(100)))
                nd = {}
                for (kt, kv), val in pairs:
                    nd[key_of(kv)] = val
                maps[h] = nd
                stmts.append('%s = createHashMapFromArray [%s]' % (h, ', '.join('[%s, %d]' % (kt, val) for (kt, kv), val in pairs)))
                exp.append('[%d,%d]' % (len(nd), nd[key_of(k1[1])]))
                stmts.append('tr pushBack [count %s, %s get %s]' % (h, h, k1[0]))
            elif op == 'alias':
                # a key array mutated after insertion must neither lose nor change the entry
                val = r.below(100)
                D[key_of([1])] = val
                stmts.append('k = [1]; %s set [k, %d]; k pushBack 2' % (h, val))
                exp.append('[%d,%s,%d]' % (val, 'nil' if key_of([1, 2]) not in D else str(D[key_of([1, 2])]), len(D)))
                stmts.append('tr pushBack [%s get [1], %s get [1,2], count %s]' % (h, h, h))
            elif op == 'snapshot':
                # a map stored in a map: another object that merely compares equal to the target (its copy, or an empty map
                # in an empty map) is no self-reference; the entry is stored
                before = len(D)
                fresh = r.chance(1, 2)
                D[('s', 'snap')] = 'MAP'
                stmts.append('%s set ["snap", %s]' % (h, 'createHashMap' if fresh else '+' + h))
                exp.append('[%d,%d]' % (len(D), 0 if fresh else before))
                stmts.append('tr pushBack [count %s, count (%s get "snap")]' % (h, h))
            elif op == 'mutkey':
                # an array object that has served as a key (looked up, or inserted: the map keeps its own copy) is changed
                # in place without changing its length, or through an array nested in it, and serves as a key again: it
                # is the key its present content denotes
                a, b, c = r.below(3), r.below(3), 3 + r.below(3)
                v0, v1 = r.below(100), r.below(100)
                nested = r.chance(1, 2)
                before = [[a], b] if nested else [a, b]
                after = [[a, c], b] if nested else [c, b]
                name = 'k%d' % len(stmts)
                if nested:
                    stmts.append('kin = [%d]; %s = [kin, %d]' % (a, name, b))
                else:
                    stmts.append('%s = [%d, %d]' % (name, a, b))
                pre = r.weighted([('get', 3), ('in', 2), ('set', 2), ('delete', 1)])
                self.note('mutkey:' + pre + (':nested' if nested else ''))
                if pre == 'get':
                    got = D.get(key_of(before))
                    exp.append('[%s]' % ('nil' if got is None else str(got)))
                    stmts.append('tr pushBack [%s get %s]' % (h, name))
                elif pre == 'in':
                    exp.append('true' if key_of(before) in D else 'false')
                    stmts.append('tr pushBack (%s in %s)' % (name, h))
                elif pre == 'set':
                    D[key_of(before)] = v0
                    stmts.append('%s set [%s, %d]' % (h, name, v0))
                else:
                    got = D.pop(key_of(before), None)
                    exp.append('[%s]' % ('nil' if got is None else str(got)))
                    stmts.append('tr pushBack [%s deleteAt %s]' % (h, name))
                stmts.append('kin pushBack %d' % c if nested else '%s set [0, %d]' % (name, c))
                D[key_of(after)] = v1
                lit = '[[%d,%d],%d]' % (a, c, b) if nested else '[%d,%d]' % (c, b)
                stmts.append('%s set [%s, %d]' % (h, lit, v1))
                got_before = D.get(key_of(before))
                exp.append('[%d,true,%s,%d]' % (v1, 'nil' if got_before is None else str(got_before), len(D)))
                blit = '[[%d],%d]' % (a, b) if nested else '[%d,%d]' % (a, b)
                stmts.append('tr pushBack [%s get %s, %s in %s, %s get %s, count %s]' % (h, name, name, h, h, blit, h))
        return '; '.join(stmts), '[' + ','.join(exp) + ']'


class MapEqGen:
    """pairs of hash maps built by different insertion histories: isEqualTo must be the equality of the
    finite maps they denote (same keys by equivalence class, equal values), in both directions, also
    when the maps sit inside arrays; equal maps must hash equally"""
    def __init__(self, rng):
        self.r = rng
        self.stats = {}

    def note(self, k):
        self.stats[k] = self.stats.get(k, 0) + 1

    def case(self):
        r = self.r
        keys = [r.choice(ALPHABET) for _ in range(1 + r.below(4))]
        base = [(k, r.below(5)) for k in keys]
        kind = r.weighted([('same', 3), ('reordered', 3), ('subset', 3), ('superset', 2), ('value', 2), ('respelled', 2), ('empty', 1),
                           ('nilvalue', 3), ('nilboth', 1)])
        self.note(kind)
        a = list(base)
        b = list(base)
        if kind == 'reordered':
            b = list(reversed(base))
        elif kind == 'subset':
            b = base[:-1]
        elif kind == 'superset':
            b = base + [(r.choice(ALPHABET), r.below(5))]
        elif kind == 'value':
            b = base[:-1] + [(base[-1][0], base[-1][1] + 1)]
        elif kind == 'respelled':
            b = [(r.choice([k for k in ALPHABET if key_of(k[1]) == key_of(kk[1])]), v) for kk, v in base]
        elif kind == 'empty':
            b = []
        elif kind == 'nilvalue':
            # the same keys; under one of them one map holds nil and the other a number (either way round)
            j = r.below(len(base))
            if r.chance(1, 2):
                a = [(k, None if i == j else v) for i, (k, v) in enumerate(base)]
            else:
                b = [(k, None if i == j else v) for i, (k, v) in enumerate(base)]
        elif kind == 'nilboth':
            j = r.below(len(base))
            a = [(k, None if i == j else v) for i, (k, v) in enumerate(base)]
            b = list(a)

        def build(name, pairs):
            return '%s = createHashMap; ' % name + ''.join('%s set [%s, %s]; ' % (name, kt, 'nil' if v is None else str(v)) for (kt, kv), v in pairs)

        def den(pairs):
            d = {}
            for (kt, kv), v in pairs:
                d[key_of(kv)] = v
            return d
        equal = den(a) == den(b)
        text = build('g1', a) + build('g2', b)
        return text, equal


def fmt_val(v):
    return fmt(v)
