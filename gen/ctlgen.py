"""Generator of control histories (C19): a program laid out on several lines and a sequence of
runtime::execute actions. The expected outcome of a mixed sequence is derived from the instruction-level
reference run of the same program (assembly steps only), so that line step, leave scope and start are
checked against single stepping: a line step must end exactly at the first instruction of another line,
leave scope exactly when the frame stack drops below the starting frame, start at the end of the script."""


class CtlGen:
    def __init__(self, rng, spawn=False):
        self.r = rng
        self.stats = {}
        self.k = 0
        self.spawn = spawn          # programs may spawn further scripts (sequential histories only)

    def note(self, k):
        self.stats[k] = self.stats.get(k, 0) + 1

    def mark(self):
        self.k += 1
        return 'tr pushBack %d' % self.k

    def statement(self, depth=0):
        r = self.r
        k = r.weighted([('mark', 5), ('assign', 3), ('call', 3 if depth < 2 else 0), ('if', 2 if depth < 2 else 0),
                        ('for', 1 if depth < 1 else 0), ('foreach', 1 if depth < 1 else 0), ('err', 1),
                        ('exitwith', 2 if depth < 2 else 0), ('breakout', 2 if depth < 1 else 0), ('trycatch', 1 if depth < 1 else 0),
                        ('spawn', 1 if self.spawn else 0)])
        self.note('stmt:' + k)
        if k == 'mark':
            return self.mark()
        if k == 'assign':
            return 'g%d = %d + %d' % (r.below(3), r.below(9), r.below(9))
        if k == 'err':
            return r.choice(['1 + "a"', '[] select 5', 'call 5'])
        if k == 'spawn':
            # a further script: it waits behind the stepped one until a start schedules it or an abort discards it
            return '[] spawn { %s; %s }' % (self.mark(), self.mark())
        if k == 'exitwith':
            # one instruction (the end of the exitWith block) pops several frames at once
            return 'call { if (true) exitWith { %s; 7 }; %s }' % (self.mark(), self.mark())
        if k == 'breakout':
            return 'call { scopeName "o"; %s; call { call { %s; 5 breakOut "o" }; %s }; %s }' % (self.mark(), self.mark(), self.mark(), self.mark())
        if k == 'trycatch':
            return 'try { %s; call { call { throw 1 } }; %s } catch { %s }' % (self.mark(), self.mark(), self.mark())
        inner = '; '.join(self.statement(depth + 1) for _ in range(1 + r.below(3)))
        if k == 'call':
            return 'call { %s }' % inner
        if k == 'if':
            return 'if (%s) then { %s }' % (r.choice(['true', 'false', '1 < 2']), inner)
        if k == 'for':
            return 'for "_i" from 0 to %d do { %s }' % (r.below(3), inner)
        return '{ %s } forEach [1, 2]' % inner

    def program(self):
        """returns (text, layout) — layout[i] = line of the i-th top-level statement"""
        r = self.r
        self.k = 0
        lines = []
        layout = []
        line_no = 1
        first = 'tr = []'
        cur = [first]
        layout.append(1)
        for _ in range(1 + r.below(6)):
            st = self.statement()
            if r.chance(1, 3) and cur:
                cur.append(st)                       # a second statement on the same line
                layout.append(line_no)
            else:
                lines.append('; '.join(cur) + ';')
                if r.chance(1, 5):
                    lines.append('')                 # an empty line
                    line_no += 1
                line_no += 1
                cur = [st]
                layout.append(line_no)
        lines.append('; '.join(cur) + (';' if r.chance(1, 2) else ''))
        # the parser numbers lines from 1, also when it is given a text directly (no preprocessor, no #line marker)
        return '\n'.join(lines), layout

    def actions(self):
        r = self.r
        n = 1 + r.below(8)
        return ''.join(r.weighted([('a', 5), ('l', 5), ('v', 3), ('S', 2), ('A', 2), ('T', 1)]) for _ in range(n))


def parse_out(s):
    """'init:state:Lx:Fy ; res:state:Lx:Fy ; ... | tr=...' -> (list of (res, state, pos), tr)"""
    if s is None or ' | tr=' not in s:
        return None, None
    body, tr = s.split(' | tr=', 1)
    steps = []
    for p in body.split(' ; '):
        a = p.split(':')
        if len(a) != 4:
            return None, None
        steps.append((a[0], a[1], a[2] + ':' + a[3]))
    return steps, tr


def simulate(ref_steps, actions):
    """expected (res, state, pos) per action, from the single-step reference run ref_steps[0] = init"""
    out = []
    idx = 0                      # index into ref_steps: the state after idx assembly steps
    n = len(ref_steps)
    has_script = True
    state = ref_steps[0][1]

    def pos(i):
        return ref_steps[i][2]

    def line(i):
        return pos(i).split(':')[0]

    def frames(i):
        return int(pos(i).split(':')[1][1:])

    for a in actions:
        if a == 'T':
            out.append(('action_error', state, None))
            continue
        if a == 'A':
            if state in ('halted', 'halted_error'):
                has_script = False
                state = 'empty'
                out.append(('ok', 'empty', 'L-:F0'))
            else:
                out.append(('action_error', state, None))
            continue
        if not has_script:
            out.append(('empty', 'empty', 'L-:F0'))
            state = 'empty'
            continue
        if idx + 1 >= n:
            return None          # reference run too short to decide
        start = idx
        ln = None            # line the step started on: that of the first instruction that could be peeked
        while True:
            if idx + 1 >= n:
                return None
            if ln is None and line(idx) != 'L-':
                ln = line(idx)
            idx += 1
            res, st, _ = ref_steps[idx]
            if res != 'ok':
                break
            if a == 'a':
                break
            if a == 'l' and ln is not None and line(idx) != 'L-' and line(idx) != ln:
                break
            if a == 'v' and frames(idx) <= max(frames(start) - 1, 0):
                break
        res, st, p = ref_steps[idx]
        state = st
        if res == 'empty':
            has_script = False
        if a == 'S' and res == 'empty':
            p = 'L-:F0'
        out.append((res, st, p if a != 'S' or res != 'runtime_error' else None))
    return out
