#!/bin/sh
# Build the framework from files on disk only (offline): harness against /repo's working tree,
# source-derived Lean data, the whole Lean library (kernel-checks every theorem) and the model driver.
set -e
cd "$(dirname "$0")"
python3 - <<'PY'
import sys
sys.path.insert(0, '.')
from vlib import core
ctx = core.Ctx('SETUP', 'quick', 1)
ok, log = ctx.build()
if not ok:
    print(log[-3000:]); sys.exit(1)
ok, log = ctx.translate_all()
if not ok:
    print(log[-3000:]); sys.exit(1)
ok, log = ctx.lean_build(['SqfModel', 'sqfmodel'])
if not ok:
    print(log[-3000:]); sys.exit(1)
print('setup ok')
PY
