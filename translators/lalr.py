#!/usr/bin/env python3
"""translators/lalr.py <parser.tab.cc> <parser.tab.hh> <astkind source> <out.lean> <Namespace>

Reads the LALR(1) tables, the symbol names and the semantic action of every rule out of a Bison `lalr1.cc` parser
as it is checked in and compiled, and writes them as Lean data for the table driver in SqfModel/LR.lean. Anything the
translator does not understand becomes `Act.unknown` / a missing table, which makes the model parser fail and the
obligation `generated = canonical` stop type-checking — the tie is checked, not assumed."""
import re
import sys


def array(src, name):
    m = re.search(r'parser::%s\[\]\s*=\s*\{([^}]*)\}' % re.escape(name), src)
    if not m:
        return None
    return [int(x) for x in re.findall(r'-?\d+', m.group(1))]


def const(src, name):
    m = re.search(r'\b%s\s*=\s*(-?\d+)' % re.escape(name), src)
    return int(m.group(1)) if m else None


def enum_values(src):
    m = re.search(r'enum class astkind\s*\{([^}]*)\}', src)
    out = {}
    if not m:
        return out
    v = -1
    for item in m.group(1).split(','):
        item = item.strip()
        if not item:
            continue
        if '=' in item:
            n, val = item.split('=')
            v = int(val.strip())
            out[n.strip()] = v
        else:
            v += 1
            out[item] = v
    return out


def normalise(code):
    code = re.sub(r'yylhs\.value\.as<[^>]*>\s*\(\)', '$$', code)
    code = re.sub(r'yystack_\[(\d+)\]\.value\.as<[^>]*>\s*\(\)', r'$s\1', code)
    code = re.sub(r'std::move\((\$s\d+)\)', r'\1', code)
    code = re.sub(r'::sqf::parser::(sqf|config)::bison::', '', code)
    code = re.sub(r'\s+', ' ', code).strip()
    if code.startswith('{') and code.endswith('}'):
        code = code[1:-1].strip()
    return code


def lean_int(n):
    return str(n) if n >= 0 else '(%d)' % n


def ops_of(stmts, kinds):
    """the statements behind the creation of `$$` / `result`: appends"""
    ops = []
    for st in stmts:
        st = st.strip()
        if not st:
            continue
        m = re.fullmatch(r'(?:\$\$|result)\.append\(\$s(\d+)\)', st)
        if m:
            ops.append('.append %s' % m.group(1))
            continue
        m = re.fullmatch(r'\$\$\.append_children\(\$s(\d+)\)', st)
        if m:
            ops.append('.appendChildren %s' % m.group(1))
            continue
        return None
    return ops


UNWRAP_APPEND = re.compile(r'if \(\$s(\d+)\.children\.size\(\) == 1 && \$s\1\.children\[0\]\.kind != astkind::(\w+)\) \{ \$\$\.append\(\$s\1\.children\[0\]\); \} else \{ \$\$\.append\(\$s\1\); \}')
UNWRAP_MOVE = re.compile(r'if \(\$s(\d+)\.children\.size\(\) == 1 && \$s\1\.children\[0\]\.kind != astkind::(\w+)\) \{ \$\$ = \$s\1\.children\[0\]; \} else \{ \$\$ = \$s\1; \}')


def act_of(code, kinds):
    c = normalise(code)
    if c == '':
        return '.noValue'
    m = UNWRAP_MOVE.fullmatch(c)
    if m and m.group(2) in kinds:
        return '.moveUnwrapSingle %s %s' % (m.group(1), lean_int(kinds[m.group(2)]))
    # the conditional append of the config grammar is rewritten into a pseudo statement first
    c2 = UNWRAP_APPEND.sub(lambda mm: '$$.appendUnwrap($s%s,%s);' % (mm.group(1), mm.group(2)), c)
    stmts = [s.strip() for s in c2.split(';') if s.strip()]
    if not stmts:
        return '.noValue'
    head, rest = stmts[0], stmts[1:]

    def ops(rest):
        out = []
        for st in rest:
            m = re.fullmatch(r'\$\$\.appendUnwrap\(\$s(\d+),(\w+)\)', st)
            if m:
                if m.group(2) not in kinds:
                    return None
                out.append('.appendUnwrapSingle %s %s' % (m.group(1), lean_int(kinds[m.group(2)])))
                continue
            o = ops_of([st], kinds)
            if o is None:
                return None
            out.extend(o)
        return out
    o = ops(rest)
    if o is None:
        return '.unknown'
    olist = '[' + ', '.join(o) + ']'
    if re.fullmatch(r'result = astnode\{\s*\}', head):
        return '.result %s' % olist
    m = re.fullmatch(r'\$\$ = \$s(\d+)', head)
    if m:
        return ('.move %s' % m.group(1)) if not o else ('.moveAppend %s %s' % (m.group(1), olist))
    m = re.fullmatch(r'\$\$ = astnode\{ astkind::(\w+) \}', head)
    if m and m.group(1) in kinds:
        return '.mk %s none %s' % (lean_int(kinds[m.group(1)]), olist)
    m = re.fullmatch(r'\$\$ = astnode\{ astkind::(\w+), \$s(\d+) \}', head)
    if m and m.group(1) in kinds:
        return '.mk %s (some %s) %s' % (lean_int(kinds[m.group(1)]), m.group(2), olist)
    return '.unknown'


def yylex_tables(cc):
    """the token classification of `yylex` (epilogue of the grammar file, copied into parser.tab.cc):
    simple:  tokenizer kind -> make_<TOKEN> (or SKIP when yylex calls itself for the next token)
    classes: (binary, unary, nular, precedence or 0) -> make_<TOKEN> for names looked up in the operator registry
    fallback: what an unregistered identifier / operator becomes"""
    k = cc.find('inline parser::symbol_type yylex')
    body = cc[k:] if k >= 0 else ''
    simple = []
    for mm in re.finditer(r'case tokenizer::etoken::(\w+):\s*return\s+(?:parser::make_(\w+)|(yylex))\s*\(', body):
        simple.append((mm.group(1), mm.group(2) if mm.group(2) else 'SKIP'))
    classes = []
    for mm in re.finditer(r'if \((!?)binary && (!?)unary && (!?)nular\)\s*\{(.*?)\n {13}\}', body, re.S):
        b, u, n = mm.group(1) == '', mm.group(2) == '', mm.group(3) == ''
        blk = mm.group(4)
        cases = re.findall(r'case (\d+):\s*return parser::make_(\w+)\(', blk)
        if cases:
            for k, name in cases:
                classes.append((b, u, n, int(k), name))
        else:
            d = re.search(r'return parser::make_(\w+)\(', blk)
            if d:
                classes.append((b, u, n, 0, d.group(1)))
    fb = re.search(r'return token\.type == tokenizer::etoken::t_ident \? parser::make_(\w+)\(token, loc\) : parser::make_(\w+)\(loc\)', body)
    fallback = (fb.group(1), fb.group(2)) if fb else ('?', '?')
    default = re.search(r'default:\s*return parser::make_(\w+)\(', body)
    return simple, classes, fallback, (default.group(1) if default else '?')


def chunks(xs, n=20):
    return [xs[i:i + n] for i in range(0, len(xs), n)]


def main(argv):
    cc = open(argv[1], encoding='utf-8', errors='replace').read()
    hh = open(argv[2], encoding='utf-8', errors='replace').read()
    kinds = enum_values(open(argv[3], encoding='utf-8', errors='replace').read())
    out_path, ns = argv[4], argv[5]
    names = ['yypact_', 'yydefact_', 'yypgoto_', 'yydefgoto_', 'yytable_', 'yycheck_', 'yyr1_', 'yyr2_']
    arrays = {n: array(cc, n) for n in names}
    consts = {'yypact_ninf_': const(cc, 'parser::yypact_ninf_'), 'yytable_ninf_': const(cc, 'parser::yytable_ninf_'),
              'yylast_': const(hh, 'yylast_'), 'yyfinal_': const(hh, 'yyfinal_'), 'yyntokens_': const(hh, 'yyntokens_')}
    m = re.search(r'parser::yytname_\[\]\s*=\s*\{(.*?)YY_NULLPTR', cc, re.S)
    tnames = re.findall(r'"((?:[^"\\]|\\.)*)"', m.group(1)) if m else []
    tnames = [t.replace('\\"', '"') for t in tnames]
    # semantic actions
    nrules = len(arrays['yyr1_'] or [])
    acts = ['.noValue'] * nrules
    sw = re.search(r'switch \(yyn\)\s*\{(.*?)\n\s*default:\s*\n\s*break;', cc, re.S)
    raw = {}
    if sw:
        for mm in re.finditer(r'case (\d+):\s*\n#line \d+ "[^"]*"[^\n]*\n(.*?)\n#line \d+ "[^"]*"[^\n]*\n\s*break;', sw.group(1), re.S):
            raw[int(mm.group(1))] = mm.group(2)
    for n, code in raw.items():
        if n < nrules:
            acts[n] = act_of(code, kinds)
    ok = all(v is not None for v in arrays.values()) and all(v is not None for v in consts.values()) and bool(tnames) and bool(kinds) and sw is not None
    with open(out_path, 'w', encoding='utf-8') as f:
        f.write('import SqfModel.LR\n/-! GENERATED by translators/lalr.py from %s — do not edit. -/\n' % argv[1].split('/src/')[-1])
        f.write('namespace Sqf.Generated.%s\nopen Sqf.LR\n\n' % ns)
        f.write('def complete : Bool := %s\n\n' % ('true' if ok else 'false'))
        for n in names:
            xs = arrays[n] or []
            f.write('def %s : List Int :=\n  [' % n.rstrip('_'))
            f.write(',\n   '.join(', '.join(lean_int(x) for x in ch) for ch in chunks(xs)))
            f.write(']\n\n')
        for k, v in consts.items():
            f.write('def %s : Int := %s\n' % (k.rstrip('_'), lean_int(v if v is not None else 0)))
        f.write('\ndef tnames : List String :=\n  [' + ',\n   '.join(', '.join('"%s"' % t.replace('\\', '\\\\').replace('"', '\\"') for t in ch) for ch in chunks(tnames, 6)) + ']\n\n')
        f.write('def kinds : List (String × Int) :=\n  [' + ', '.join('("%s", %s)' % (k, lean_int(v)) for k, v in kinds.items()) + ']\n\n')
        f.write('def acts : List Act :=\n  [' + ',\n   '.join(acts) + ']\n\n')
        simple, classes, fallback, default = yylex_tables(cc)
        lb = lambda x: 'true' if x else 'false'
        f.write('/-- `yylex`: tokenizer kind -> token constructor (`SKIP`: the token is dropped) -/\n')
        f.write('def yylexSimple : List (String × String) :=\n  [' + ',\n   '.join(', '.join('("%s", "%s")' % p for p in ch) for ch in chunks(simple, 4)) + ']\n\n')
        f.write('/-- `yylex`: (binary, unary, nular, precedence; 0 = no switch) -> token constructor -/\n')
        f.write('def yylexClass : List (Bool × Bool × Bool × Nat × String) :=\n  [' + ',\n   '.join(', '.join('(%s, %s, %s, %d, "%s")' % (lb(b), lb(u), lb(n), k, nm) for b, u, n, k, nm in ch) for ch in chunks(classes, 3)) + ']\n\n')
        f.write('def yylexFallback : String × String := ("%s", "%s")\n' % fallback)
        f.write('def yylexDefault : String := "%s"\n\n' % default)
        f.write('def grammar : Grammar :=\n  { t := { pact := yypact.toArray, defact := yydefact.toArray, pgoto := yypgoto.toArray, defgoto := yydefgoto.toArray,\n'
                '           table := yytable.toArray, check := yycheck.toArray, r1 := yyr1.toArray, r2 := yyr2.toArray,\n'
                '           pactNinf := yypact_ninf, tableNinf := yytable_ninf, last := yylast, final := yyfinal, ntokens := yyntokens },\n'
                '    acts := acts.toArray, naKind := %s }\n\n' % lean_int(kinds.get('NA', 0)))
        f.write('end Sqf.Generated.%s\n' % ns)
    print('lalr: %s: %d rules, %d actions (%d unknown), %d symbols, tables %s' % (ns, nrules, len(raw), sum(1 for a in acts if a == '.unknown'), len(tnames), 'complete' if ok else 'INCOMPLETE'))
    return 0


if __name__ == '__main__':
    sys.exit(main(sys.argv))
