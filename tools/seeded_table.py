#!/usr/bin/env python3
"""tools/seeded_table.py [ids...]: one markdown row per seeded change from seeded/<id>/meta.json and result.txt"""
import json
import os
import re
import sys

root = os.path.join(os.path.dirname(os.path.dirname(os.path.abspath(__file__))), 'seeded')
ids = sys.argv[1:] or sorted(os.listdir(root), key=lambda s: (s.split('-')[0], int(s.split('-')[1])))
print('| change | what it does | files | checks run -> outcome | demo fails with the change |')
print('|---|---|---|---|---|')
for i in ids:
    d = os.path.join(root, i)
    if not os.path.isfile(os.path.join(d, 'meta.json')):
        continue
    m = json.load(open(os.path.join(d, 'meta.json')))
    res = open(os.path.join(d, 'result.txt')).read() if os.path.exists(os.path.join(d, 'result.txt')) else ''
    outcomes = []
    for blk in re.split(r'== check ', res)[1:]:
        name = blk.split('\n')[0].strip()
        ex = re.search(r'exit (\d+)', blk)
        nf = 'no-failing-input-found' in blk and not re.search(r'VIOLATION[^\n]*replay=\S+\s*$', blk, re.M)
        outcomes.append('%s: %s' % (name, ('caught' + (' (no-failing-input-found)' if nf else '')) if ex and ex.group(1) == '1' else 'missed' if ex and ex.group(1) == '0' else 'not run to the end'))
    tests = re.search(r'(\d+)% tests passed', res)
    demo = re.search(r'demo \(changed tree\) exit (\d+)', res)
    title = m.get('title', '')
    print('| %s | %s | %s | %s%s | %s |' % (i, title[:230] + ('…' if len(title) > 230 else ''), ', '.join(os.path.basename(f) for f in m.get('files', [])),
                                          '; '.join(outcomes) or 'not run', '' if (tests and tests.group(1) == '100') else ' (tests: %s)' % (tests.group(0) if tests else 'n/a'),
                                          ('yes' if demo and demo.group(1) != '0' else 'NO' if demo else 'agent\'s demonstration (not a script)')))
