#!/usr/bin/env python3
"""print the replays of a property compactly: tools/showrep.py C13"""
import json, glob, sys
pid = sys.argv[1]
for f in sorted(glob.glob('/verif/replays/%s-*.replay' % pid)):
    d = json.load(open(f))
    print('=====', f.split('/')[-1], d.get('kind'))
    for k in ('source', 'files', 'difference', 'broken', 'program'):
        if k in d:
            print(k, ':', json.dumps(d[k])[:int(sys.argv[2]) if len(sys.argv) > 2 else 1800])
try:
    d = json.load(open('/verif/evidence/%s.json' % pid))
    print({k: v for k, v in d['coverage'].items() if isinstance(v, (int, float))})
except Exception as e:
    print(e)
