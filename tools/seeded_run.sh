#!/bin/bash
# tools/seeded_run.sh <seeded-dir> <check-id>... : apply a seeded change to /repo, confirm it builds and
# passes the test suite, run the named checks against it, undo it. Results go to <seeded-dir>/result.txt
set -u
d=$(cd "$1" && pwd); shift
cd /repo || exit 2
if ! git diff --quiet -- src; then echo "repo not clean"; exit 2; fi
git apply "$d/patch.diff" || { echo "patch does not apply" > "$d/result.txt"; exit 2; }
{
  echo "== tree $(git -C /repo rev-parse --short HEAD) + $(basename $d)"
  echo "== build + ctest"
  if cmake --build /repo/_build -j 14 > /tmp/seeded_build.log 2>&1; then echo "build ok"; else echo "BUILD FAILED"; tail -5 /tmp/seeded_build.log; fi
  ctest --test-dir /repo/_build -j8 --timeout 900 2>&1 | grep -E "tests passed|tests failed"
  if [ -f "$d/demo.sh" ]; then
    timeout 300 bash "$d/demo.sh" /repo > /tmp/seeded_demo.log 2>&1; echo "demo (changed tree) exit $?  [non-zero = the demonstration fails with the change]"
  fi
  for c in "$@"; do
    echo "== check $c"
    (cd /verif && VERIF_SEED=${VERIF_SEED:-1} timeout 3000 ./check "$c" --tier quick 2>&1 | grep -E "VIOLATION|KNOWN-FINDING" | head -5; echo "exit ${PIPESTATUS[0]}")
  done
} > "$d/result.txt" 2>&1
git -C /repo checkout -- src
cat "$d/result.txt"
