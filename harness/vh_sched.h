#pragma once
// start <program> <globals-csv> [max_runtime_ms] [max_loops] [age_ms: virtual time at which the run starts; the VM is created at 0] — run the program with runtime::execute(start)
// (the scheduler: round robin over all contexts, 150-instruction slices) under the virtual clock.
// The main script runs unscheduled; scripts it spawns are scheduled.
namespace vh
{
    inline std::string verb_start(const std::vector<std::string>& f)
    {
        std::string text = f.size() > 0 ? f[0] : std::string();
        std::vector<std::string> globals;
        if (f.size() > 1 && !f[1].empty()) { globals = split(f[1], ','); }
        long max_runtime = f.size() > 2 && !f[2].empty() ? std::stol(f[2]) : 0;
        long max_loops = f.size() > 3 && !f[3].empty() ? std::stol(f[3]) : 10000;
        long age_ms = f.size() > 4 && !f[4].empty() ? std::stol(f[4]) : 0;

        vclock_start(0, 1);
        auto v = make_vm(regmode::real, max_runtime);
        vclock_stop();
        v.rt->configuration().max_loop_iterations_in_unscheduled = (size_t)max_loops;
        auto set = v.rt->parser_sqf().parse(*v.rt, text, sqf::runtime::fileio::pathinfo(std::string("f"), std::string()));
        if (!set.has_value()) { return "parse-error"; }
        auto context = v.rt->context_create().lock();
        context->push_frame(sqf::runtime::frame(v.rt->default_value_scope(), *set));
        vclock_start(age_ms, 1);
        auto res = v.rt->execute(sqf::runtime::runtime::action::start);
        long long t_end = vclock_ms();
        vclock_stop();
        std::string out = std::string("res=") + result_name(res);
        out += " st=" + std::string(state_name(v.rt->runtime_state()));
        out += " err=" + v.logger->codes((int)loglevel::error);
        out += " t=" + std::to_string(t_end);
        auto ns = v.rt->default_value_scope();
        for (auto& g : globals)
        {
            out += " " + g + "=";
            out += ns->contains(g) ? render_value(ns->at(g)) : std::string("undef");
        }
        return out;
    }
}
