#pragma once
// api <ops>: a history of C API calls (src/export/sqfvm.h) on up to four instances.
// ops (one per line, fields separated by one space):
//   new <slot> <max_runtime_ms> <user>        sqfvm_create_instance
//   call <slot> <calltag> <type-char> <hex>   sqfvm_call
//   cfg <slot> <hex text> [<hex ast>]         sqfvm_load_config (the ast is for the model only)
//   status <slot>                             sqfvm_status
//   del <slot>                                sqfvm_destroy_instance
//   bad <null|foreign> <call|cfg|status>      the same entry points with an invalid handle
// Output per op: "rc=<n>" (or "ok" for new/del) followed by one "[level:user:calltag]" per callback
// invocation since the previous op. The clock is virtual (1 ms per read) while an entry point runs.
#include "export/sqfvm.h"
namespace vh
{
    struct api_log { int level; uintptr_t user; uintptr_t call; };
    inline std::vector<api_log>& api_logs() { static std::vector<api_log> v; return v; }
    inline void api_callback(void* user, void* call, int32_t level, const char*, uint32_t)
    {
        api_logs().push_back({ (int)level, (uintptr_t)user, (uintptr_t)call });
    }
    inline std::string api_flush()
    {
        std::string out;
        for (auto& l : api_logs())
        {
            out += "[" + std::to_string(l.level) + ":" + std::to_string(l.user) + ":" + std::to_string(l.call) + "]";
        }
        api_logs().clear();
        return out;
    }
    inline std::string verb_api(const std::vector<std::string>& f)
    {
        std::vector<std::string> ops;
        if (f.size() > 0 && !f[0].empty()) { ops = split(f[0], '\n'); }
        void* inst[4] = { nullptr, nullptr, nullptr, nullptr };
        alignas(16) static char foreign[256];
        std::memset(foreign, 0, sizeof(foreign));
        long long vtime = 0;
        std::string out;
        api_logs().clear();
        for (auto& line : ops)
        {
            if (line.empty()) { continue; }
            auto t = split(line, ' ');
            if (!out.empty()) { out += " ; "; }
            const std::string& op = t[0];
            if (op == "new" && t.size() >= 4)
            {
                int s = std::stoi(t[1]) & 3;
                float secs = (float)std::stol(t[2]) / 1000.0f;
                inst[s] = sqfvm_create_instance((void*)(uintptr_t)std::stoul(t[3]), api_callback, secs);
                out += inst[s] ? "ok" : "null";
                out += api_flush();
            }
            else if (op == "call" && t.size() >= 4)
            {
                int s = std::stoi(t[1]) & 3;
                std::string code = t.size() > 4 ? unhex(t[4]) : std::string();
                vclock_start(vtime, 1);
                auto rc = sqfvm_call(inst[s], (void*)(uintptr_t)std::stoul(t[2]), t[3][0], code.data(), (uint32_t)code.size());
                vtime = vclock_ms();
                vclock_stop();
                out += "rc=" + std::to_string(rc) + api_flush();
            }
            else if (op == "cfg" && t.size() >= 3)
            {
                int s = std::stoi(t[1]) & 3;
                std::string code = unhex(t[2]);
                auto rc = sqfvm_load_config(inst[s], code.data(), (uint32_t)code.size());
                out += "rc=" + std::to_string(rc) + api_flush();
            }
            else if (op == "status" && t.size() >= 2)
            {
                int s = std::stoi(t[1]) & 3;
                out += "rc=" + std::to_string(sqfvm_status(inst[s])) + api_flush();
            }
            else if (op == "del" && t.size() >= 2)
            {
                int s = std::stoi(t[1]) & 3;
                if (inst[s]) { sqfvm_destroy_instance(inst[s]); inst[s] = nullptr; }
                out += "ok" + api_flush();
            }
            else if (op == "bad" && t.size() >= 3)
            {
                void* h = t[1] == "null" ? nullptr : (void*)foreign;
                int32_t rc = 0;
                if (t[2] == "call") { rc = sqfvm_call(h, nullptr, 's', "1", 1); }
                else if (t[2] == "cfg") { rc = sqfvm_load_config(h, "class A {};", 11); }
                else { rc = sqfvm_status(h); }
                out += "rc=" + std::to_string(rc) + api_flush();
            }
            else { out += "bad-op"; }
        }
        for (int s = 0; s < 4; s++) { if (inst[s]) { sqfvm_destroy_instance(inst[s]); } }
        return out;
    }
}
