// vh — line-protocol server of the /verif harness.
//
// Reads one case per line from stdin:   <verb> <id> <hex-field> [<hex-field> ...]
// Writes one observation per case:      <id> <escaped canonical text>
//
// The same case file is fed to the Lean driver (`sqfmodel`); the two output streams are diffed by
// vlib. Everything printed here is canonical: no pointers, no timestamps, no message texts (only
// numeric diagnostic codes), values rendered by a renderer of our own (`rv`) that the Lean side
// mirrors.
#include "runtime/runtime.h"
#include "runtime/logging.h"
#include "runtime/d_array.h"
#include "runtime/d_string.h"
#include "runtime/d_scalar.h"
#include "runtime/d_boolean.h"
#include "runtime/d_code.h"
#include "runtime/instruction_set.h"
#include "opcodes/common.h"
#include "operators/ops.h"
#include "operators/ops_hashmap.h"
#include "operators/d_config.h"
#include "runtime/confighost.h"
#include "parser/sqf/sqf_parser.hpp"
#include "parser/config/config_parser.hpp"
#include "parser/preprocessor/default.h"
#include "fileio/default.h"

#include <cstdio>
#include <cstring>
#include <iostream>
#include <sstream>
#include <string>
#include <vector>
#include <algorithm>
#include <functional>
#include <map>
#include <cmath>
#include <cstdlib>
#include <csignal>
#include <cxxabi.h>
#include <unistd.h>
#include <poll.h>
#include <sys/wait.h>
#include <sys/resource.h>
#include <time.h>
#include <thread>
#include <atomic>
#include <chrono>

#include <sys/syscall.h>

// ---- virtual clock -------------------------------------------------------------------------------
// std::chrono::system_clock::now() ends in clock_gettime(CLOCK_REALTIME); defining the symbol in the
// executable interposes it (no source hook needed). While `g_vclock_on` is set every read of the
// real-time clock returns the virtual time and advances it by `g_vclock_tick_ns`; the Lean model
// advances its clock at exactly the same read points.
static bool g_vclock_on = false;
static long long g_vclock_ns = 0;
static long long g_vclock_tick_ns = 1000000;
static long long g_vclock_reads = 0;
extern "C" int clock_gettime(clockid_t clk, struct timespec* ts)
{
    if (g_vclock_on && clk == CLOCK_REALTIME)
    {
        ts->tv_sec = (time_t)(g_vclock_ns / 1000000000LL);
        ts->tv_nsec = (long)(g_vclock_ns % 1000000000LL);
        g_vclock_ns += g_vclock_tick_ns;
        g_vclock_reads++;
        return 0;
    }
    return (int)syscall(SYS_clock_gettime, clk, ts);
}
namespace vh
{
    inline void vclock_start(long long start_ms, long long tick_ms) { g_vclock_ns = start_ms * 1000000LL; g_vclock_tick_ns = tick_ms * 1000000LL; g_vclock_reads = 0; g_vclock_on = true; }
    inline void vclock_stop() { g_vclock_on = false; }
    inline long long vclock_ms() { return g_vclock_ns / 1000000LL; }
    inline void vclock_advance_ms(long long ms) { g_vclock_ns += ms * 1000000LL; }
    inline long long vclock_reads() { return g_vclock_reads; }
}

// src/cli/main.cpp (which holds main()) is not part of the harness; the helpers of it that cli.cpp uses
int console_width() { return 80; }
char* const copy_str(const std::string& str)
{
    auto dest = new char[str.length() + 1];
    std::memcpy(dest, str.c_str(), str.length() + 1);
    return dest;
}

#include "vh_common.h"
#include "vh_front.h"
#include "vh_vm.h"
#include "vh_sched.h"
#include "vh_cfg.h"
#include "vh_api.h"
#include "vh_ctl.h"
#include "vh_iso.h"
#include "vh_pbo.h"
#include "vh_vfs.h"
#include "vh_frontends.h"
namespace vh { std::string verb_cfglex(const std::vector<std::string>& f); std::string verb_cfgast(const std::vector<std::string>& f); }

static std::string handle(const std::string& verb, const std::vector<std::string>& f)
{
    try
    {
        if (verb == "asm") { return vh::verb_asm(f); }
        else if (verb == "lex") { return vh::verb_lex(f); }
        else if (verb == "pretty") { return vh::verb_pretty(f); }
        else if (verb == "run") { return vh::verb_run(f, false); }
        else if (verb == "trace") { return vh::verb_run(f, true); }
        else if (verb == "start") { return vh::verb_start(f); }
        else if (verb == "eq") { return vh::verb_eq(f); }
        else if (verb == "cfg") { return vh::verb_cfg(f); }
        else if (verb == "api") { return vh::verb_api(f); }
        else if (verb == "ctl") { return vh::verb_ctl(f); }
        else if (verb == "ctl2") { return vh::verb_ctl2(f); }
        else if (verb == "ctl3") { return vh::verb_ctl3(f); }
        else if (verb == "ctl4") { return vh::verb_ctl4(f); }
        else if (verb == "iso") { return vh::verb_iso(f); }
        else if (verb == "pbo") { return vh::verb_pbo(f); }
        else if (verb == "pbo2") { return vh::verb_pbo2(f); }
        else if (verb == "vfs") { return vh::verb_vfs(f); }
        else if (verb == "front") { return vh::verb_front(f); }
        else if (verb == "pp") { return vh::verb_pp(f); }
        else if (verb == "diag") { return vh::verb_diag(f); }
        else if (verb == "op") { return vh::verb_op(f); }
        else if (verb == "cfglex") { return vh::verb_cfglex(f); }
        else if (verb == "cfgast") { return vh::verb_cfgast(f); }
        else { return "bad-verb"; }
    }
    catch (const std::exception& ex)
    {
        return std::string("cpp-exception:") + vh::demangle(typeid(ex).name());
    }
    catch (...)
    {
        return "cpp-exception:unknown";
    }
}

// Every case runs in a forked child under a wall-clock watchdog, so that a crash or a hang of the
// implementation is an observation ("crash:<signal>", "timeout") instead of the end of the run.
int main(int argc, char** argv)
{
    std::ios::sync_with_stdio(false);
    if (argc >= 2 && std::string(argv[1]) == "--dump-registry")
    {
        vh::dump_registry();
        return 0;
    }
    bool nofork = false;
    for (int i = 1; i < argc; i++) { if (std::string(argv[i]) == "--nofork") { nofork = true; } }
    long timeout_ms = 4000;
    if (const char* t = std::getenv("VH_TIMEOUT_MS")) { timeout_ms = std::atol(t); }
    // warm the shared VMs so that forked children inherit them
    vh::cached_vm(vh::regmode::real);
    vh::cached_vm(vh::regmode::synthetic);
    // A change that makes most cases hang would otherwise cost (number of cases) x (time limit): after VH_MAX_TIMEOUTS
    // timed-out cases the remaining ones are answered with "timeout-skipped" without being run (the caller runs
    // timed-out and skipped cases once more, alone, before it believes them).
    long max_timeouts = 10;
    if (const char* t = std::getenv("VH_MAX_TIMEOUTS")) { max_timeouts = std::atol(t); }
    long timeouts = 0;
    std::string line;
    while (std::getline(std::cin, line))
    {
        if (line.empty()) { continue; }
        std::vector<std::string> parts = vh::split(line, ' ');
        if (parts.size() < 2) { std::cout << "? bad-line\n"; continue; }
        const std::string& verb = parts[0];
        const std::string& id = parts[1];
        std::vector<std::string> f;
        for (size_t i = 2; i < parts.size(); i++) { f.push_back(vh::unhex(parts[i])); }
        std::string out;
        if (nofork) { out = handle(verb, f); }
        else if (timeouts >= max_timeouts) { out = "timeout-skipped"; }
        else
        {
            out = vh::run_forked([&]() { return handle(verb, f); }, timeout_ms);
            if (out == "timeout") { timeouts++; }
        }
        std::cout << id << ' ' << vh::esc(out) << '\n';
        std::cout.flush();
    }
    return 0;
}
