#pragma once
// cfg <config texts separated by \x01> <ast (model only)> <queries>
// Loads the config texts one after another into one VM (config parser -> confighost), then
// evaluates every query as an SQF expression over configFile on that VM and reports, per query,
// the rendered result and the diagnostic codes (level <= warning) it raised.

namespace vh
{
    inline std::string render_cfg(sqf::runtime::runtime& rt, const sqf::runtime::config& c)
    {
        if (c.is_null()) { return "<cfg-null>"; }
        std::vector<std::string> path;
        auto nav = c.navigate(rt.confighost());
        size_t guard = 0;
        while (!nav.empty() && guard++ < 100000)
        {
            path.push_back(nav->name);
            nav = nav.parent_logical();
        }
        std::reverse(path.begin(), path.end());
        std::string out = "<cfg:";
        for (size_t i = 0; i < path.size(); i++) { if (i) { out.push_back('/'); } out += path[i]; }
        out.push_back('>');
        return out;
    }
    inline std::string render_cfg_value(sqf::runtime::runtime& rt, const sqf::runtime::value& v)
    {
        if (!v.empty() && v.is<sqf::runtime::t_config>()) { return render_cfg(rt, v.data<sqf::types::d_config, sqf::runtime::config>()); }
        if (!v.empty() && v.is<sqf::runtime::t_array>())
        {
            std::string out = "[";
            bool first = true;
            for (auto& it : *v.data<sqf::types::d_array>())
            {
                if (!first) { out.push_back(','); }
                first = false;
                out += render_cfg_value(rt, it);
            }
            out.push_back(']');
            return out;
        }
        return render_value(v);
    }
    inline std::string query_to_sqf(const std::string& q)
    {
        std::string e = "configFile";
        for (auto& st : split(q, ','))
        {
            if (st.rfind("d:", 0) == 0) { e = "(" + e + " >> \"" + unhex(st.substr(2)) + "\")"; }
            else if (st.rfind("s:", 0) == 0) { e = "(" + e + " select " + st.substr(2) + ")"; }
            else if (st == "i") { e = "(inheritsFrom " + e + ")"; }
            else if (st.rfind("o:", 0) == 0)
            {
                std::string o = st.substr(2);
                if (o == "num") { e = "getNumber " + e; }
                else if (o == "text") { e = "getText " + e; }
                else if (o == "arr") { e = "getArray " + e; }
                else if (o == "isNum") { e = "isNumber " + e; }
                else if (o == "isText") { e = "isText " + e; }
                else if (o == "isArr") { e = "isArray " + e; }
                else if (o == "isClass") { e = "isClass " + e; }
                else if (o == "isNull") { e = "isNull " + e; }
                else if (o == "name") { e = "configName " + e; }
                else if (o == "count") { e = "count " + e; }
                else if (o == "hier") { e = "configHierarchy " + e; }
                else if (o == "classes") { e = "\"true\" configClasses " + e; }
                else if (o == "self") { }
                else { e = "bad-observer"; }
            }
        }
        return e;
    }
    inline std::string verb_cfg(const std::vector<std::string>& f)
    {
        std::vector<std::string> texts;
        if (f.size() > 0 && !f[0].empty()) { texts = split(f[0], '\x01'); }
        std::vector<std::string> queries;
        if (f.size() > 2 && !f[2].empty()) { queries = split(f[2], ';'); }
        auto v = make_vm(regmode::real);
        std::string out = "load=";
        for (size_t i = 0; i < texts.size(); i++)
        {
            bool ok = v.rt->parser_config().parse(v.rt->confighost(), texts[i], sqf::runtime::fileio::pathinfo(std::string("c") + std::to_string(i), std::string()));
            out += ok ? "1" : "0";
        }
        out += "/" + v.logger->codes((int)loglevel::warning);
        for (size_t qi = 0; qi < queries.size(); qi++)
        {
            v.logger->entries.clear();
            std::string text = query_to_sqf(queries[qi]);
            out += " ; ";
            auto set = v.rt->parser_sqf().parse(*v.rt, text, sqf::runtime::fileio::pathinfo(std::string("q"), std::string()));
            if (!set.has_value()) { out += "parse-error"; continue; }
            auto* context = &v.rt->context_active();
            context->clear_values();
            context->push_frame(sqf::runtime::frame(v.rt->default_value_scope(), *set));
            sqf::runtime::runtime::result res = sqf::runtime::runtime::result::ok;
            size_t n = 0;
            while (true)
            {
                res = v.rt->execute(sqf::runtime::runtime::action::assembly_step);
                if (res != sqf::runtime::runtime::result::ok) { break; }
                if (v.rt->runtime_state() == sqf::runtime::runtime::state::empty) { break; }
                if (++n >= 100000) { break; }
            }
            if (res == sqf::runtime::runtime::result::empty && context->values_size() > 0) { out += render_cfg_value(*v.rt, *(context->values_end() - 1)); }
            else if (res == sqf::runtime::runtime::result::empty) { out += "-"; }
            else { out += "!"; }
            out += "|" + v.logger->codes((int)loglevel::warning);
            v.rt->execute(sqf::runtime::runtime::action::abort);
        }
        return out;
    }
}
