#pragma once
// front <kind> <text> [<files: name \x02 content, separated by \x01>]
//   kind sqf:    SQF lexer + parser + code generation                 -> ok | fail
//   kind cfg:    config lexer + parser into a fresh config host       -> ok | fail
//   kind pp:     preprocessor (the text is /main.sqf of a scratch directory mapped to /, the files lie beside it)
//   kind compile / preprocess / configparse: the same front ends reached from a script
// Every front end is run twice on fresh VMs and twice in a row in one VM; the output is "<outcome>:<number of error-level diagnostics>:<hex of
// the result>" followed by " det=1" when both runs agree byte for byte.
namespace vh
{
    // `repeat`: the front end runs that many times in ONE VM, the answer describes the last run (a run must not depend
    // on what an earlier run in the same VM left behind: macro tables, counters, parser state)
    inline std::string front_once(const std::string& kind, const std::string& text, const std::vector<std::string>& files, int repeat = 1)
    {
        namespace fs = std::filesystem;
        auto v = make_vm(regmode::real);
        std::string outcome, payload;
        auto errors = [&]() { size_t n = 0; for (auto& e : v.logger->entries) { if (e.level <= (int)loglevel::error) { n++; } } return n; };
        for (int rep = 0; rep < repeat; rep++)
        {
        v.logger->entries.clear();
        outcome.clear();
        payload.clear();
        if (kind == "sqf")
        {
            auto set = v.rt->parser_sqf().parse(*v.rt, text, sqf::runtime::fileio::pathinfo(std::string("f.sqf"), std::string()));
            outcome = set.has_value() ? "ok" : "fail";
            if (set.has_value()) { payload = render_set(*set); }
        }
        else if (kind == "cfg")
        {
            bool ok = v.rt->parser_config().parse(v.rt->confighost(), text, sqf::runtime::fileio::pathinfo(std::string("c.cpp"), std::string()));
            outcome = ok ? "ok" : "fail";
        }
        else if (kind == "pp")
        {
            fs::path dir = fs::path("/var/tmp/sqfvm-verif/pp-scratch") / std::to_string((long)getpid());
            fs::remove_all(dir);
            fs::create_directories(dir);
            for (auto& e : files)
            {
                auto kv = split(e, '\x02');
                if (kv.size() < 2) { continue; }
                fs::path p = dir / kv[0];
                fs::create_directories(p.parent_path());
                std::ofstream o(p, std::ios::binary);
                o.write(kv[1].data(), (std::streamsize)kv[1].size());
            }
            { std::ofstream o(dir / "main.sqf", std::ios::binary); o.write(text.data(), (std::streamsize)text.size()); }
            v.rt->fileio().add_mapping(dir.string(), "/");
            auto res = v.rt->parser_preprocessor().preprocess(*v.rt, text, sqf::runtime::fileio::pathinfo((dir / "main.sqf").string(), std::string("/main.sqf")));
            outcome = res.has_value() ? "ok" : "fail";
            if (res.has_value())
            {
                payload = *res;
                size_t pos;
                std::string root = dir.string();
                while ((pos = payload.find(root)) != std::string::npos) { payload.replace(pos, root.size(), "/$R"); }
            }
            fs::remove_all(dir);
        }
        else
        {
            std::string quoted = text;
            size_t qp = 0;
            while ((qp = quoted.find('"', qp)) != std::string::npos) { quoted.insert(qp, "\""); qp += 2; }
            std::string op = kind == "compile" ? "compile" : kind == "preprocess" ? "preprocess__" : "configparse__";
            std::string gvar = "gr" + std::to_string(rep);          // a variable of its own for every run in the VM
            std::string prog = gvar + " = " + op + " \"" + quoted + "\"";
            auto set = v.rt->parser_sqf().parse(*v.rt, prog, sqf::runtime::fileio::pathinfo(std::string("q"), std::string()));
            if (!set.has_value()) { outcome = "outer-parse-error"; }
            else
            {
                auto context = v.rt->context_create().lock();
                context->push_frame(sqf::runtime::frame(v.rt->default_value_scope(), *set));
                auto res = v.rt->execute(sqf::runtime::runtime::action::start);
                outcome = result_name(res);
                auto ns = v.rt->default_value_scope();
                if (ns->contains(gvar)) { payload = render_value(ns->at(gvar)); }
            }
        }
        }
        return outcome + ":" + std::to_string(errors()) + ":" + std::to_string(payload.size()) + ":" + hex_of(payload.substr(0, 4000));
    }
    inline std::string verb_front(const std::vector<std::string>& f)
    {
        std::string kind = f.size() > 0 ? f[0] : std::string();
        std::string text = f.size() > 1 ? f[1] : std::string();
        std::vector<std::string> files;
        if (f.size() > 2 && !f[2].empty()) { files = split(f[2], '\x01'); }
        auto a = front_once(kind, text, files);
        auto b = front_once(kind, text, files);
        if (a != b) { return a + " det=0 second=" + b; }
        // and once more as the second run inside one VM
        auto c = front_once(kind, text, files, 2);
        return a + (a == c ? " det=1" : " det=0 second-run-in-one-vm=" + c);
    }

    // pp <text> [<files: name \x02 content, separated by \x01>]
    //   the text is /main.sqf of a scratch directory mapped to /, the files lie beside it.
    //   -> "ok <hex of the whole output, scratch directory written /$R>" | "fail <codes of the error-level diagnostics>"
    //   followed by " warn=<codes of the warnings>"
    inline std::string verb_pp(const std::vector<std::string>& f)
    {
        namespace fs = std::filesystem;
        std::string text = f.size() > 0 ? f[0] : std::string();
        std::vector<std::string> files;
        if (f.size() > 1 && !f[1].empty()) { files = split(f[1], '\x01'); }
        auto v = make_vm(regmode::real);
        fs::path dir = fs::path("/var/tmp/sqfvm-verif/pp-scratch") / std::to_string((long)getpid());
        fs::remove_all(dir);
        fs::create_directories(dir);
        for (auto& e : files)
        {
            auto kv = split(e, '\x02');
            if (kv.size() < 2) { continue; }
            fs::path p = dir / kv[0];
            fs::create_directories(p.parent_path());
            std::ofstream o(p, std::ios::binary);
            o.write(kv[1].data(), (std::streamsize)kv[1].size());
        }
        { std::ofstream o(dir / "main.sqf", std::ios::binary); o.write(text.data(), (std::streamsize)text.size()); }
        v.rt->fileio().add_mapping(dir.string(), "/");
        auto res = v.rt->parser_preprocessor().preprocess(*v.rt, text, sqf::runtime::fileio::pathinfo((dir / "main.sqf").string(), std::string("/main.sqf")));
        std::string warn;
        for (auto& e : v.logger->entries)
        {
            if (e.level == (int)loglevel::warning) { if (!warn.empty()) { warn.push_back(','); } warn += std::to_string(e.code); }
        }
        std::string errs = v.logger->codes((int)loglevel::error);
        // the same text once more in the same VM: a run starts from the same macro table as the first one did
        auto res2 = v.rt->parser_preprocessor().preprocess(*v.rt, text, sqf::runtime::fileio::pathinfo((dir / "main.sqf").string(), std::string("/main.sqf")));
        fs::remove_all(dir);
        if (res.has_value() != res2.has_value() || (res.has_value() && *res != *res2))
        {
            return "second-run-in-one-vm-differs first=" + (res.has_value() ? hex_of(*res) : std::string("fail")) + " second=" + (res2.has_value() ? hex_of(*res2) : std::string("fail"));
        }
        if (!res.has_value()) { return "fail " + errs + " warn=" + warn; }
        std::string payload = *res;
        size_t pos;
        std::string root = dir.string();
        while ((pos = payload.find(root)) != std::string::npos) { payload.replace(pos, root.size(), "/$R"); }
        return "ok " + hex_of(payload) + " warn=" + warn;
    }

    // diag <text> [<files>] [<mode>]
    //   mode "pp" (default): the text is /main.sqf of a scratch directory; it is preprocessed, parsed and run.
    //   mode "raw": the text is parsed as it is (what `compile` does) and run.
    //   -> every diagnostic that carries a location, in order: "<level>:<code>@<line>:<col>:<path>" joined by ';',
    //      then " gl=<value of gl>" (for __LINE__/__FILE__ observations) and " res=<result>"
    inline std::string verb_diag(const std::vector<std::string>& f)
    {
        namespace fs = std::filesystem;
        std::string text = f.size() > 0 ? f[0] : std::string();
        std::vector<std::string> files;
        if (f.size() > 1 && !f[1].empty()) { files = split(f[1], '\x01'); }
        std::string mode = f.size() > 2 && !f[2].empty() ? f[2] : std::string("pp");
        auto v = make_vm(regmode::real);
        fs::path dir = fs::path("/var/tmp/sqfvm-verif/pp-scratch") / std::to_string((long)getpid());
        fs::remove_all(dir);
        fs::create_directories(dir);
        for (auto& e : files)
        {
            auto kv = split(e, '\x02');
            if (kv.size() < 2) { continue; }
            fs::path p = dir / kv[0];
            fs::create_directories(p.parent_path());
            std::ofstream o(p, std::ios::binary);
            o.write(kv[1].data(), (std::streamsize)kv[1].size());
        }
        { std::ofstream o(dir / "main.sqf", std::ios::binary); o.write(text.data(), (std::streamsize)text.size()); }
        v.rt->fileio().add_mapping(dir.string(), "/");
        sqf::runtime::fileio::pathinfo pi((dir / "main.sqf").string(), std::string("/main.sqf"));
        std::string res = "none";
        std::optional<std::string> pre = mode == "raw" ? std::optional<std::string>(text) : v.rt->parser_preprocessor().preprocess(*v.rt, text, pi);
        if (!pre.has_value()) { res = "pp-fail"; }
        else
        {
            auto set = v.rt->parser_sqf().parse(*v.rt, *pre, pi);
            if (!set.has_value()) { res = "parse-fail"; }
            else
            {
                auto context = v.rt->context_create().lock();
                context->push_frame(sqf::runtime::frame(v.rt->default_value_scope(), *set));
                res = result_name(v.rt->execute(sqf::runtime::runtime::action::start));
            }
        }
        fs::remove_all(dir);
        std::string out;
        std::string root = dir.string();
        for (auto& e : v.logger->entries)
        {
            if (!e.has_loc) { continue; }
            std::string path = e.path;
            size_t pos;
            while ((pos = path.find(root)) != std::string::npos) { path.replace(pos, root.size(), "/$R"); }
            if (!out.empty()) { out.push_back(';'); }
            out += std::to_string(e.level) + ":" + std::to_string(e.code) + "@" + std::to_string(e.line) + ":" + std::to_string(e.col) + ":" + path;
        }
        std::string gl;
        auto ns = v.rt->default_value_scope();
        if (ns->contains("gl"))
        {
            gl = render_value(ns->at("gl"));
            size_t pos;
            while ((pos = gl.find(root)) != std::string::npos) { gl.replace(pos, root.size(), "/$R"); }
        }
        // the entries of the stack traces: "<line>:<col>:<path>" of every "<k of n> [L..|C..|path]" in their texts
        std::string st;
        for (auto& e : v.logger->entries)
        {
            if (e.code != 60001) { continue; }
            size_t p = 0;
            while ((p = e.text.find(" of ", p)) != std::string::npos)
            {
                size_t b = e.text.find("[L", p);
                size_t close = e.text.find(']', b == std::string::npos ? p : b);
                if (b == std::string::npos || close == std::string::npos) { break; }
                std::string inner = e.text.substr(b + 2, close - b - 2); // 3|C4|/path
                size_t b1 = inner.find("|C");
                size_t b2 = inner.find('|', b1 == std::string::npos ? 0 : b1 + 2);
                if (b1 != std::string::npos && b2 != std::string::npos)
                {
                    std::string path = inner.substr(b2 + 1);
                    size_t pos;
                    while ((pos = path.find(root)) != std::string::npos) { path.replace(pos, root.size(), "/$R"); }
                    if (!st.empty()) { st.push_back(','); }
                    st += inner.substr(0, b1) + ":" + inner.substr(b1 + 2, b2 - b1 - 2) + ":" + path;
                }
                p = close;
            }
        }
        return out + " gl=" + gl + " st=" + st + " res=" + res;
    }

    // op <text> [<setup>]
    //   a fresh VM with every operator registered and a run-time limit of two seconds; <setup> (statements) runs
    //   first and is not observed; then "gr = <text>" is parsed and run.
    //   -> "res=<result> err=<error-level codes> type=<type of gr> dmem=<growth of the resident set in MB>"
    inline std::string verb_op(const std::vector<std::string>& f)
    {
        std::string op_scratch;
        struct cleanup { std::string& d; ~cleanup() { if (!d.empty()) { std::error_code ec; std::filesystem::remove_all(d, ec); } } } cl{ op_scratch };
        std::string text = f.size() > 0 ? f[0] : std::string();
        std::string setup = f.size() > 1 ? f[1] : std::string();
        struct rusage r0; getrusage(RUSAGE_SELF, &r0);
        auto v = make_vm(regmode::real, 2000);
        sqf::runtime::fileio::pathinfo pi(std::string("op.sqf"), std::string());
        {   // small files for the operators that read files: empty, one byte, two bytes of a BOM, a BOM alone, a BOM and text
            namespace fs = std::filesystem;
            fs::path dir = fs::path("/var/tmp/sqfvm-verif/op-scratch") / std::to_string((long)getpid());
            fs::create_directories(dir);
            const char* names[] = { "e0.txt", "e1.txt", "e2.txt", "e3.txt", "e4.sqf", "e5.cpp" };
            const std::string contents[] = { "", "a", "\xEF\xBB", "\xEF\xBB\xBF", "\xEF\xBB\xBF" "1 + 1", "class A { x = 1; };" };
            for (int i = 0; i < 6; i++) { std::ofstream o(dir / names[i], std::ios::binary); o.write(contents[i].data(), (std::streamsize)contents[i].size()); }
            v.rt->fileio().add_mapping(dir.string(), "/");
            op_scratch = dir.string();
        }
        // a small config, so that vehicles and units can be created (the class name check stays on)
        v.rt->parser_config().parse(v.rt->confighost(),
            "class CfgVehicles { class B_Soldier_F { transportSoldier = 0; displayName = \"Rifleman\"; }; class B_Truck_01 { transportSoldier = 8; }; class Empty {}; };",
            sqf::runtime::fileio::pathinfo(std::string("op-config.cpp"), std::string()));
        v.logger->entries.clear();
        if (!setup.empty())
        {
            auto s0 = v.rt->parser_sqf().parse(*v.rt, setup, pi);
            if (!s0.has_value()) { return "setup-parse-error"; }
            auto c0 = v.rt->context_create().lock();
            c0->push_frame(sqf::runtime::frame(v.rt->default_value_scope(), *s0));
            v.rt->execute(sqf::runtime::runtime::action::start);
            v.logger->entries.clear();
        }
        auto set = v.rt->parser_sqf().parse(*v.rt, "gr = " + text, pi);
        if (!set.has_value()) { return "parse-error"; }
        auto context = v.rt->context_create().lock();
        context->push_frame(sqf::runtime::frame(v.rt->default_value_scope(), *set));
        auto res = v.rt->execute(sqf::runtime::runtime::action::start);
        std::string type = "-";
        auto ns = v.rt->default_value_scope();
        std::string shown;
        if (ns->contains("gr"))
        {
            type = std::string(ns->at("gr").type().to_string());
            // the value itself, when it is small (for the replay; values are not compared)
            if (!ns->at("gr").is<sqf::runtime::t_array>() || ns->at("gr").data<sqf::types::d_array>()->size() <= 16) { shown = render_value(ns->at("gr")).substr(0, 200); }
        }
        struct rusage r1; getrusage(RUSAGE_SELF, &r1);
        long dmem = (r1.ru_maxrss - r0.ru_maxrss) / 1024;
        return std::string("res=") + result_name(res) + " err=" + v.logger->codes((int)loglevel::error) + " type=" + type + " dmem=" + std::to_string(dmem) + " val=" + hex_of(shown);
    }
}
