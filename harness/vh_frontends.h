#pragma once
// front <kind> <text> [<files: name \x02 content, separated by \x01>]
//   kind sqf:    SQF lexer + parser + code generation                 -> ok | fail
//   kind cfg:    config lexer + parser into a fresh config host       -> ok | fail
//   kind pp:     preprocessor (the text is /main.sqf of a scratch directory mapped to /, the files lie beside it)
//   kind compile / preprocess / configparse: the same front ends reached from a script
// Every front end is run twice on fresh VMs; the output is "<outcome>:<number of error-level diagnostics>:<hex of
// the result>" followed by " det=1" when both runs agree byte for byte.
namespace vh
{
    inline std::string front_once(const std::string& kind, const std::string& text, const std::vector<std::string>& files)
    {
        namespace fs = std::filesystem;
        auto v = make_vm(regmode::real);
        std::string outcome, payload;
        auto errors = [&]() { size_t n = 0; for (auto& e : v.logger->entries) { if (e.level <= (int)loglevel::error) { n++; } } return n; };
        if (kind == "sqf")
        {
            auto set = v.rt->parser_sqf().parse(*v.rt, text, sqf::runtime::fileio::pathinfo(std::string("f.sqf"), std::string()));
            outcome = set.has_value() ? "ok" : "fail";
            if (set.has_value()) { payload = render_set(*set); }
        }
        else if (kind == "cfg")
        {
            bool ok = v.rt->parser_config().parse(v.rt->confighost(), text, sqf::runtime::fileio::pathinfo(std::string("c.cpp"), std::string()));
            outcome = ok ? "ok" : "fail";
        }
        else if (kind == "pp")
        {
            fs::path dir = fs::path("/var/tmp/sqfvm-verif/pp-scratch") / std::to_string((long)getpid());
            fs::remove_all(dir);
            fs::create_directories(dir);
            for (auto& e : files)
            {
                auto kv = split(e, '\x02');
                if (kv.size() < 2) { continue; }
                fs::path p = dir / kv[0];
                fs::create_directories(p.parent_path());
                std::ofstream o(p, std::ios::binary);
                o.write(kv[1].data(), (std::streamsize)kv[1].size());
            }
            { std::ofstream o(dir / "main.sqf", std::ios::binary); o.write(text.data(), (std::streamsize)text.size()); }
            v.rt->fileio().add_mapping(dir.string(), "/");
            auto res = v.rt->parser_preprocessor().preprocess(*v.rt, text, sqf::runtime::fileio::pathinfo((dir / "main.sqf").string(), std::string("/main.sqf")));
            outcome = res.has_value() ? "ok" : "fail";
            if (res.has_value())
            {
                payload = *res;
                size_t pos;
                std::string root = dir.string();
                while ((pos = payload.find(root)) != std::string::npos) { payload.replace(pos, root.size(), "/$R"); }
            }
            fs::remove_all(dir);
        }
        else
        {
            std::string quoted = text;
            size_t qp = 0;
            while ((qp = quoted.find('"', qp)) != std::string::npos) { quoted.insert(qp, "\""); qp += 2; }
            std::string op = kind == "compile" ? "compile" : kind == "preprocess" ? "preprocess__" : "configparse__";
            std::string prog = "gr = " + op + " \"" + quoted + "\"";
            auto set = v.rt->parser_sqf().parse(*v.rt, prog, sqf::runtime::fileio::pathinfo(std::string("q"), std::string()));
            if (!set.has_value()) { outcome = "outer-parse-error"; }
            else
            {
                auto context = v.rt->context_create().lock();
                context->push_frame(sqf::runtime::frame(v.rt->default_value_scope(), *set));
                auto res = v.rt->execute(sqf::runtime::runtime::action::start);
                outcome = result_name(res);
                auto ns = v.rt->default_value_scope();
                if (ns->contains("gr")) { payload = render_value(ns->at("gr")); }
            }
        }
        return outcome + ":" + std::to_string(errors()) + ":" + std::to_string(payload.size()) + ":" + hex_of(payload.substr(0, 4000));
    }
    inline std::string verb_front(const std::vector<std::string>& f)
    {
        std::string kind = f.size() > 0 ? f[0] : std::string();
        std::string text = f.size() > 1 ? f[1] : std::string();
        std::vector<std::string> files;
        if (f.size() > 2 && !f[2].empty()) { files = split(f[2], '\x01'); }
        auto a = front_once(kind, text, files);
        auto b = front_once(kind, text, files);
        return a + (a == b ? " det=1" : " det=0 second=" + b);
    }

    // pp <text> [<files: name \x02 content, separated by \x01>]
    //   the text is /main.sqf of a scratch directory mapped to /, the files lie beside it.
    //   -> "ok <hex of the whole output, scratch directory written /$R>" | "fail <codes of the error-level diagnostics>"
    //   followed by " warn=<codes of the warnings>"
    inline std::string verb_pp(const std::vector<std::string>& f)
    {
        namespace fs = std::filesystem;
        std::string text = f.size() > 0 ? f[0] : std::string();
        std::vector<std::string> files;
        if (f.size() > 1 && !f[1].empty()) { files = split(f[1], '\x01'); }
        auto v = make_vm(regmode::real);
        fs::path dir = fs::path("/var/tmp/sqfvm-verif/pp-scratch") / std::to_string((long)getpid());
        fs::remove_all(dir);
        fs::create_directories(dir);
        for (auto& e : files)
        {
            auto kv = split(e, '\x02');
            if (kv.size() < 2) { continue; }
            fs::path p = dir / kv[0];
            fs::create_directories(p.parent_path());
            std::ofstream o(p, std::ios::binary);
            o.write(kv[1].data(), (std::streamsize)kv[1].size());
        }
        { std::ofstream o(dir / "main.sqf", std::ios::binary); o.write(text.data(), (std::streamsize)text.size()); }
        v.rt->fileio().add_mapping(dir.string(), "/");
        auto res = v.rt->parser_preprocessor().preprocess(*v.rt, text, sqf::runtime::fileio::pathinfo((dir / "main.sqf").string(), std::string("/main.sqf")));
        fs::remove_all(dir);
        std::string warn;
        for (auto& e : v.logger->entries)
        {
            if (e.level == (int)loglevel::warning) { if (!warn.empty()) { warn.push_back(','); } warn += std::to_string(e.code); }
        }
        if (!res.has_value()) { return "fail " + v.logger->codes((int)loglevel::error) + " warn=" + warn; }
        std::string payload = *res;
        size_t pos;
        std::string root = dir.string();
        while ((pos = payload.find(root)) != std::string::npos) { payload.replace(pos, root.size(), "/$R"); }
        return "ok " + hex_of(payload) + " warn=" + warn;
    }
}
