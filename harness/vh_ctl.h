#pragma once
// ctl <program|-> <actions> [<layout: model only>]: one VM, optionally one loaded script, then a sequence of
// runtime::execute(action) calls from one thread. Actions: S start, T stop, A abort, a assembly_step,
// l line_step, v leave_scope. Output per action: <result>:<state>:L<line of the next instruction or ->:F<frames>
namespace vh
{
    inline std::string ctl_position(sqf::runtime::runtime& rt)
    {
        if (rt.context_begin() == rt.context_end()) { return "L-:F0"; }
        auto& ctx = **rt.context_begin();
        if (ctx.empty()) { return "L-:F0"; }
        bool success = false;
        auto next = ctx.current_frame().peek(success);
        std::string line = success ? std::to_string((*next)->diag_info().line) : std::string("-");
        return "L" + line + ":F" + std::to_string(ctx.frames_size());
    }
    inline std::string verb_ctl(const std::vector<std::string>& f)
    {
        std::string text = f.size() > 0 ? f[0] : std::string();
        std::string actions = f.size() > 1 ? f[1] : std::string();
        // f[2]: layout (model only); f[3]: max_runtime in ms (0 = none). Action W lets limit + 50 ms of virtual time pass
        long limit_ms = f.size() > 3 && !f[3].empty() ? std::stol(f[3]) : 0;
        vclock_start(0, 1);
        auto v = make_vm(regmode::real, limit_ms);
        if (text != "-")
        {
            auto set = v.rt->parser_sqf().parse(*v.rt, text, sqf::runtime::fileio::pathinfo(std::string("f"), std::string()));
            if (!set.has_value()) { vclock_stop(); return "parse-error"; }
            auto context = v.rt->context_create().lock();
            context->push_frame(sqf::runtime::frame(v.rt->default_value_scope(), *set));
        }
        std::string out = "init:" + std::string(state_name(v.rt->runtime_state())) + ":" + ctl_position(*v.rt);
        for (char a : actions)
        {
            sqf::runtime::runtime::action act;
            switch (a)
            {
            case 'S': act = sqf::runtime::runtime::action::start; break;
            case 'T': act = sqf::runtime::runtime::action::stop; break;
            case 'A': act = sqf::runtime::runtime::action::abort; break;
            case 'a': act = sqf::runtime::runtime::action::assembly_step; break;
            case 'l': act = sqf::runtime::runtime::action::line_step; break;
            case 'v': act = sqf::runtime::runtime::action::leave_scope; break;
            case 'W':
                vclock_advance_ms(limit_ms + 50);
                out += " ; wait:" + std::string(state_name(v.rt->runtime_state())) + ":" + ctl_position(*v.rt);
                continue;
            default: out += " ; bad-action"; continue;
            }
            auto res = v.rt->execute(act);
            out += " ; " + std::string(result_name(res)) + ":" + std::string(state_name(v.rt->runtime_state())) + ":" + ctl_position(*v.rt);
        }
        vclock_stop();
        auto ns = v.rt->default_value_scope();
        out += " | tr=" + (ns->contains("tr") ? render_value(ns->at("tr")) : std::string("undef"));
        return out;
    }

    // ctl2 <program> <delay_us> <actions>: a second thread issues the actions (T stop, A abort, S start)
    // with the given delay between them while this thread is inside execute(start).
    // Output: ctl=<results> exec=<result> state=<state> contexts=<n> joined=1
    inline std::string verb_ctl2(const std::vector<std::string>& f)
    {
        std::string text = f.size() > 0 ? f[0] : std::string();
        long delay_us = f.size() > 1 && !f[1].empty() ? std::stol(f[1]) : 1000;
        std::string actions = f.size() > 2 ? f[2] : std::string("T");
        auto v = make_vm(regmode::real);
        v.rt->configuration().max_loop_iterations_in_unscheduled = (size_t)1 << 40;
        auto set = v.rt->parser_sqf().parse(*v.rt, text, sqf::runtime::fileio::pathinfo(std::string("f"), std::string()));
        if (!set.has_value()) { return "parse-error"; }
        auto context = v.rt->context_create().lock();
        context->push_frame(sqf::runtime::frame(v.rt->default_value_scope(), *set));
        std::string ctl;
        std::atomic<bool> entered{ false };
        std::thread controller([&]() {
            while (!entered) { std::this_thread::yield(); }
            for (char a : actions)
            {
                std::this_thread::sleep_for(std::chrono::microseconds(delay_us));
                sqf::runtime::runtime::action act = a == 'A' ? sqf::runtime::runtime::action::abort
                    : a == 'S' ? sqf::runtime::runtime::action::start : sqf::runtime::runtime::action::stop;
                auto r = v.rt->execute(act);
                if (!ctl.empty()) { ctl.push_back(','); }
                ctl += result_name(r);
            }
        });
        entered = true;
        auto res = v.rt->execute(sqf::runtime::runtime::action::start);
        controller.join();
        size_t n = 0;
        for (auto it = v.rt->context_begin(); it != v.rt->context_end(); ++it) { n++; }
        return "ctl=" + ctl + " exec=" + std::string(result_name(res)) + " state=" + std::string(state_name(v.rt->runtime_state())) +
            " contexts=" + std::to_string(n) + " joined=1";
    }

    // ctl3 <program> <k> <actions>: execute(start); right before instruction k+1 (hook
    // verif_before_instruction, executing thread, run flag held) the actions are issued.
    inline std::string verb_ctl3(const std::vector<std::string>& f)
    {
        std::string text = f.size() > 0 ? f[0] : std::string();
        size_t k = f.size() > 1 && !f[1].empty() ? (size_t)std::stoul(f[1]) : 0;
        std::string actions = f.size() > 2 ? f[2] : std::string();
        auto v = make_vm(regmode::real);
        auto set = v.rt->parser_sqf().parse(*v.rt, text, sqf::runtime::fileio::pathinfo(std::string("f"), std::string()));
        if (!set.has_value()) { return "parse-error"; }
        auto context = v.rt->context_create().lock();
        context->push_frame(sqf::runtime::frame(v.rt->default_value_scope(), *set));
        std::string ctl;
        size_t seen = 0;
        v.rt->verif_before_instruction = [&]() {
            if (seen++ != k) { return; }
            for (char a : actions)
            {
                sqf::runtime::runtime::action act;
                switch (a)
                {
                case 'S': act = sqf::runtime::runtime::action::start; break;
                case 'T': act = sqf::runtime::runtime::action::stop; break;
                case 'A': act = sqf::runtime::runtime::action::abort; break;
                case 'a': act = sqf::runtime::runtime::action::assembly_step; break;
                case 'l': act = sqf::runtime::runtime::action::line_step; break;
                case 'v': act = sqf::runtime::runtime::action::leave_scope; break;
                default: continue;
                }
                auto r = v.rt->execute(act);
                if (!ctl.empty()) { ctl.push_back(','); }
                ctl += result_name(r);
            }
        };
        auto res = v.rt->execute(sqf::runtime::runtime::action::start);
        v.rt->verif_before_instruction = nullptr;
        size_t n = 0;
        for (auto it = v.rt->context_begin(); it != v.rt->context_end(); ++it) { n++; }
        auto ns = v.rt->default_value_scope();
        return "ctl=" + ctl + " exec=" + std::string(result_name(res)) + " state=" + std::string(state_name(v.rt->runtime_state())) +
            " contexts=" + std::to_string(n) + " | tr=" + (ns->contains("tr") ? render_value(ns->at("tr")) : std::string("undef"));
    }

    // ctl4 <program> <outer actions> <k> <injected actions>: the outer actions are executed one after another as in ctl; right
    // before the (k+1)-th instruction executed by them altogether (hook verif_before_instruction, executing thread, run flag
    // held) the injected actions are issued once. Output: that of ctl, then " | ctl=<results of the injected actions>@<index of the
    // outer action that was executing, or ->"
    inline std::string verb_ctl4(const std::vector<std::string>& f)
    {
        std::string text = f.size() > 0 ? f[0] : std::string();
        std::string actions = f.size() > 1 ? f[1] : std::string();
        size_t k = f.size() > 2 && !f[2].empty() ? (size_t)std::stoul(f[2]) : 0;
        std::string injected = f.size() > 3 ? f[3] : std::string();
        vclock_start(0, 1);
        auto v = make_vm(regmode::real);
        auto set = v.rt->parser_sqf().parse(*v.rt, text, sqf::runtime::fileio::pathinfo(std::string("f"), std::string()));
        if (!set.has_value()) { vclock_stop(); return "parse-error"; }
        auto context = v.rt->context_create().lock();
        context->push_frame(sqf::runtime::frame(v.rt->default_value_scope(), *set));
        auto to_action = [](char a, sqf::runtime::runtime::action& act) {
            switch (a)
            {
            case 'S': act = sqf::runtime::runtime::action::start; return true;
            case 'T': act = sqf::runtime::runtime::action::stop; return true;
            case 'A': act = sqf::runtime::runtime::action::abort; return true;
            case 'a': act = sqf::runtime::runtime::action::assembly_step; return true;
            case 'l': act = sqf::runtime::runtime::action::line_step; return true;
            case 'v': act = sqf::runtime::runtime::action::leave_scope; return true;
            default: return false;
            }
        };
        std::string ctl;
        std::string fired_at = "-";
        size_t seen = 0;
        size_t outer_index = 0;
        v.rt->verif_before_instruction = [&]() {
            if (seen++ != k) { return; }
            fired_at = std::to_string(outer_index);
            for (char a : injected)
            {
                sqf::runtime::runtime::action act;
                if (!to_action(a, act)) { continue; }
                auto r = v.rt->execute(act);
                if (!ctl.empty()) { ctl.push_back(','); }
                ctl += result_name(r);
            }
        };
        std::string out = "init:" + std::string(state_name(v.rt->runtime_state())) + ":" + ctl_position(*v.rt);
        for (char a : actions)
        {
            sqf::runtime::runtime::action act;
            if (!to_action(a, act)) { out += " ; bad-action"; outer_index++; continue; }
            auto res = v.rt->execute(act);
            out += " ; " + std::string(result_name(res)) + ":" + std::string(state_name(v.rt->runtime_state())) + ":" + ctl_position(*v.rt);
            outer_index++;
        }
        v.rt->verif_before_instruction = nullptr;
        vclock_stop();
        auto ns = v.rt->default_value_scope();
        out += " | tr=" + (ns->contains("tr") ? render_value(ns->at("tr")) : std::string("undef"));
        out += " | ctl=" + ctl + "@" + fired_at;
        return out;
    }
}
