#pragma once
// Shared helpers of the harness: protocol encoding, capturing logger, runtime factory,
// canonical renderers for values and instructions, registry dump, synthetic registry.

namespace vh
{
    inline std::vector<std::string> split(const std::string& s, char sep)
    {
        std::vector<std::string> out;
        size_t start = 0;
        while (true)
        {
            auto pos = s.find(sep, start);
            if (pos == std::string::npos) { out.push_back(s.substr(start)); break; }
            out.push_back(s.substr(start, pos - start));
            start = pos + 1;
        }
        return out;
    }
    inline int hexval(char c)
    {
        if (c >= '0' && c <= '9') { return c - '0'; }
        if (c >= 'a' && c <= 'f') { return c - 'a' + 10; }
        if (c >= 'A' && c <= 'F') { return c - 'A' + 10; }
        return 0;
    }
    // A field is hex-encoded bytes; the single character "-" denotes the empty field.
    inline std::string unhex(const std::string& h)
    {
        if (h == "-") { return {}; }
        std::string out;
        out.reserve(h.size() / 2);
        for (size_t i = 0; i + 1 < h.size(); i += 2) { out.push_back((char)(hexval(h[i]) * 16 + hexval(h[i + 1]))); }
        return out;
    }
    inline std::string hex(const std::string& s)
    {
        static const char* d = "0123456789abcdef";
        std::string out;
        for (unsigned char c : s) { out.push_back(d[c >> 4]); out.push_back(d[c & 15]); }
        return out;
    }
    // Output escaping: printable ASCII except backslash stays, everything else becomes \xHH.
    inline std::string esc(const std::string& s)
    {
        static const char* d = "0123456789abcdef";
        std::string out;
        for (unsigned char c : s)
        {
            if (c >= 32 && c < 127 && c != '\\') { out.push_back((char)c); }
            else { out.push_back('\\'); out.push_back('x'); out.push_back(d[c >> 4]); out.push_back(d[c & 15]); }
        }
        return out;
    }

    inline std::string demangle(const char* name)
    {
        int status = 0;
        char* d = abi::__cxa_demangle(name, nullptr, nullptr, &status);
        std::string out = (status == 0 && d) ? d : name;
        std::free(d);
        return out;
    }
    inline std::string run_forked(const std::function<std::string()>& fn, long timeout_ms)
    {
        int fds[2];
        if (pipe(fds) != 0) { return "harness-error:pipe"; }
        std::cout.flush();
        pid_t pid = fork();
        if (pid < 0) { close(fds[0]); close(fds[1]); return "harness-error:fork"; }
        if (pid == 0)
        {
            close(fds[0]);
            struct rlimit rl; rl.rlim_cur = rl.rlim_max = 0; setrlimit(RLIMIT_CORE, &rl);
            if (const char* mb = std::getenv("VH_MEM_MB"))
            { // address space limit of the case (not usable with sanitizers, which reserve terabytes)
                struct rlimit ml; ml.rlim_cur = ml.rlim_max = (rlim_t)std::atol(mb) * 1024 * 1024; setrlimit(RLIMIT_AS, &ml);
            }
            std::string out = fn();
            size_t off = 0;
            while (off < out.size())
            {
                ssize_t w = write(fds[1], out.data() + off, out.size() - off);
                if (w <= 0) { break; }
                off += (size_t)w;
            }
            close(fds[1]);
            _exit(0);
        }
        close(fds[1]);
        std::string out;
        struct timespec t0; clock_gettime(CLOCK_MONOTONIC, &t0);
        bool timed_out = false;
        while (true)
        {
            struct timespec t1; clock_gettime(CLOCK_MONOTONIC, &t1);
            long elapsed = (t1.tv_sec - t0.tv_sec) * 1000 + (t1.tv_nsec - t0.tv_nsec) / 1000000;
            long remaining = timeout_ms - elapsed;
            if (remaining <= 0) { timed_out = true; break; }
            struct pollfd p; p.fd = fds[0]; p.events = POLLIN; p.revents = 0;
            int r = poll(&p, 1, (int)remaining);
            if (r < 0) { if (errno == EINTR) { continue; } break; }
            if (r == 0) { timed_out = true; break; }
            char buf[65536];
            ssize_t n = read(fds[0], buf, sizeof(buf));
            if (n <= 0) { break; }
            out.append(buf, (size_t)n);
        }
        close(fds[0]);
        if (timed_out) { kill(pid, SIGKILL); }
        int status = 0;
        waitpid(pid, &status, 0);
        if (timed_out) { return "timeout"; }
        if (WIFSIGNALED(status)) { return "crash:" + std::to_string(WTERMSIG(status)); }
        if (WIFEXITED(status) && WEXITSTATUS(status) != 0) { return "exit:" + std::to_string(WEXITSTATUS(status)); }
        return out;
    }

    struct logentry
    {
        int level;
        size_t code;
        std::string text;
        bool has_loc;
        size_t line;
        size_t col;
        std::string path;
    };
    class caplogger : public Logger
    {
    public:
        std::vector<logentry> entries;
        caplogger() : Logger() {}
        virtual void log(const LogMessageBase& message) override
        {
            logentry e;
            e.level = (int)message.getLevel();
            e.code = message.getErrorCode();
            e.text = message.formatMessage();
            e.has_loc = false;
            e.line = 0; e.col = 0;
            auto rt = dynamic_cast<const logmessage::RuntimeLogMessageBase*>(&message);
            if (rt)
            {
                e.has_loc = true;
                auto loc = rt->location();
                e.line = loc.line; e.col = loc.col; e.path = loc.path;
            }
            // a script that logs in an endless loop must not make the harness itself grow without bound
            if (entries.size() < 20000) { entries.push_back(e); } else { dropped++; }
        }
        size_t dropped = 0;
        // codes of all entries with level <= maxlevel, in order
        std::string codes(int maxlevel) const
        {
            std::string out;
            for (auto& e : entries)
            {
                if (e.level <= maxlevel)
                {
                    if (!out.empty()) { out.push_back(','); }
                    out += std::to_string(e.code);
                }
            }
            return out;
        }
    };

    struct vm
    {
        std::unique_ptr<caplogger> logger;
        std::unique_ptr<sqf::runtime::runtime> rt;
    };

    // Registers one operator of every class at every level (the real registry only uses
    // levels 1-7 and 9 and has no BN/BUN names). Names: b<k>, bu<k>, bn<k>, bun<k> (k=1..10), u, n, un.
    inline void register_synthetic(sqf::runtime::runtime& rt)
    {
        using namespace sqf::runtime;
        auto nul = [](runtime&) -> value { return {}; };
        auto una = [](runtime&, value::cref) -> value { return {}; };
        auto bin = [](runtime&, value::cref, value::cref) -> value { return {}; };
        for (int k = 1; k <= 10; k++)
        {
            std::string ks = std::to_string(k);
            rt.register_sqfop(sqfop::binary((short)k, "b" + ks, sqf::types::t_any(), sqf::types::t_any(), "", bin));
            rt.register_sqfop(sqfop::binary((short)k, "bu" + ks, sqf::types::t_any(), sqf::types::t_any(), "", bin));
            rt.register_sqfop(sqfop::unary("bu" + ks, sqf::types::t_any(), "", una));
            rt.register_sqfop(sqfop::binary((short)k, "bn" + ks, sqf::types::t_any(), sqf::types::t_any(), "", bin));
            rt.register_sqfop(sqfop::nular("bn" + ks, "", nul));
            rt.register_sqfop(sqfop::binary((short)k, "bun" + ks, sqf::types::t_any(), sqf::types::t_any(), "", bin));
            rt.register_sqfop(sqfop::unary("bun" + ks, sqf::types::t_any(), "", una));
            rt.register_sqfop(sqfop::nular("bun" + ks, "", nul));
        }
        rt.register_sqfop(sqfop::unary("u", sqf::types::t_any(), "", una));
        rt.register_sqfop(sqfop::nular("n", "", nul));
        rt.register_sqfop(sqfop::unary("un", sqf::types::t_any(), "", una));
        rt.register_sqfop(sqfop::nular("un", "", nul));
        // the sign operators and a few symbol operators, so that symbolic tokens are exercised too
        rt.register_sqfop(sqfop::binary(6, "+", sqf::types::t_any(), sqf::types::t_any(), "", bin));
        rt.register_sqfop(sqfop::unary("+", sqf::types::t_any(), "", una));
        rt.register_sqfop(sqfop::binary(6, "-", sqf::types::t_any(), sqf::types::t_any(), "", bin));
        rt.register_sqfop(sqfop::unary("-", sqf::types::t_any(), "", una));
        rt.register_sqfop(sqfop::binary(7, "*", sqf::types::t_any(), sqf::types::t_any(), "", bin));
        rt.register_sqfop(sqfop::binary(1, "||", sqf::types::t_any(), sqf::types::t_any(), "", bin));
        rt.register_sqfop(sqfop::binary(2, "&&", sqf::types::t_any(), sqf::types::t_any(), "", bin));
        rt.register_sqfop(sqfop::binary(3, "==", sqf::types::t_any(), sqf::types::t_any(), "", bin));
        rt.register_sqfop(sqfop::binary(9, "#", sqf::types::t_any(), sqf::types::t_any(), "", bin));
        rt.register_sqfop(sqfop::unary("!", sqf::types::t_any(), "", una));
    }

    enum class regmode { real, synthetic, none };

    inline vm make_vm(regmode mode = regmode::real, long max_runtime_ms = 0)
    {
        vm v;
        v.logger = std::make_unique<caplogger>();
        sqf::runtime::runtime::runtime_conf conf;
        conf.max_runtime = std::chrono::milliseconds(max_runtime_ms);
        conf.print_context_work_to_log_on_exit = true;
        conf.disable_networking = true;
        v.rt = std::make_unique<sqf::runtime::runtime>(*v.logger, conf);
        v.rt->fileio(std::make_unique<sqf::fileio::impl_default>(*v.logger));
        v.rt->parser_config(std::make_unique<sqf::parser::config::parser>(*v.logger));
        v.rt->parser_preprocessor(std::make_unique<sqf::parser::preprocessor::impl_default>(*v.logger));
        v.rt->parser_sqf(std::make_unique<sqf::parser::sqf::parser>(*v.logger));
        if (mode == regmode::real) { sqf::operators::ops(*v.rt); }
        else if (mode == regmode::synthetic) { register_synthetic(*v.rt); }
        return v;
    }

    // ---- canonical renderers -------------------------------------------------------------

    std::string render_set(const sqf::runtime::instruction_set& set);

    inline std::string render_number(float f)
    {
        if (std::isnan(f)) { return "nan"; }
        if (std::isinf(f)) { return f > 0 ? "inf" : "-inf"; }
        if (f == 0.0f) { return std::signbit(f) ? "-0" : "0"; }
        if (std::fabs(f) < 16777216.0f && std::floor(f) == f)
        {
            char buf[64];
            std::snprintf(buf, sizeof(buf), "%.0f", (double)f);
            return buf;
        }
        char buf[64];
        std::snprintf(buf, sizeof(buf), "%g", (double)f);
        return buf;
    }
    inline std::string render_string(const std::string& s)
    {
        std::string out = "\"";
        for (char c : s) { out.push_back(c); if (c == '"') { out.push_back(c); } }
        out.push_back('"');
        return out;
    }
    inline std::string render_value(const sqf::runtime::value& v, int depth = 0)
    {
        using namespace sqf;
        if (v.empty()) { return "nil"; }
        if (depth > 64) { return "<deep>"; }
        if (v.is<runtime::t_scalar>()) { return render_number(v.data<types::d_scalar>()->value()); }
        if (v.is<runtime::t_boolean>()) { return v.data<types::d_boolean>()->value() ? "true" : "false"; }
        if (v.is<runtime::t_string>()) { return render_string(v.data<types::d_string>()->value()); }
        if (v.is<runtime::t_array>())
        {
            std::string out = "[";
            bool first = true;
            for (auto& it : *v.data<types::d_array>())
            {
                if (!first) { out.push_back(','); }
                first = false;
                out += render_value(it, depth + 1);
            }
            out.push_back(']');
            return out;
        }
        if (v.is<runtime::t_code>()) { return "{" + render_set(v.data<types::d_code>()->value()) + "}"; }
        if (v.is<runtime::t_hashmap>())
        {
            // unordered container: canonical order = sorted by rendered entry
            std::vector<std::string> entries;
            for (auto& kv : v.data<types::d_hashmap>()->map()) { entries.push_back(render_value(kv.first, depth + 1) + "=" + render_value(kv.second, depth + 1)); }
            std::sort(entries.begin(), entries.end());
            std::string out = "#{";
            for (size_t i = 0; i < entries.size(); i++) { if (i) { out.push_back(','); } out += entries[i]; }
            out.push_back('}');
            return out;
        }
        return "<" + std::string(v.type().to_string()) + ">";
    }
    inline std::string render_instruction(const sqf::runtime::instruction& in)
    {
        using namespace sqf::opcodes;
        if (auto p = dynamic_cast<const push*>(&in)) { return "P:" + render_value(p->value()); }
        if (auto p = dynamic_cast<const call_nular*>(&in)) { return "n:" + std::string(p->operator_name()); }
        if (auto p = dynamic_cast<const call_unary*>(&in)) { return "u:" + std::string(p->operator_name()); }
        if (auto p = dynamic_cast<const call_binary*>(&in)) { return "b" + std::to_string(p->precedence()) + ":" + std::string(p->operator_name()); }
        if (auto p = dynamic_cast<const assign_to*>(&in)) { return "=:" + std::string(p->variable_name()); }
        if (auto p = dynamic_cast<const assign_to_local*>(&in)) { return "=l:" + std::string(p->variable_name()); }
        if (auto p = dynamic_cast<const get_variable*>(&in)) { return "g:" + std::string(p->variable_name()); }
        if (auto p = dynamic_cast<const make_array*>(&in)) { return "a:" + std::to_string(p->array_size()); }
        if (dynamic_cast<const end_statement*>(&in)) { return ";"; }
        return "?:" + in.to_string();
    }
    inline std::string render_set(const sqf::runtime::instruction_set& set)
    {
        std::string out;
        bool first = true;
        for (auto& it : set)
        {
            if (!first) { out.push_back(' '); }
            first = false;
            out += render_instruction(*it);
        }
        return out;
    }

    // ---- registry dump (consumed by translators/registry.py) ---------------------------------
    inline void dump_registry()
    {
        auto v = make_vm(regmode::real);
        std::vector<std::string> lines;
        for (auto it = v.rt->sqfop_nular_begin(); it != v.rt->sqfop_nular_end(); ++it)
        {
            lines.push_back("N " + std::string(it->first.name));
        }
        for (auto it = v.rt->sqfop_unary_begin(); it != v.rt->sqfop_unary_end(); ++it)
        {
            lines.push_back("U " + std::string(it->first.name) + " " + std::string(it->first.right_type.to_string()));
        }
        for (auto it = v.rt->sqfop_binary_begin(); it != v.rt->sqfop_binary_end(); ++it)
        {
            lines.push_back("B " + std::string(it->first.name) + " " + std::to_string(it->second.precedence()) + " " +
                std::string(it->first.left_type.to_string()) + " " + std::string(it->first.right_type.to_string()));
        }
        // The precedence yylex actually uses: that of the first overload in the by-name vector.
        std::map<std::string, short> first;
        for (auto it = v.rt->sqfop_binary_begin(); it != v.rt->sqfop_binary_end(); ++it)
        {
            std::string name(it->first.name);
            if (!first.count(name)) { first[name] = v.rt->sqfop_binary_by_name(name).begin()->get().precedence(); }
        }
        for (auto& kv : first) { lines.push_back("F " + kv.first + " " + std::to_string(kv.second)); }
        std::sort(lines.begin(), lines.end());
        for (auto& l : lines) { std::cout << l << '\n'; }
    }
}
