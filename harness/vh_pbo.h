#pragma once
#include "cli/cli.hpp"
#include <fcntl.h>
// pbo <hex file bytes> [absent] : the bytes are written to a scratch directory, opened through
// rvutils::pbo::pbofile the way the command line does (existence test, then the constructor), listed, every
// entry is read through the archive and through the virtual file system under the archive's prefix, and
// the scratch directory is compared with what it was before (nothing created, nothing modified).
#include <fstream>
#include <filesystem>
namespace vh
{
    inline std::string hex_of(const std::string& s)
    {
        static const char* d = "0123456789abcdef";
        std::string out;
        for (unsigned char c : s) { out.push_back(d[c >> 4]); out.push_back(d[c & 15]); }
        return out.empty() ? "-" : out;
    }
    inline std::string dir_state(const std::filesystem::path& dir)
    {
        std::vector<std::string> items;
        for (auto& e : std::filesystem::directory_iterator(dir))
        {
            std::ifstream f(e.path(), std::ios::binary);
            std::string bytes((std::istreambuf_iterator<char>(f)), std::istreambuf_iterator<char>());
            items.push_back(e.path().filename().string() + ":" + std::to_string(bytes.size()) + ":" + std::to_string(std::hash<std::string>()(bytes)));
        }
        std::sort(items.begin(), items.end());
        std::string out;
        for (auto& i : items) { out += i + ";"; }
        return out;
    }
    inline std::string verb_pbo(const std::vector<std::string>& f)
    {
        namespace fs = std::filesystem;
        bool absent = f.size() > 1 && f[1] == "absent";
        fs::path dir = fs::path("/var/tmp/sqfvm-verif/pbo-scratch") / std::to_string((long)getpid());
        fs::remove_all(dir);
        fs::create_directories(dir);
        fs::path file = dir / "x.pbo";
        if (!absent)
        {
            std::ofstream o(file, std::ios::binary);
            o.write(f[0].data(), (std::streamsize)f[0].size());
        }
        std::string before = dir_state(dir);
        std::string out;
        {
            auto v = make_vm(regmode::real);
            auto& io = static_cast<sqf::fileio::impl_default&>(v.rt->fileio());
            // what cli.cpp does for --input-pbo
            io.add_pbo_mapping(file);
            // and directly
            if (!fs::exists(file)) { out = "good=0"; }
            else
            {
                rvutils::pbo::pbofile pbo(file);
                out = std::string("good=") + (pbo.good() ? "1" : "0");
                if (pbo.good())
                {
                    out += " props=";
                    for (auto& kv : pbo.attributes()) { out += hex_of(kv.first) + "=" + hex_of(kv.second) + ";"; }
                    out += " files=";
                    auto files = pbo.files();
                    for (auto& d : files) { out += hex_of(d.name) + ":" + std::to_string(d.size) + ":" + std::to_string((int)d.packing) + ";"; }
                    out += " data=";
                    for (auto& d : files)
                    {
                        rvutils::pbo::pbofile::reader r;
                        if (pbo.read(d.name, r))
                        {
                            std::string s;
                            s.resize(d.size);
                            auto n = r.read(s.data(), (std::streamsize)s.size());
                            s.resize(n);
                            out += hex_of(s) + ";";
                        }
                        else { out += "!;"; }
                    }
                    // through the virtual file system: <prefix>/<name with forward slashes>
                    auto prefix = pbo.attribute("prefix");
                    out += " vfs=";
                    if (prefix.has_value())
                    {
                        for (auto& d : files)
                        {
                            std::string virt = *prefix + "/" + d.name;
                            std::replace(virt.begin(), virt.end(), '\\', '/');
                            auto info = io.get_info(virt, sqf::runtime::fileio::pathinfo(std::string(), std::string()));
                            if (info.has_value()) { out += hex_of(io.read_file(*info)) + ";"; }
                            else { out += "?;"; }
                        }
                    }
                    else { out += "noprefix"; }
                }
            }
        }
        {
            // the command line itself: sqfvm -a --input-pbo <file>; its output goes nowhere (the result of the case
            // travels through the pipe of the harness, not through stdout)
            int devnull = open("/dev/null", O_WRONLY);
            if (devnull >= 0) { dup2(devnull, 1); dup2(devnull, 2); close(devnull); }
            std::string path = file.string();
            const char* argv[] = { "sqfvm", "-a", "--suppress-welcome", "--no-execute-print", "--no-load-executable-dir", "--no-spawn-player", "--input-pbo", path.c_str() };
            int rc = -1;
            try { cli c; rc = c.run(8, argv); }
            catch (const std::exception&) { rc = -2; }
            out += " cli=" + std::string(rc == -2 ? "exception" : "returned");
        }
        std::string after = dir_state(dir);
        out += before == after ? " fs=unchanged" : " fs=CHANGED(" + before + " -> " + after + ")";
        fs::remove_all(dir);
        return out;
    }

    // pbo2 <hex bytes of archive A> <hex bytes of archive B>: both archives are mounted (as two --input-pbo arguments
    // would), then the entries of A and of B are read alternately through the virtual file system, each under the prefix
    // of its own archive: "r=<bytes of A0>;<bytes of B0>;<bytes of A1>;..." ('?' not found, '-' empty)
    inline std::string verb_pbo2(const std::vector<std::string>& f)
    {
        namespace fs = std::filesystem;
        if (f.size() < 2) { return "bad-args"; }
        fs::path dir = fs::path("/var/tmp/sqfvm-verif/pbo-scratch") / std::to_string((long)getpid());
        fs::remove_all(dir);
        fs::create_directories(dir);
        fs::path fa = dir / "a.pbo", fb = dir / "b.pbo";
        { std::ofstream o(fa, std::ios::binary); o.write(f[0].data(), (std::streamsize)f[0].size()); }
        { std::ofstream o(fb, std::ios::binary); o.write(f[1].data(), (std::streamsize)f[1].size()); }
        std::string out = "r=";
        {
            auto v = make_vm(regmode::real);
            auto& io = static_cast<sqf::fileio::impl_default&>(v.rt->fileio());
            io.add_pbo_mapping(fa);
            io.add_pbo_mapping(fb);
            rvutils::pbo::pbofile pa(fa), pb(fb);
            if (!pa.good() || !pb.good()) { fs::remove_all(dir); return "not-good"; }
            auto la = pa.files(), lb = pb.files();
            auto pra = pa.attribute("prefix"), prb = pb.attribute("prefix");
            auto rd = [&](const std::optional<std::string>& prefix, const std::string& name)
            {
                if (!prefix.has_value()) { return std::string("noprefix"); }
                std::string virt = *prefix + "/" + name;
                std::replace(virt.begin(), virt.end(), '\\', '/');
                auto info = io.get_info(virt, sqf::runtime::fileio::pathinfo(std::string(), std::string()));
                return info.has_value() ? hex_of(io.read_file(*info)) : std::string("?");
            };
            for (size_t i = 0; i < std::max(la.size(), lb.size()); i++)
            {
                if (i < la.size()) { out += rd(pra, la[i].name) + ";"; }
                if (i < lb.size()) { out += rd(prb, lb[i].name) + ";"; }
            }
        }
        fs::remove_all(dir);
        return out;
    }
}
