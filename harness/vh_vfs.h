#pragma once
// vfs <files> <mappings> <requests>: a directory tree is created in a scratch directory, physical
// directories are mapped to virtual paths, and requests are resolved.
//   files:    path \x02 content, separated by \x01 (paths relative to the scratch root)
//   mappings: physical-relative \x02 virtual, separated by \x01
//   requests: kind \x02 current-virtual \x02 current-physical-relative \x02 request, separated by \x01
//             kinds: info (fileio.get_info), load (loadFile), pre (preprocessFile), exec (execVM from inside a call with an argument; the file
//             sets the global gx), inc (a script file at current that #includes the request, preprocessed)
// The scratch root is written /$R (an absolute path), the file outside every mapped directory /$O.
namespace vh
{
    inline std::string vfs_rel(const std::string& s, const std::string& root)
    {
        std::string out = s;
        size_t pos;
        while ((pos = out.find(root)) != std::string::npos) { out.replace(pos, root.size(), "/$R"); }
        return out;
    }
    inline std::string verb_vfs(const std::vector<std::string>& f)
    {
        namespace fs = std::filesystem;
        fs::path dir = fs::path("/var/tmp/sqfvm-verif/vfs-scratch") / std::to_string((long)getpid());
        fs::remove_all(dir);
        fs::create_directories(dir);
        std::string root = dir.string();
        if (f.size() > 0 && !f[0].empty())
        {
            for (auto& e : split(f[0], '\x01'))
            {
                auto kv = split(e, '\x02');
                if (kv.size() < 2) { continue; }
                fs::path p = dir / kv[0];
                fs::create_directories(p.parent_path());
                std::ofstream o(p, std::ios::binary);
                o.write(kv[1].data(), (std::streamsize)kv[1].size());
            }
        }
        // a file outside every mapped directory, next to the scratch root
        fs::path outside = dir.parent_path() / ("outside-" + std::to_string((long)getpid()) + ".sqf");
        { std::ofstream o(outside, std::ios::binary); o << "gx = 666"; }
        std::string out;
        {
            auto v = make_vm(regmode::real);
            auto& io = v.rt->fileio();
            if (f.size() > 1 && !f[1].empty())
            {
                for (auto& e : split(f[1], '\x01'))
                {
                    auto kv = split(e, '\x02');
                    if (kv.size() < 2) { continue; }
                    std::string phys = kv[0].empty() ? root : root + "/" + kv[0];
                    io.add_mapping(phys, kv[1]);
                }
            }
            if (f.size() > 2 && !f[2].empty())
            {
                for (auto& e : split(f[2], '\x01'))
                {
                    auto q = split(e, '\x02');
                    if (q.size() < 4) { continue; }
                    if (!out.empty()) { out += " ; "; }
                    std::string req = q[3];
                    size_t pos;
                    while ((pos = req.find("/$R")) != std::string::npos) { req.replace(pos, 3, root); }
                    while ((pos = req.find("/$O")) != std::string::npos) { req.replace(pos, 3, outside.string()); }
                    sqf::runtime::fileio::pathinfo cur(q[2].empty() ? std::string() : root + "/" + q[2], q[1]);
                    v.logger->entries.clear();
                    if (q[0] == "info")
                    {
                        auto info = io.get_info(req, cur);
                        out += info.has_value() ? "P=" + vfs_rel(info->physical, root) + "|V=" + vfs_rel(info->virtual_, root) : std::string("none");
                    }
                    else if (q[0] == "inc" || q[0] == "ninc")
                    {
                        // preprocess a text located at `cur` that includes the request
                        auto res = v.rt->parser_preprocessor().preprocess(*v.rt, "#include \"" + req + "\"\n", cur);
                        out += res.has_value() ? "T=" + hex_of(*res) : std::string("failed");
                    }
                    else
                    {
                        std::string quoted = req;
                        size_t qp = 0;
                        while ((qp = quoted.find('"', qp)) != std::string::npos) { quoted.insert(qp, "\""); qp += 2; }
                        std::string text = q[0] == "load" ? "gr = loadFile \"" + quoted + "\"" : q[0] == "pre" ? "gr = preprocessFile \"" + quoted + "\"" :
                            "gx = 0; gh = [7] call { execVM \"" + quoted + "\" }; gr = 1";
                        auto set = v.rt->parser_sqf().parse(*v.rt, text, sqf::runtime::fileio::pathinfo(std::string("q"), std::string()));
                        if (!set.has_value()) { out += "parse-error"; continue; }
                        auto context = v.rt->context_create().lock();
                        context->push_frame(sqf::runtime::frame(v.rt->default_value_scope(), *set));
                        auto res = v.rt->execute(sqf::runtime::runtime::action::start);
                        if (res != sqf::runtime::runtime::result::empty) { v.rt->execute(sqf::runtime::runtime::action::abort); }
                        auto ns = v.rt->default_value_scope();
                        std::string g = q[0] == "exec" ? "gx" : "gr";
                        out += std::string(result_name(res)) + ":" + (ns->contains(g) ? vfs_rel(render_value(ns->at(g)), root) : std::string("undef"));
                    }
                }
            }
        }
        fs::remove_all(dir);
        fs::remove(outside);
        return out;
    }
}
