#pragma once
// iso <P> <Q1\x01Q2...> <mode>: the log of program P in a fresh VM
//   mode "alone":  nothing else ran in this process
//   mode "after":  every Q ran before, each in a VM of its own (destroyed afterwards or kept alive)
//   mode "beside": a second thread keeps running the Qs in VMs of its own while P runs
// Programs go through the preprocessor (so that __COUNTER__, __LINE__ and friends are exercised) and the
// SQF parser, and run with execute(start). Output: every log message (level and text) and the final state.
namespace vh
{
    inline std::string iso_run(const std::string& text, bool keep_alive, std::vector<vm>* keep)
    {
        auto v = make_vm(regmode::real);
        std::string out;
        auto pp = v.rt->parser_preprocessor().preprocess(*v.rt, text, sqf::runtime::fileio::pathinfo(std::string("iso.sqf"), std::string()));
        if (!pp.has_value()) { out = "preprocess-failed"; }
        else
        {
            auto set = v.rt->parser_sqf().parse(*v.rt, *pp, sqf::runtime::fileio::pathinfo(std::string("iso.sqf"), std::string()));
            if (!set.has_value()) { out = "parse-failed"; }
            else
            {
                auto context = v.rt->context_create().lock();
                context->push_frame(sqf::runtime::frame(v.rt->default_value_scope(), *set));
                auto res = v.rt->execute(sqf::runtime::runtime::action::start);
                out = std::string("res=") + result_name(res);
            }
        }
        for (auto& e : v.logger->entries)
        {
            out += "\n[" + std::to_string(e.level) + ":" + std::to_string(e.code) + "] " + e.text;
        }
        if (keep_alive && keep) { keep->push_back(std::move(v)); }
        return out;
    }
    inline std::string verb_iso(const std::vector<std::string>& f)
    {
        std::string p = f.size() > 0 ? f[0] : std::string();
        std::vector<std::string> qs;
        if (f.size() > 1 && !f[1].empty()) { qs = split(f[1], '\x01'); }
        std::string mode = f.size() > 2 ? f[2] : std::string("alone");
        std::vector<vm> alive;
        if (mode == "after" || mode == "after-alive")
        {
            for (auto& q : qs) { iso_run(q, mode == "after-alive", &alive); }
            return iso_run(p, false, nullptr);
        }
        if (mode == "beside")
        {
            std::atomic<bool> stop{ false };
            std::atomic<long> rounds{ 0 };
            std::thread other([&]() {
                while (!stop) { for (auto& q : qs) { iso_run(q, false, nullptr); } rounds++; }
            });
            while (rounds < 1) { std::this_thread::yield(); }
            std::string out;
            // several runs of P while the other thread works: all must be identical
            std::string first = iso_run(p, false, nullptr);
            bool same = true;
            for (int i = 0; i < 5; i++) { if (iso_run(p, false, nullptr) != first) { same = false; } }
            stop = true;
            other.join();
            return (same ? std::string() : std::string("UNSTABLE\n")) + first;
        }
        return iso_run(p, false, nullptr);
    }
}
