// cfglex <text>   raw token stream of the config tokenizer: "<kind>@<line>:<column>:<offset>+<length>" per token up to
//                 and including the first eof/invalid
// cfgast <text>   the tree the config grammar (Bison parser of the current tree) builds for the text, before it is
//                 applied to a config host:  "ok <nodes>" | "fail"
//                   node:  C(<name>) | X(<name>:<base>) | K(<name>){<nodes>} | E(<name>:<base>){<nodes>} | D(<name>)
//                          | F(<name>=<lit>) | A(<name>=<lit>) | P(<name>=<lit>)
//                   lit:   n:<hex> (decimal token) | h:<hex> | s:<hex> (string token with quotes) | t:<hex> (text)
//                          | [<lit>,<lit>]
//                 names and texts in hex, nodes separated by blanks
#include "runtime/runtime.h"
#include "runtime/logging.h"
#include "parser/config/config_parser.hpp"
#include "parser/config/parser.tab.hh"
#include <string>
#include <vector>
namespace vh
{
    // own translation unit: the SQF and the config grammar share the include guards of their Bison headers
    static std::string hex(const std::string& s)
    {
        static const char* d = "0123456789abcdef";
        std::string out;
        for (unsigned char c : s) { out.push_back(d[c >> 4]); out.push_back(d[c & 15]); }
        return out;
    }
    class nulllogger : public Logger
    {
    public:
        nulllogger() : Logger() {}
        virtual void log(const LogMessageBase&) override {}
    };
}
namespace vh
{
    std::string verb_cfglex(const std::vector<std::string>& f)
    {
        using tokenizer = sqf::parser::config::tokenizer;
        std::string text = f.empty() ? std::string() : f[0];
        tokenizer t(text.begin(), text.end(), "c");
        std::string out;
        size_t guard = 0;
        while (true)
        {
            auto tok = t.next();
            if (!out.empty()) { out.push_back(' '); }
            out += std::to_string((int)tok.type) + "@" + std::to_string(tok.line) + ":" + std::to_string(tok.column) + ":" +
                std::to_string(tok.offset) + "+" + std::to_string(tok.contents.length());
            if (tok.type == tokenizer::etoken::eof || tok.type == tokenizer::etoken::invalid) { break; }
            if (++guard > text.size() + 8) { out += " runaway"; break; }
        }
        return out;
    }
    inline std::string hex_sv(std::string_view sv) { std::string h = hex(std::string(sv)); return h.empty() ? std::string("-") : h; }
    inline std::string cfgast_lit(const sqf::parser::config::bison::astnode& n)
    {
        using astkind = sqf::parser::config::bison::astkind;
        switch (n.kind)
        {
        case astkind::NUMBER_DECIMAL: return "n:" + hex_sv(n.token.contents);
        case astkind::NUMBER_HEXADECIMAL: return "h:" + hex_sv(n.token.contents);
        case astkind::STRING: return "s:" + hex_sv(n.token.contents);
        case astkind::IDENT:
        case astkind::ANY: return "t:" + hex_sv(n.token.contents);
        case astkind::ANYSTRING:
        {
            if (n.children.empty()) { return "t:-"; }
            auto start = n.children.front().token.contents.data();
            auto end = n.children.back().token.contents.data() + n.children.back().token.contents.length();
            return "t:" + hex_sv(std::string_view(start, (size_t)(end - start)));
        }
        case astkind::ARRAY:
        {
            std::string out = "[";
            bool first = true;
            for (auto& c : n.children) { if (!first) { out.push_back(','); } first = false; out += cfgast_lit(c); }
            out.push_back(']');
            return out;
        }
        default: return "?" + std::to_string((int)n.kind);
        }
    }
    inline std::string cfgast_nodes(const sqf::parser::config::bison::astnode& n);
    inline std::string cfgast_node(const sqf::parser::config::bison::astnode& n)
    {
        using astkind = sqf::parser::config::bison::astkind;
        auto name = [&](size_t i) { return i < n.children.size() ? hex_sv(n.children[i].token.contents) : std::string("?"); };
        switch (n.kind)
        {
        case astkind::CLASS_DEF: return "C(" + name(0) + ")";
        case astkind::CLASS_DEF_EXT: return "X(" + name(0) + ":" + name(1) + ")";
        case astkind::CLASS: return "K(" + name(0) + "){" + cfgast_nodes(n.children[1]) + "}";
        case astkind::CLASS_EXT: return "E(" + name(0) + ":" + name(1) + "){" + cfgast_nodes(n.children[2]) + "}";
        case astkind::DELETE_CLASS: return "D(" + name(0) + ")";
        case astkind::FIELD: return "F(" + name(0) + "=" + cfgast_lit(n.children[1]) + ")";
        case astkind::FIELD_ARRAY: return "A(" + name(0) + "=" + cfgast_lit(n.children[1]) + ")";
        case astkind::FIELD_ARRAY_APPEND: return "P(" + name(0) + "=" + cfgast_lit(n.children[1]) + ")";
        default: return "?" + std::to_string((int)n.kind);
        }
    }
    inline std::string cfgast_nodes(const sqf::parser::config::bison::astnode& n)
    {
        std::string out;
        for (auto& c : n.children) { if (!out.empty()) { out.push_back(' '); } out += cfgast_node(c); }
        return out;
    }
    std::string verb_cfgast(const std::vector<std::string>& f)
    {
        std::string text = f.empty() ? std::string() : f[0];
        // the nesting pre-scan and the Bison run of parser::parse, without apply_to_confighost
        nulllogger logger;
        sqf::parser::config::parser actual(logger);
        if (!actual.check_syntax(text, sqf::runtime::fileio::pathinfo(std::string("c.cpp"), std::string()))) { return "fail"; }
        sqf::parser::config::tokenizer t(text.begin(), text.end(), "c.cpp");
        sqf::parser::config::bison::astnode res;
        sqf::parser::config::bison::parser p(t, res, actual);
        if (p.parse() != 0) { return "fail"; }
        std::string out = "ok";
        for (auto& st : res.children) { std::string s = cfgast_nodes(st); if (!s.empty()) { out += " " + s; } }
        return out;
    }
}
