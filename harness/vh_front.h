#pragma once
// Front-end verbs: lex (token stream of the SQF tokenizer), asm (instruction listing).
#include "parser/sqf/tokenizer.hpp"
#include "parser/sqf/sqf_formatter.h"

namespace vh
{
    inline regmode mode_of(const std::vector<std::string>& f, size_t idx)
    {
        if (f.size() > idx && f[idx] == "syn") { return regmode::synthetic; }
        if (f.size() > idx && f[idx] == "none") { return regmode::none; }
        return regmode::real;
    }
    inline vm& cached_vm(regmode mode)
    {
        static std::map<int, vm> cache;
        auto it = cache.find((int)mode);
        if (it == cache.end()) { it = cache.emplace((int)mode, make_vm(mode)).first; }
        it->second.logger->entries.clear();
        return it->second;
    }

    // lex <text>: every token the tokenizer yields (including whitespace/comment tokens) as
    //   <kind>@<line>:<col>:<offset>+<len>
    // terminated by eof or invalid (the tokenizer does not advance on invalid).
    inline std::string verb_lex(const std::vector<std::string>& f)
    {
        using tokenizer = sqf::parser::sqf::tokenizer;
        std::string text = f.empty() ? std::string() : f[0];
        tokenizer t(text.begin(), text.end(), "f");
        std::string out;
        size_t guard = 0;
        while (true)
        {
            auto tok = t.next();
            if (!out.empty()) { out.push_back(' '); }
            out += std::to_string((int)tok.type) + "@" + std::to_string(tok.line) + ":" + std::to_string(tok.column) + ":" +
                std::to_string(tok.offset) + "+" + std::to_string(tok.contents.length());
            if (tok.type == tokenizer::etoken::eof || tok.type == tokenizer::etoken::invalid) { break; }
            if (++guard > text.size() + 8) { out += " runaway"; break; }
        }
        return out;
    }

    // asm <text> [real|syn]: canonical instruction listing or "parse-error".
    inline std::string verb_asm(const std::vector<std::string>& f)
    {
        std::string text = f.empty() ? std::string() : f[0];
        auto& v = cached_vm(mode_of(f, 1));
        auto set = v.rt->parser_sqf().parse(*v.rt, text, sqf::runtime::fileio::pathinfo(std::string("f"), std::string()));
        if (!set.has_value()) { return "parse-error"; }
        return "ok " + render_set(*set);
    }

    // pretty <text>: the CLI pretty printer (sqf_formatter) applied to the text:
    //   "ok <pretty text>" | "parse-error" | "empty"
    inline std::string verb_pretty(const std::vector<std::string>& f)
    {
        std::string text = f.empty() ? std::string() : f[0];
        auto& v = cached_vm(regmode::real);
        sqf::parser::sqf::formatter fmt(*v.rt, text, sqf::runtime::fileio::pathinfo(std::string("f"), std::string()));
        std::ostringstream out;
        fmt.prettify(fmt.getRes(), 0, out);
        if (out.str().empty()) { return "empty"; }
        return "ok " + out.str();
    }
}
