#pragma once
// VM verbs: run / trace — execute a program instruction by instruction on a fresh VM and report
// the canonical observation (result, diagnostic codes, final value, selected globals) and, for
// trace, the frame bases and the rendered value stack after every instruction.

namespace vh
{
    inline const char* result_name(sqf::runtime::runtime::result r)
    {
        switch (r)
        {
        case sqf::runtime::runtime::result::invalid: return "invalid";
        case sqf::runtime::runtime::result::empty: return "empty";
        case sqf::runtime::runtime::result::ok: return "ok";
        case sqf::runtime::runtime::result::action_error: return "action_error";
        case sqf::runtime::runtime::result::runtime_error: return "runtime_error";
        }
        return "?";
    }
    inline const char* state_name(sqf::runtime::runtime::state s)
    {
        switch (s)
        {
        case sqf::runtime::runtime::state::empty: return "empty";
        case sqf::runtime::runtime::state::halted: return "halted";
        case sqf::runtime::runtime::state::running: return "running";
        case sqf::runtime::runtime::state::halted_error: return "halted_error";
        case sqf::runtime::runtime::state::evaluating: return "evaluating";
        }
        return "?";
    }
    inline std::string render_stack(sqf::runtime::context& ctx)
    {
        std::string out = "F";
        std::vector<size_t> bases;
        for (auto it = ctx.frames_rbegin(); it != ctx.frames_rend(); ++it) { bases.push_back(it->value_stack_pos()); }
        std::reverse(bases.begin(), bases.end());
        for (size_t i = 0; i < bases.size(); i++) { if (i) { out.push_back(','); } out += std::to_string(bases[i]); }
        out += "|V";
        bool first = true;
        for (auto it = ctx.values_begin(); it != ctx.values_end(); ++it)
        {
            if (!first) { out.push_back(','); }
            first = false;
            out += render_value(*it);
        }
        return out;
    }

    // run <program> <globals-csv> [maxsteps]   /   trace <program> <globals-csv> [maxsteps]
    inline std::string verb_run(const std::vector<std::string>& f, bool trace)
    {
        std::string text = f.size() > 0 ? f[0] : std::string();
        std::vector<std::string> globals;
        if (f.size() > 1 && !f[1].empty()) { globals = split(f[1], ','); }
        size_t maxsteps = f.size() > 2 && !f[2].empty() ? (size_t)std::stoul(f[2]) : 100000;

        auto v = make_vm(regmode::real);
        auto set = v.rt->parser_sqf().parse(*v.rt, text, sqf::runtime::fileio::pathinfo(std::string("f"), std::string()));
        if (!set.has_value()) { return "parse-error"; }
        auto context = v.rt->context_create().lock();
        context->push_frame(sqf::runtime::frame(v.rt->default_value_scope(), *set));

        std::string steps;
        sqf::runtime::runtime::result res = sqf::runtime::runtime::result::ok;
        size_t n = 0;
        bool limit = false;
        while (true)
        {
            res = v.rt->execute(sqf::runtime::runtime::action::assembly_step);
            if (trace)
            {
                if (!steps.empty()) { steps += " ; "; }
                steps += render_stack(*context);
                steps += "|";
                steps += result_name(res);
            }
            if (res != sqf::runtime::runtime::result::ok) { break; }
            if (v.rt->runtime_state() == sqf::runtime::runtime::state::empty) { break; }
            if (++n >= maxsteps) { limit = true; break; }
        }
        std::string out = std::string("res=") + (limit ? "limit" : result_name(res));
        out += " st=" + std::string(state_name(v.rt->runtime_state()));
        out += " err=" + v.logger->codes((int)loglevel::error);
        out += " val=";
        if (res == sqf::runtime::runtime::result::empty && context->values_size() > 0) { out += render_value(*(context->values_end() - 1)); }
        else { out += "-"; }
        auto ns = v.rt->default_value_scope();
        for (auto& g : globals)
        {
            out += " " + g + "=";
            out += ns->contains(g) ? render_value(ns->at(g)) : std::string("undef");
        }
        if (trace) { out += " T: " + steps; }
        return out;
    }

    // eq <program setting g1 and g2>: "ab=… ba=… ci=…" (value::operator== both ways, data::equals
    // case-insensitive) followed by " hashEq=…" (value::hash(), implementation only)
    inline std::string verb_eq(const std::vector<std::string>& f)
    {
        std::string text = f.size() > 0 ? f[0] : std::string();
        auto v = make_vm(regmode::real);
        auto set = v.rt->parser_sqf().parse(*v.rt, text, sqf::runtime::fileio::pathinfo(std::string("f"), std::string()));
        if (!set.has_value()) { return "parse-error"; }
        auto context = v.rt->context_create().lock();
        context->push_frame(sqf::runtime::frame(v.rt->default_value_scope(), *set));
        sqf::runtime::runtime::result res = sqf::runtime::runtime::result::ok;
        for (size_t n = 0; n < 5000; n++)
        {
            res = v.rt->execute(sqf::runtime::runtime::action::assembly_step);
            if (res != sqf::runtime::runtime::result::ok) { break; }
        }
        if (res != sqf::runtime::runtime::result::empty) { return "eval-error"; }
        auto ns = v.rt->default_value_scope();
        auto a = ns->at("g1");
        auto b = ns->at("g2");
        auto bs = [](bool x) { return std::string(x ? "true" : "false"); };
        bool ci = !a.empty() && !b.empty() && a.data()->equals(b.data(), true);
        return "ab=" + bs(a == b) + " ba=" + bs(b == a) + " ci=" + bs(ci) + " hashEq=" + bs(a.hash() == b.hash());
    }
}
