import SqfModel.Basic
import SqfModel.Lex
import SqfModel.Parse
import SqfModel.Value
import SqfModel.Compile
import SqfModel.Render
