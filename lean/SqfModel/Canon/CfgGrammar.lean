import SqfModel.LR
/-! CANONICAL SNAPSHOT (committed) of what translators/lalr.py produced from parser/config/parser.tab.cc — do not edit. -/
namespace Sqf.Canon.CfgGrammar
open Sqf.LR

def complete : Bool := true

def yypact : List Int :=
  [71, (-30), (-14), (-14), (-30), 11, 64, 22, (-30), (-30), (-30), (-30), (-30), 0, (-30), (-30), 22, 64, 81, (-14),
   (-30), (-30), (-30), 45, (-30), (-30), (-30), (-30), 41, 33, (-30), 86, 42, 26, (-30), (-30), 77, (-30), (-30), (-30),
   (-30), (-30), (-30), (-30), (-30), (-30), (-30), (-30), (-30), (-30), (-30), (-30), (-30), (-30), (-30), 26, 53, 53, (-30), 3,
   (-30), (-30), (-30), (-30), (-30), 20, (-30), (-30), 62, (-30), 44, (-30), (-30)]

def yydefact : List Int :=
  [0, 2, 0, 0, 6, 0, 4, 3, 8, 11, 12, 29, 23, 19, 1, 7, 5, 9, 0, 0,
   21, 10, 24, 0, 13, 16, 18, 17, 0, 20, 25, 14, 0, 0, 22, 15, 0, 45, 44, 40,
   41, 49, 50, 51, 42, 52, 31, 32, 30, 53, 48, 47, 46, 56, 39, 26, 0, 0, 57, 0,
   28, 27, 33, 35, 37, 0, 54, 43, 36, 34, 0, 55, 38]

def yypgoto : List Int :=
  [(-30), (-30), 2, 83, 70, (-30), 39, (-13), 10, 67, (-30), (-2), (-30), (-30), 38, 27, (-30), 46, 32, (-29),
   (-30), (-30)]

def yydefgoto : List Int :=
  [(-1), 5, 17, 7, 8, 23, 24, 9, 10, 20, 27, 50, 51, 52, 63, 64, 65, 53, 66, 67,
   68, 55]

def yytable : List Int :=
  [12, 13, 6, 11, 54, 25, 18, 37, 38, 59, 62, 14, 19, 41, 42, 43, 28, 29, 25, 45,
   11, 46, 47, 48, 49, 31, 54, 69, 26, 28, 37, 38, 39, 40, 70, 4, 41, 42, 43, 18,
   44, 26, 45, 11, 46, 47, 48, 49, 37, 38, 59, 32, 30, 36, 41, 42, 43, 33, 4, 59,
   45, 11, 46, 47, 48, 49, 37, 38, 2, 3, 35, 1, 41, 42, 43, 2, 3, 15, 45, 11,
   46, 47, 48, 49, 4, 2, 3, 21, 22, 16, 2, 3, 56, 57, 60, 61, 34, 72, 11, 15,
   71, 58, 0, 11]

def yycheck : List Int :=
  [2, 3, 0, 17, 33, 18, 6, 4, 5, 6, 7, 0, 12, 10, 11, 12, 18, 19, 31, 16,
   17, 18, 19, 20, 21, 23, 55, 7, 18, 31, 4, 5, 6, 7, 14, 13, 10, 11, 12, 6,
   14, 31, 16, 17, 18, 19, 20, 21, 4, 5, 6, 10, 7, 11, 10, 11, 12, 16, 13, 6,
   16, 17, 18, 19, 20, 21, 4, 5, 4, 5, 31, 0, 10, 11, 12, 4, 5, 13, 16, 17,
   18, 19, 20, 21, 13, 4, 5, 17, 7, 6, 4, 5, 15, 16, 56, 57, 29, 70, 17, 13,
   68, 55, (-1), 17]

def yyr1 : List Int :=
  [0, 22, 23, 23, 23, 23, 24, 24, 25, 25, 25, 26, 26, 27, 27, 27, 28, 28, 28, 29,
   29, 29, 29, 30, 31, 31, 32, 32, 32, 33, 34, 35, 35, 36, 36, 37, 37, 38, 38, 39,
   39, 39, 39, 40, 41, 41, 41, 41, 41, 41, 41, 41, 41, 41, 42, 42, 43, 43]

def yyr2 : List Int :=
  [0, 2, 1, 1, 1, 2, 1, 2, 1, 2, 3, 1, 1, 1, 2, 3, 1, 1, 1, 2,
   4, 3, 5, 2, 2, 3, 3, 5, 5, 1, 1, 1, 1, 2, 3, 1, 1, 1, 3, 1,
   1, 1, 1, 1, 1, 1, 1, 1, 1, 1, 1, 1, 1, 1, 1, 2, 1, 2]

def yypact_ninf : Int := (-30)
def yytable_ninf : Int := (-1)
def yylast : Int := 103
def yyfinal : Int := 14
def yyntokens : Int := 22

def tnames : List String :=
  ["END_OF_FILE", "error", "$undefined", "INVALID", "\"delete\"", "\"class\"",
   "\"{\"", "\"}\"", "\"(\"", "\")\"", "\"[\"", "\"]\"",
   "\":\"", "\";\"", "\",\"", "\"+=\"", "\"=\"", "IDENT",
   "NUMBER", "HEXNUMBER", "STRING", "ANY", "$accept", "start",
   "separators", "topstatements", "topstatement", "statements", "statement", "classdef",
   "deleteclass", "classbody", "field", "ident", "string", "number",
   "array", "arrayvalue", "arrayvaluelist", "anyval", "anyarr", "anyp",
   "anyarray", "anyvalue"]

def kinds : List (String × Int) :=
  [("ENDOFFILE", (-3)), ("INVALID", (-2)), ("__TOKEN", (-1)), ("NA", 0), ("STATEMENTS", 1), ("CLASS_DEF", 2), ("CLASS_DEF_EXT", 3), ("CLASS", 4), ("CLASS_EXT", 5), ("DELETE_CLASS", 6), ("FIELD", 7), ("FIELD_ARRAY", 8), ("FIELD_ARRAY_APPEND", 9), ("NUMBER_DECIMAL", 10), ("NUMBER_HEXADECIMAL", 11), ("STRING", 12), ("IDENT", 13), ("ARRAY", 14), ("ANYSTRING", 15), ("ANY", 16)]

def acts : List Act :=
  [.noValue,
   .noValue,
   .result [],
   .result [.append 0],
   .result [],
   .result [.append 0],
   .noValue,
   .noValue,
   .mk 1 none [.append 0],
   .move 1,
   .moveAppend 2 [.append 0],
   .move 0,
   .move 0,
   .mk 1 none [.append 0],
   .move 1,
   .moveAppend 2 [.append 0],
   .move 0,
   .move 0,
   .move 0,
   .mk 2 (some 1) [.append 0],
   .mk 3 (some 3) [.append 2, .append 0],
   .mk 4 (some 2) [.append 1, .append 0],
   .mk 5 (some 4) [.append 3, .append 1, .append 0],
   .mk 6 (some 1) [.append 0],
   .mk 1 none [],
   .move 1,
   .mk 7 (some 1) [.append 2, .appendUnwrapSingle 0 16],
   .mk 8 (some 1) [.append 4, .append 0],
   .mk 9 (some 1) [.append 4, .append 0],
   .mk 13 (some 0) [],
   .mk 12 (some 0) [],
   .mk 10 (some 0) [],
   .mk 11 (some 0) [],
   .mk 14 none [],
   .move 1,
   .move 0,
   .moveUnwrapSingle 0 16,
   .mk 14 none [.append 0],
   .moveAppend 2 [.append 0],
   .move 0,
   .mk 16 (some 0) [],
   .mk 16 (some 0) [],
   .mk 16 (some 0) [],
   .move 0,
   .mk 16 (some 0) [],
   .mk 16 (some 0) [],
   .move 0,
   .move 0,
   .move 0,
   .mk 16 (some 0) [],
   .mk 16 (some 0) [],
   .mk 16 (some 0) [],
   .mk 16 (some 0) [],
   .mk 16 (some 0) [],
   .mk 15 none [.append 0],
   .moveAppend 1 [.append 0],
   .mk 15 none [.append 0],
   .moveAppend 1 [.append 0]]

/-- `yylex`: tokenizer kind -> token constructor (`SKIP`: the token is dropped) -/
def yylexSimple : List (String × String) :=
  [("eof", "END_OF_FILE"), ("invalid", "INVALID"), ("m_line", "SKIP"), ("i_comment_line", "SKIP"),
   ("i_comment_block", "SKIP"), ("i_whitespace", "SKIP"), ("t_class", "CLASS"), ("t_delete", "DELETE"),
   ("s_curlyo", "CURLYO"), ("s_curlyc", "CURLYC"), ("s_edgeo", "SQUAREO"), ("s_edgec", "SQUAREC"),
   ("s_colon", "COLON"), ("s_semicolon", "SEMICOLON"), ("s_comma", "COMMA"), ("t_ident", "IDENT"),
   ("t_string_double", "STRING"), ("t_string_single", "STRING"), ("t_number", "NUMBER"), ("t_hexadecimal", "HEXNUMBER"),
   ("t_plus_equal", "PLUSEQUAL"), ("s_equal", "EQUAL"), ("any", "ANY")]

/-- `yylex`: (binary, unary, nular, precedence; 0 = no switch) -> token constructor -/
def yylexClass : List (Bool × Bool × Bool × Nat × String) :=
  []

def yylexFallback : String × String := ("?", "?")
def yylexDefault : String := "ANY"

def grammar : Grammar :=
  { t := { pact := yypact.toArray, defact := yydefact.toArray, pgoto := yypgoto.toArray, defgoto := yydefgoto.toArray,
           table := yytable.toArray, check := yycheck.toArray, r1 := yyr1.toArray, r2 := yyr2.toArray,
           pactNinf := yypact_ninf, tableNinf := yytable_ninf, last := yylast, final := yyfinal, ntokens := yyntokens },
    acts := acts.toArray, naKind := 0 }

end Sqf.Canon.CfgGrammar
