import SqfModel.Compile
/-!
# Canonical rendering of values and instructions

Mirrors `render_value` / `render_instruction` of the harness (`harness/vh_common.h`): the two sides of
the correspondence check print the same text for the same value.
-/
namespace Sqf

def renderNat (n : Nat) : List B := natDigits n

/-- Rendering of an exact decimal the way the harness prints a float that holds it exactly. -/
def renderDec (d0 : Dec) : List B :=
  let d := d0.norm
  let sign : List B := if d.neg then [45] else []
  if d.mant == 0 then sign ++ [48]
  else if d.exp ≥ 0 then sign ++ renderNat (d.mant * 10 ^ d.exp.toNat)
  else
    let ds := renderNat d.mant
    let k := (-d.exp).toNat
    if ds.length ≤ k then sign ++ [48, 46] ++ List.replicate (k - ds.length) 48 ++ ds
    else sign ++ ds.take (ds.length - k) ++ [46] ++ ds.drop (ds.length - k)

def renderStr (s : List B) : List B :=
  [34] ++ s.flatMap (fun c => if c == 34 then [34, 34] else [c]) ++ [34]

def joinWith (sep : List B) : List (List B) → List B
  | [] => []
  | [x] => x
  | x :: rest@(_ :: _) => x ++ sep ++ joinWith sep rest

mutual
def renderVal : Val → List B
  | .nil => bytes "nil"
  | .num d => renderDec d
  | .nan => bytes "nan"
  | .bool true => bytes "true"
  | .bool false => bytes "false"
  | .str s => renderStr s
  | .ref id => bytes "<ref" ++ renderNat id ++ bytes ">"
  | .code is => [123] ++ renderInstrs is ++ [125]
  | .ifv _ => bytes "<IF>"
  | .whilev _ => bytes "<WHILE>"
  | .forv _ _ _ _ => bytes "<FOR>"
  | .sw _ _ _ _ => bytes "<SWITCH>"
  | .ns _ => bytes "<NAMESPACE>"
  | .withv _ => bytes "<WITH>"
  | .exc _ => bytes "<EXCEPTION>"
  | .script _ => bytes "<SCRIPT>"
  | .strace _ => bytes "<VM-STACKTRACE>"
  | .mapref _ => bytes "<HASHMAP>"
  | .other tag => [60] ++ tag ++ [62]
def renderInstr : Instr → List B
  | .push v => bytes "P:" ++ renderVal v
  | .callNular n => bytes "n:" ++ n
  | .callUnary n => bytes "u:" ++ n
  | .callBinary n k => bytes "b" ++ renderNat k ++ bytes ":" ++ n
  | .assignTo n => bytes "=:" ++ n
  | .assignToLocal n => bytes "=l:" ++ n
  | .getVariable n => bytes "g:" ++ n
  | .makeArray k => bytes "a:" ++ renderNat k
  | .endStatement => bytes ";"
def renderInstrs : List Instr → List B
  | [] => []
  | [i] => renderInstr i
  | i :: rest@(_ :: _) => renderInstr i ++ [32] ++ renderInstrs rest
end

end Sqf
