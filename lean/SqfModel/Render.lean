import SqfModel.Compile
/-!
# Canonical rendering of values and instructions

Mirrors `render_value` / `render_instruction` of the harness (`harness/vh_common.h`): the two sides of
the correspondence check print the same text for the same value.
-/
namespace Sqf

def renderNat (n : Nat) : List B := natDigits n

/-- number of decimal digits of a positive natural number -/
def numDigits (n : Nat) : Nat := (natDigits n).length

/-- round a mantissa with `k` digits to 6 significant digits (round half up on the decimal digits;
    values of the property's class have at most 6 digits and are not rounded at all) -/
def roundTo6 (mant : Nat) (exp : Int) : Nat × Int :=
  let k := numDigits mant
  if k ≤ 6 then (mant, exp)
  else
    let drop := k - 6
    let q := mant / 10 ^ drop
    let r := mant % 10 ^ drop
    let q' := if 2 * r ≥ 10 ^ drop then q + 1 else q
    (q', exp + drop)

def pad2 (n : Nat) : List B := if n < 10 then [48] ++ natDigits n else natDigits n

/-- `snprintf("%g", x)` for an exact decimal -/
def fmtG (d0 : Dec) : List B :=
  let d := d0.norm
  let sign : List B := if d.neg then [45] else []
  if d.mant == 0 then sign ++ [48]
  else
    let (m1, e1) := roundTo6 d.mant d.exp
    let (m, e) := Dec.stripZeros 64 m1 e1
    let ds := natDigits m
    let k := ds.length
    -- decimal exponent of the leading digit
    let x : Int := e + (k : Int) - 1
    if x < -4 || x ≥ 6 then
      -- scientific: d.ddddde±XX
      let frac := ds.drop 1
      let mantText := ds.take 1 ++ (if frac.isEmpty then [] else [46] ++ frac)
      let expText : List B := (if x < 0 then [45] else [43]) ++ pad2 x.natAbs
      sign ++ mantText ++ [101] ++ expText
    else if e ≥ 0 then sign ++ ds ++ List.replicate e.toNat 48
    else
      let fr := (-e).toNat
      if k ≤ fr then sign ++ [48, 46] ++ List.replicate (fr - k) 48 ++ ds
      else sign ++ ds.take (k - fr) ++ [46] ++ ds.drop (k - fr)

/-- Rendering of an exact decimal the way the harness prints a float that holds it: integers in
    full, everything else like `%g` (6 significant digits). -/
def renderDec (d0 : Dec) : List B :=
  let d := d0.norm
  let sign : List B := if d.neg then [45] else []
  if d.mant == 0 then sign ++ [48]
  else if d.exp ≥ 0 && decide (d.mant * 10 ^ d.exp.toNat < 16777216) then sign ++ renderNat (d.mant * 10 ^ d.exp.toNat)
  else fmtG d

def renderStr (s : List B) : List B :=
  [34] ++ s.flatMap (fun c => if c == 34 then [34, 34] else [c]) ++ [34]

def joinWith (sep : List B) : List (List B) → List B
  | [] => []
  | [x] => x
  | x :: rest@(_ :: _) => x ++ sep ++ joinWith sep rest

mutual
def renderVal : Val → List B
  | .nil => n!"nil"
  | .num d => renderDec d
  | .nan => n!"nan"
  | .bool true => n!"true"
  | .bool false => n!"false"
  | .str s => renderStr s
  | .ref id => n!"<ref" ++ renderNat id ++ n!">"
  | .code is => [123] ++ renderInstrs is ++ [125]
  | .ifv _ => n!"<IF>"
  | .whilev _ => n!"<WHILE>"
  | .forv _ _ _ _ => n!"<FOR>"
  | .sw _ _ _ _ => n!"<SWITCH>"
  | .ns _ => n!"<NAMESPACE>"
  | .withv _ => n!"<WITH>"
  | .exc _ => n!"<EXCEPTION>"
  | .script _ => n!"<SCRIPT>"
  | .strace _ => n!"<VM-STACKTRACE>"
  | .mapref _ => n!"<HASHMAP>"
  | .other tag => [60] ++ tag ++ [62]
def renderInstr : Instr → List B
  | .push v => n!"P:" ++ renderVal v
  | .callNular n => n!"n:" ++ n
  | .callUnary n => n!"u:" ++ n
  | .callBinary n k => n!"b" ++ renderNat k ++ n!":" ++ n
  | .assignTo n => n!"=:" ++ n
  | .assignToLocal n => n!"=l:" ++ n
  | .getVariable n => n!"g:" ++ n
  | .makeArray k => n!"a:" ++ renderNat k
  | .endStatement => n!";"
def renderInstrs : List Instr → List B
  | [] => []
  | [i] => renderInstr i
  | i :: rest@(_ :: _) => renderInstr i ++ [32] ++ renderInstrs rest
end

end Sqf
