import SqfModel.Parse
/-!
# Decorated syntax trees: an expression tree *as written*

A `D` is a syntax tree together with the way it is spelled at token level: which token stands for
each operator, where (possibly redundant) parentheses are, which separators follow a statement.
`toks` prints it, `erase` forgets the decoration and yields the `Ast` the documented reading assigns
to it, and `WP` ("well parenthesised") demands parentheses exactly where the documented reading needs
them: a binary operator of level `l` as left operand of a level-`k` operator needs `k ≤ l`, as right
operand `k < l`, under a unary operator always; everything else may be parenthesised or not.
-/
namespace Sqf

inductive D where
  | leaf (t : PTok) (l : Leaf)
  | unary (t : PTok) (n : Name) (a : D)
  | binary (t : PTok) (lvl : Nat) (n : Name) (a b : D)
  | paren (a : D)
  | array (es : List D)
  | code (lead : List PTok) (ss : List D)
  | assign (lhs e : D)
  | assignLocal (n : Name) (e : D)
  /-- a statement together with the separators written after it -/
  | seq (s : D) (seps : List PTok)

namespace D

mutual
def toks : D → List PTok
  | .leaf t _ => [t]
  | .unary t _ a => t :: a.toks
  | .binary t _ _ a b => a.toks ++ t :: b.toks
  | .paren a => .roundO :: a.toks ++ [.roundC]
  | .array es => .squareO :: toksArr es ++ [.squareC]
  | .code lead ss => .curlyO :: lead ++ toksSeq ss ++ [.curlyC]
  | .assign lhs e => lhs.toks ++ .equal :: e.toks
  | .assignLocal n e => .tPrivate :: .ident n :: .equal :: e.toks
  | .seq s seps => s.toks ++ seps
/-- array elements: the first one, then `, e` for each further one -/
def toksArr : List D → List PTok
  | [] => []
  | e :: es => e.toks ++ toksTail es
def toksTail : List D → List PTok
  | [] => []
  | e :: es => .comma :: e.toks ++ toksTail es
def toksSeq : List D → List PTok
  | [] => []
  | s :: ss => s.toks ++ toksSeq ss
end

mutual
def erase : D → Ast
  | .leaf _ l => .leaf l
  | .unary _ n a => .unary n a.erase
  | .binary _ l n a b => .binary l n a.erase b.erase
  | .paren a => a.erase
  | .array es => .array (eraseList es)
  | .code _ ss => .code (eraseList ss)
  | .assign lhs e => .assign lhs.erase e.erase
  | .assignLocal n e => .assignLocal n e.erase
  | .seq s _ => s.erase
def eraseList : List D → List Ast
  | [] => []
  | e :: es => e.erase :: eraseList es
end

mutual
def size : D → Nat
  | .leaf _ _ => 1
  | .unary _ _ a => a.size + 1
  | .binary _ _ _ a b => a.size + b.size + 1
  | .paren a => a.size + 1
  | .array es => sizeList es + 1
  | .code _ ss => sizeList ss + 1
  | .assign lhs e => lhs.size + e.size + 1
  | .assignLocal _ e => e.size + 1
  | .seq s _ => s.size + 1
def sizeList : List D → Nat
  | [] => 0
  | e :: es => e.size + sizeList es + 1
end

def isExpr : D → Bool
  | .leaf _ _ | .unary _ _ _ | .binary _ _ _ _ _ | .paren _ | .array _ | .code _ _ => true
  | _ => false
def isValue : D → Bool
  | .leaf _ _ | .array _ | .code _ _ => true
  | _ => false
def isStmt : D → Bool
  | .assign _ _ | .assignLocal _ _ => true
  | d => d.isExpr
def isSeq : D → Bool
  | .seq _ _ => true
  | _ => false
def hasSeps : D → Bool
  | .seq _ (_ :: _) => true
  | _ => false
/-- level of the outermost operator: a binary operator's level, `top` for everything else -/
def lvl : D → Nat
  | .binary _ l _ _ _ => l
  | _ => top

/-- the leaf a token denotes as an operand (a bare `BUN` operator as nular operand is *not* admitted:
    directly in front of a token that can start an operand it would be read as a unary operator) -/
def leafOfTok : PTok → Option Leaf
  | .string s => some (.str s)
  | .number s => some (.num s)
  | .hexnumber s => some (.hex s)
  | .tTrue => some .tru
  | .tFalse => some .fls
  | .ident n => some (.ident n)
  | .opN n => some (.nular n)
  | .op .bn _ n => some (.nular n)
  | _ => none

/-- `(bun)`: a `BUN` operator used as nular operand, which must be parenthesised -/
def isBunNular : D → Bool
  | .leaf (.op .bun _ n) (.nular n') => n == n'
  | _ => false

/-- the name of a prefix-operator token -/
def unOfTok : PTok → Option Name
  | .opU m => some m
  | .opUN m => some m
  | .op .bu _ m => some m
  | .op .bun _ m => some m
  | .tPrivate => some (kwPrivate)
  | _ => none

/-- level and name of a binary-operator token -/
def binOfTok : PTok → Option (Nat × Name)
  | .op _ l m => some (l, m)
  | _ => none

mutual
def WP : D → Prop
  | .leaf t l => leafOfTok t = some l
  | .unary t n a => unOfTok t = some n ∧ a.isExpr = true ∧ a.lvl = top ∧ a.WP
  | .binary t l n a b => binOfTok t = some (l, n) ∧ 1 ≤ l ∧ l < top ∧ a.isExpr = true ∧ b.isExpr = true ∧
      l ≤ a.lvl ∧ l + 1 ≤ b.lvl ∧ a.WP ∧ b.WP
  | .paren a => a.isExpr = true ∧ (a.isBunNular = true ∨ a.WP)
  | .array es => WPArr es
  | .code lead ss => (∀ t ∈ lead, isSep t = true) ∧ WPSeq ss
  | .assign lhs e => lhs.isValue = true ∧ lhs.WP ∧ e.isExpr = true ∧ e.WP
  | .assignLocal _ e => e.isExpr = true ∧ e.WP
  | .seq s seps => s.isStmt = true ∧ s.WP ∧ (∀ t ∈ seps, isSep t = true)
def WPArr : List D → Prop
  | [] => True
  | e :: es => e.isExpr = true ∧ e.WP ∧ WPArr es
/-- a statement sequence: `seq` nodes, every one but the last followed by at least one separator -/
def WPSeq : List D → Prop
  | [] => True
  | s :: ss => s.isSeq = true ∧ s.WP ∧ (ss ≠ [] → s.hasSeps = true) ∧ WPSeq ss
end

end D

/-- a whole program as written: leading separators and a statement sequence -/
structure Program where
  lead : List PTok
  stmts : List D

def Program.toks (p : Program) : List PTok := p.lead ++ D.toksSeq p.stmts ++ [.eof]
def Program.erase (p : Program) : List Ast := D.eraseList p.stmts
def Program.WP (p : Program) : Prop := (∀ t ∈ p.lead, isSep t = true) ∧ D.WPSeq p.stmts

end Sqf
