import SqfModel.VM.Sched
import SqfModel.Config
/-!
# Model of the C API (`src/export/sqfvm.cpp`)

An instance wraps one runtime. `call` is the state machine of `sqfvm_call`: state check, preprocess,
parse by type, create a context, `execute(start)`, map the result, `abort` on failure. Every diagnostic
the runtime logs during a call is a callback invocation tagged with the user data of the instance and
the call data of that call.

What is *modelled rather than verified* here: the preprocessor is a parameter `pp` (the correspondence
check uses inputs the preprocessor passes through unchanged, plus inputs it rejects); the assembly and
SQC parsers (`'a'`, `'c'`) are outside the model.
-/
namespace Sqf.Api
open Sqf Sqf.VM

/-- one invocation of the log callback: severity, user data, call data -/
structure Delivery where
  level : Int
  user : Nat
  call : Nat
  deriving Repr, DecidableEq

/-- the parts of the environment an instance is created with -/
structure Env where
  /-- the SQF front end (lexer, parser, code generation) against the instance's registry -/
  parse : List B → Option (List Instr)
  /-- the preprocessor on the text of a call: `none` = preprocessing failed -/
  pp : List B → Option (List B)
  /-- the config front end: text to AST -/
  parseCfg : List B → Option (List Cfg.Node)
  /-- the assembly front end (call type `'a'`): text to instructions -/
  parseAsm : List B → Option (List Instr) := fun _ => none

structure Inst where
  /-- the handle carries the magic tag (false after `destroy`, or for a foreign pointer) -/
  valid : Bool := true
  user : Nat := 0
  /-- `logger->call_data` -/
  callData : Nat := 0
  rt : RT := { ctxs := [], m := {} }
  state : RunState := .empty
  cfg : Cfg.Host := {}
  /-- every callback invocation so far, in order -/
  delivered : List Delivery := []

/-- documented return codes -/
def rcOk : Int := 0
def rcInvalidInstance : Int := -1
def rcPreprocess : Int := -2
def rcParse : Int := -3
def rcRunning : Int := -4
def rcType : Int := -5
def rcFailed : Int := -6

/-- `sqfvm_create_instance(user_data, callback, max_runtime_seconds)`: the time limit is converted to
    whole milliseconds -/
def create (env : Env) (user : Nat) (maxRuntimeMs : Nat) : Inst :=
  { user := user, rt := { ctxs := [], m := { maxRuntime := maxRuntimeMs, parse := env.parse, alive := [] } } }

/-- deliver the diagnostics the runtime logged between `before` and `after` -/
def deliverNew (i : Inst) (before : Nat) (m : M) : List Delivery :=
  (m.diags.drop before).map (fun d => { level := (d.level : Int), user := i.user, call := i.callData })

/-- `runtime::execute(action::abort)` -/
def abort (ctxs : List Ctx) (m : M) (st : RunState) : List Ctx × M × RunState :=
  match st with
  | .halted | .haltedError => ([], m, .empty)
  | .empty => (ctxs, m, .empty)

/-- numeric value of `runtime::state` as `sqfvm_status` reports it -/
def stateCode : RunState → Int
  | .empty => 0 | .halted => 1 | .haltedError => 3

/-- `context_create`, `push_frame`, `execute(start)` for a parsed script -/
def startOf (i : Inst) (prog : List Instr) (fuel : Nat) : StartRes :=
  start 150 fuel { ctxs := i.rt.ctxs ++ [{ frames := [{ code := prog }], id := i.rt.m.nextCtx }],
                   m := { i.rt.m with nextCtx := i.rt.m.nextCtx + 1, alive := i.rt.m.alive ++ [i.rt.m.nextCtx] } }

/-- did the run end without an error result? (`result::ok` or `result::empty`) -/
def succeeded (r : StartRes) : Bool := r.res == .ok || r.res == .empty

/-- result mapping of `sqfvm_call` and the `abort` that follows a failed run -/
def finishRun (i : Inst) (r : StartRes) : Inst × Int :=
  if succeeded r then
    ({ i with rt := r.rt, state := r.state, delivered := i.delivered ++ deliverNew i i.rt.m.diags.length r.rt.m }, rcOk)
  else
    ({ i with rt := { ctxs := (abort r.rt.ctxs r.rt.m r.state).1, m := (abort r.rt.ctxs r.rt.m r.state).2.1 },
              state := (abort r.rt.ctxs r.rt.m r.state).2.2,
              delivered := i.delivered ++ deliverNew i i.rt.m.diags.length r.rt.m }, rcFailed)

/-- run a parsed script -/
def runScript (i : Inst) (prog : List Instr) (fuel : Nat) : Inst × Int := finishRun i (startOf i prog fuel)

/-- code of the parse-error diagnostic the SQF parser logs (error level) -/
def parseErrorDiag : DiagEntry := { code := 30001, level := 1 }

/-- the instance a call works on: the call data is stored first -/
def withCall (i : Inst) (cd : Nat) : Inst := { i with callData := cd }

/-- one error-level callback of the call (the failure the preprocessor or the parser reported) -/
def oneError (i : Inst) (cd : Nat) : Inst :=
  { withCall i cd with delivered := i.delivered ++ [{ level := 1, user := i.user, call := cd }] }

/-- `'p'`: the preprocessed text is handed to the callback with severity -1 -/
def preOnly (i : Inst) (cd : Nat) : Inst :=
  { withCall i cd with delivered := i.delivered ++ [{ level := -1, user := i.user, call := cd }] }

/-- the `switch (type)` of `sqfvm_call` on the preprocessed text -/
def callBody (env : Env) (i : Inst) (cd ty : Nat) (text : List B) (fuel : Nat) : Inst × Int :=
  if ty = 115 then          -- 's'
    match env.parse text with
    | none => (oneError i cd, rcParse)
    | some prog => runScript (withCall i cd) prog fuel
  else if ty = 112 then     -- 'p'
    (preOnly i cd, rcOk)
  else if ty = 49 then      -- '1': parse only (SQC support is not compiled in)
    match env.parse text with
    | none => (oneError i cd, rcParse)
    | some _ => (withCall i cd, rcOk)
  else if ty = 97 then      -- 'a': assembly text, executed like a parsed SQF text
    match env.parseAsm text with
    | none => (oneError i cd, rcParse)
    | some prog => runScript (withCall i cd) prog fuel
  else (withCall i cd, rcType)

/-- `sqfvm_call(instance, call_data, type, code, length)` -/
def call (env : Env) (i : Inst) (callData : Nat) (ty : Nat) (code : List B) (fuel : Nat := 1000000) : Inst × Int :=
  if i.valid = false then (i, rcInvalidInstance)
  else if i.state ≠ .empty then (i, rcRunning)
  else
    match env.pp code with
    | none => (oneError i callData, rcPreprocess)
    | some text => callBody env i callData ty text fuel

/-- `sqfvm_load_config(instance, contents, length)`; diagnostics carry no call data -/
def loadConfig (env : Env) (i : Inst) (text : List B) : Inst × Int :=
  if !i.valid then (i, rcInvalidInstance)
  else
    let i1 := { i with callData := 0 }
    match env.pp text with
    | none => ({ i1 with delivered := i1.delivered ++ [{ level := 1, user := i1.user, call := 0 }] }, rcPreprocess)
    | some t =>
      match env.parseCfg t with
      | none => ({ i1 with delivered := i1.delivered ++ [{ level := 1, user := i1.user, call := 0 }] }, rcParse)
      | some ast =>
        let r := Cfg.load i1.cfg ast
        ({ i1 with cfg := r.1,
                   delivered := i1.delivered ++ (r.2.map (fun c => { level := (Cfg.levelOf c : Int), user := i1.user, call := 0 })) }, rcOk)

/-- `sqfvm_status(instance)` -/
def status (i : Inst) : Int := if i.valid then stateCode i.state else -1

/-- `sqfvm_destroy_instance(instance)` -/
def destroy (i : Inst) : Inst := { i with valid := false }

end Sqf.Api
