import SqfModel.Render
/-!
# `str`: values as SQF source text

Model of `d_*::to_string_sqf` (`src/runtime/d_*.h`, `d_scalar.cpp`) and of
`instruction::reconstruct` (`src/opcodes/*.h`), the decompiler behind `str` of code.
-/
namespace Sqf

mutual
/-- `value::to_string_sqf()` -/
def strVal (h : List (List Val)) : Nat → Val → List B
  | 0, _ => []
  | f + 1, v =>
    match v with
    | .nil => n!"nil"
    | .num d => fmtG d
    | .nan => n!"nan"
    | .bool b => if b then n!"true" else n!"false"
    | .str s => renderStr s
    | .ref id => [91] ++ joinWith [44] ((h.getD id []).map (strVal h f)) ++ [93]
    | .code is => strCode h f is
    | _ => n!"?"
/-- `d_code::to_string_sqf()`: statements are reconstructed from the last instruction backwards -/
def strCode (h : List (List Val)) : Nat → List Instr → List B
  | 0, _ => []
  | f + 1, is =>
    match reconAll h f f is.reverse [] with
    | none => []
    | some strs =>
      n!"{ " ++ joinWith (n!"; ") strs ++ n!" }"
/-- all statements of a reversed instruction list; empty reconstructions (`endStatement`) are skipped;
    results are accumulated in program order -/
def reconAll (h : List (List Val)) : Nat → Nat → List Instr → List (List B) → Option (List (List B))
  | 0, _, _, _ => none
  | _ + 1, _, [], acc => some acc
  | g + 1, f, rs, acc =>
    match recon h f rs 0 false with
    | none => none
    | some (t, rest) => reconAll h g f rest (if t.isEmpty then acc else t :: acc)
/-- `instruction::reconstruct`: consumes the instruction at the head of the reversed list together
    with its operands; returns the text and the remaining (earlier) instructions -/
def recon (h : List (List Val)) : Nat → List Instr → Nat → Bool → Option (List B × List Instr)
  | 0, _, _, _ => none
  | _ + 1, [], _, _ => none
  | f + 1, i :: rest, parent, left =>
    match i with
    | .push v => some (strVal h f v, rest)
    | .callNular n => some (n, rest)
    | .getVariable n => some (n, rest)
    | .endStatement => some ([], rest)
    | .callUnary n =>
      match recon h f rest 10 false with
      | some (e, r) => some (n ++ [32] ++ e, r)
      | none => none
    | .assignTo n =>
      match recon h f rest 10 false with
      | some (e, r) => some (n ++ n!" = " ++ e, r)
      | none => none
    | .assignToLocal n =>
      match recon h f rest 10 false with
      | some (e, r) => some (n!"private " ++ n ++ n!" = " ++ e, r)
      | none => none
    | .callBinary n prec =>
      match recon h f rest prec false with
      | none => none
      | some (re, r1) =>
        match recon h f r1 prec true with
        | none => none
        | some (le, r2) =>
          let body := le ++ [32] ++ n ++ [32] ++ re
          if (if left then decide (parent > prec) else decide (parent ≥ prec)) then some ([40] ++ body ++ [41], r2)
          else some (body, r2)
    | .makeArray k =>
      match reconElems h f k rest [] with
      | none => none
      | some (es, r) => some ([91] ++ joinWith (n!", ") es ++ [93], r)
/-- the `k` elements of an array literal, last element first in the reversed list -/
def reconElems (h : List (List Val)) : Nat → Nat → List Instr → List (List B) → Option (List (List B) × List Instr)
  | 0, _, _, _ => none
  | _ + 1, 0, rs, acc => some (acc, rs)
  | f + 1, k + 1, rs, acc =>
    match recon h f rs 0 false with
    | none => none
    | some (e, r) => reconElems h f k r (e :: acc)
end

end Sqf
