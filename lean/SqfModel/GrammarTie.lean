import SqfModel.LRFront
import SqfModel.Canon.SqfGrammar
import SqfModel.Canon.CfgGrammar
/-!
# Obligations over the translated grammars (regenerated from `parser.tab.cc` on every run)

Two kinds of statements, all decided by kernel evaluation over the *generated* data, so that they are re-checked
against what the grammar files say now:

* `…_canonical`: the LALR tables, the semantic actions, the symbol names and the `astkind` numbering of the current
  tree are the ones the hand-written parser models were validated against (committed snapshot `Canon/`).  A change
  of the grammar, of an action or of the numbering makes the theorem stop type-checking; the check then searches for
  an input on which the implementation and the model disagree.
* `yylex_…`: the token classification the model uses (`classify`, `toPTok` of `Parse.lean`, about which
  parse ∘ print = id is proved) is the one the `yylex` of the current tree implements: for every combination of
  (binary, unary, nular) and every precedence 1 … 10 the same token class, for every tokenizer kind the same token,
  and the same fall-back for names that are not registered.
-/
namespace Sqf.GrammarTie
open Sqf Sqf.LR

/-! ## the SQF grammar -/

section sqf
open Sqf.Generated.SqfGrammar

theorem sqf_tables_canonical :
    complete = true ∧ yypact = Canon.SqfGrammar.yypact ∧ yydefact = Canon.SqfGrammar.yydefact ∧
    yypgoto = Canon.SqfGrammar.yypgoto ∧ yydefgoto = Canon.SqfGrammar.yydefgoto ∧ yytable = Canon.SqfGrammar.yytable ∧
    yycheck = Canon.SqfGrammar.yycheck ∧ yyr1 = Canon.SqfGrammar.yyr1 ∧ yyr2 = Canon.SqfGrammar.yyr2 ∧
    yypact_ninf = Canon.SqfGrammar.yypact_ninf ∧ yytable_ninf = Canon.SqfGrammar.yytable_ninf ∧
    yylast = Canon.SqfGrammar.yylast ∧ yyfinal = Canon.SqfGrammar.yyfinal ∧ yyntokens = Canon.SqfGrammar.yyntokens := by
  decide +kernel

/-- the semantic action of every rule (which children are appended, in which order, under which kind and token) -/
theorem sqf_actions_canonical : acts = Canon.SqfGrammar.acts := by decide +kernel

theorem sqf_names_canonical : tnames = Canon.SqfGrammar.tnames ∧ kinds = Canon.SqfGrammar.kinds := by
  decide +kernel

/-- token constructor (`parser::make_…`) of a parser token of the model -/
def makeName : PTok → String
  | .eof => "END_OF_FILE" | .invalid => "INVALID"
  | .tTrue => "TRUE" | .tFalse => "FALSE" | .tPrivate => "PRIVATE"
  | .curlyO => "CURLYO" | .curlyC => "CURLYC" | .roundO => "ROUNDO" | .roundC => "ROUNDC"
  | .squareO => "SQUAREO" | .squareC => "SQUAREC" | .semicolon => "SEMICOLON" | .comma => "COMMA" | .equal => "EQUAL"
  | .op cls lvl _ =>
    let c := match cls with | .b => "B" | .bu => "BU" | .bn => "BN" | .bun => "BUN"
    "OPERATOR_" ++ c ++ "_" ++ toString (lvl - 1)
  | .opU _ => "OPERATOR_U" | .opN _ => "OPERATOR_N" | .opUN _ => "OPERATOR_UN"
  | .ident _ => "IDENT" | .number _ => "NUMBER" | .hexnumber _ => "HEXNUMBER" | .string _ => "STRING"

/-- the model's classification for a name registered with the given classes -/
def modelClass (b u n : Bool) (prec : Nat) (isIdent : Bool) : String :=
  makeName (classify (fun _ => { nular := n, unary := u, binary := if b then some prec else none }) isIdent [120])

/-- every entry of the `yylex` class switch is what the model's `classify` computes -/
theorem yylex_class_agrees :
    yylexClass.all (fun e => modelClass e.1 e.2.1 e.2.2.1 e.2.2.2.1 true == e.2.2.2.2) = true := by decide +kernel

/-- the switch covers every class at every precedence 1 … 10 and the three operator classes without a binary
    signature: nothing the model classifies as an operator falls through to the fall-back in `yylex` -/
theorem yylex_class_complete :
    ([1, 2, 3, 4, 5, 6, 7, 8, 9, 10].all (fun p => [(false, false), (false, true), (true, false), (true, true)].all (fun un =>
      yylexClass.any (fun e => e.1 == true && e.2.1 == un.1 && e.2.2.1 == un.2 && e.2.2.2.1 == p)))) = true ∧
    ([(false, true), (true, false), (true, true)].all (fun un =>
      yylexClass.any (fun e => e.1 == false && e.2.1 == un.1 && e.2.2.1 == un.2))) = true ∧ yylexClass.length = 43 := by
  decide +kernel

/-- a name that is not registered: identifier → IDENT, operator characters → INVALID, in `yylex` as in the model -/
theorem yylex_fallback_agrees :
    yylexFallback = (modelClass false false false 0 true, modelClass false false false 0 false) ∧
    yylexDefault = "INVALID" := by decide +kernel

def tkOfName : String → Option TK
  | "eof" => some .eof | "invalid" => some .invalid | "m_line" => some .mLine | "i_comment_line" => some .commentLine
  | "i_comment_block" => some .commentBlock | "i_whitespace" => some .whitespace | "t_false" => some .tFalse
  | "t_private" => some .tPrivate | "t_true" => some .tTrue | "s_curlyo" => some .curlyO | "s_curlyc" => some .curlyC
  | "s_roundo" => some .roundO | "s_roundc" => some .roundC | "s_edgeo" => some .edgeO | "s_edgec" => some .edgeC
  | "s_semicolon" => some .semicolon | "s_comma" => some .comma | "t_string_double" => some .stringDouble
  | "t_string_single" => some .stringSingle | "t_number" => some .number | "t_hexadecimal" => some .hexadecimal
  | "s_equal" => some .equal
  | _ => none

/-- what the model's `toPTok` does with a token of a kind that is not looked up in the registry -/
def modelSimple (k : TK) : String :=
  match toPTok (fun _ => { nular := false, unary := false, binary := none })
      { kind := k, text := [120], line := 0, col := 0, off := 0, file := [] } with
  | none => "SKIP"
  | some p => makeName p

/-- every `case tokenizer::etoken::… : return parser::make_…` of `yylex` is what the model's `toPTok` does, and
    every tokenizer kind other than operator/identifier has its case -/
theorem yylex_simple_agrees :
    yylexSimple.all (fun e => match tkOfName e.1 with | some k => modelSimple k == e.2 | none => false) = true ∧
    yylexSimple.length = 22 := by decide +kernel

end sqf

/-! ## the config grammar -/

section cfg
open Sqf.Generated.CfgGrammar

theorem cfg_tables_canonical :
    complete = true ∧ yypact = Canon.CfgGrammar.yypact ∧ yydefact = Canon.CfgGrammar.yydefact ∧
    yypgoto = Canon.CfgGrammar.yypgoto ∧ yydefgoto = Canon.CfgGrammar.yydefgoto ∧ yytable = Canon.CfgGrammar.yytable ∧
    yycheck = Canon.CfgGrammar.yycheck ∧ yyr1 = Canon.CfgGrammar.yyr1 ∧ yyr2 = Canon.CfgGrammar.yyr2 ∧
    yypact_ninf = Canon.CfgGrammar.yypact_ninf ∧ yytable_ninf = Canon.CfgGrammar.yytable_ninf ∧
    yylast = Canon.CfgGrammar.yylast ∧ yyfinal = Canon.CfgGrammar.yyfinal ∧ yyntokens = Canon.CfgGrammar.yyntokens := by
  decide +kernel

theorem cfg_actions_canonical : acts = Canon.CfgGrammar.acts := by decide +kernel

theorem cfg_names_canonical : tnames = Canon.CfgGrammar.tnames ∧ kinds = Canon.CfgGrammar.kinds := by
  decide +kernel

def cfgMakeName : CfgText.CK → String
  | .eof => "END_OF_FILE" | .invalid => "INVALID"
  | .mLine | .commentLine | .commentBlock | .whitespace => "SKIP"
  | .tClass => "CLASS" | .tDelete => "DELETE"
  | .curlyO => "CURLYO" | .curlyC => "CURLYC" | .edgeO => "SQUAREO" | .edgeC => "SQUAREC"
  | .colon => "COLON" | .semicolon => "SEMICOLON" | .comma => "COMMA" | .plusEqual => "PLUSEQUAL" | .equal => "EQUAL"
  | .strD => "STRING" | .strS => "STRING" | .ident => "IDENT" | .number => "NUMBER" | .hex => "HEXNUMBER"
  | .any => "ANY"

def ckOfName : String → Option CfgText.CK
  | "eof" => some .eof | "invalid" => some .invalid | "m_line" => some .mLine | "i_comment_line" => some .commentLine
  | "i_comment_block" => some .commentBlock | "i_whitespace" => some .whitespace | "t_class" => some .tClass
  | "t_delete" => some .tDelete | "s_curlyo" => some .curlyO | "s_curlyc" => some .curlyC | "s_edgeo" => some .edgeO
  | "s_edgec" => some .edgeC | "s_colon" => some .colon | "s_semicolon" => some .semicolon | "s_comma" => some .comma
  | "t_ident" => some .ident | "t_string_double" => some .strD | "t_string_single" => some .strS
  | "t_number" => some .number | "t_hexadecimal" => some .hex | "t_plus_equal" => some .plusEqual
  | "s_equal" => some .equal | "any" => some .any
  | _ => none

/-- the config `yylex` hands every tokenizer kind to the grammar as the token the model gives it (trivia skipped) -/
theorem cfg_yylex_agrees :
    yylexSimple.all (fun e => match ckOfName e.1 with | some k => cfgMakeName k == e.2 | none => false) = true ∧
    yylexSimple.length = 23 ∧ yylexDefault = "ANY" := by decide +kernel

end cfg

end Sqf.GrammarTie
