import SqfModel.Parse
import SqfModel.Value
/-!
# Model of `sqf::parser::sqf::parser::to_assembly` (`src/parser/sqf/sqf_parser.cpp`)
-/
namespace Sqf

/-- `std::stod` on a `t_number` token (digits, optional fraction, optional exponent; a dangling
    `e` is ignored exactly as `stod` stops at the longest valid prefix). -/
def decOfNumberText (t : Name) : Dec :=
  let ip := t.takeWhile isDigit
  let r1 := t.drop ip.length
  let fp := match r1 with | 46 :: r => r.takeWhile isDigit | _ => []
  let r2 := match r1 with | 46 :: r => r.drop fp.length | _ => r1
  let ex : Int := match r2 with
    | e :: r =>
      if e == 101 || e == 69 then
        match r with
        | 43 :: ds => (natOfDigits (ds.takeWhile isDigit) : Int)
        | 45 :: ds => - (natOfDigits (ds.takeWhile isDigit) : Int)
        | ds => (natOfDigits (ds.takeWhile isDigit) : Int)
      else 0
    | [] => 0
  { neg := false, mant := natOfDigits (ip ++ fp), exp := ex - (fp.length : Int) }

/-- value pushed for a `NUMBER` token: NaN when `stod` reports out of range -/
def valOfNumberText (t : Name) : Val :=
  let d := decOfNumberText t
  -- |x| ≥ 1e309 or a non-zero |x| < 1e-324 make stod throw std::out_of_range
  let digits := (natDigits d.mant).length
  if d.mant != 0 && (decide ((digits : Int) + d.exp > 309) || decide ((digits : Int) + d.exp < -323)) then .nan
  else .num d

/-- value pushed for a `HEXNUMBER` token (`$ff`, `0xff`); `stol` overflow gives NaN -/
def valOfHexText (t : Name) : Val :=
  let ds := match t with
    | 36 :: r => r
    | _ :: _ :: r => r
    | _ => []
  let n := natOfHex ds
  if decide (n ≥ 2 ^ 63) then .nan else .num (Dec.ofNat n)

/-- `d_string::from_sqf`: strip the first and the last character, collapse doubled quotes. -/
def unquoteBody (q : B) : List B → List B
  | [] => []
  | [_] => []                                   -- the last character is dropped, whatever it is
  | c :: rest@(c' :: cs) =>
    if c == q && c' == q then
      -- `i++` skips the second quote; if that was the last character the loop ends
      q :: unquoteBody q cs
    else c :: unquoteBody q rest

def fromSqf (t : Name) : List B :=
  match t with
  | [] => []
  | q :: r => if q == 34 || q == 39 then unquoteBody q r else []

def isIdentName (n : Name) : Bool :=
  match n with
  | [] => false
  | c :: _ => (isAlpha c || c == 95) && n.all isIdentChar

def valOfLeaf : Leaf → Option Val
  | .str t => some (.str (fromSqf t))
  | .num t => some (valOfNumberText t)
  | .hex t => some (valOfHexText t)
  | .tru => some (.bool true)
  | .fls => some (.bool false)
  | _ => none

def isSign (n : Name) : Bool := n == [43] || n == [45]

def negateVal : Val → Val
  | .num d => .num d.negate
  | v => v

mutual
/-- `to_assembly` for one node. -/
def compile : Ast → List Instr
  | .leaf (.str t) => [.push (.str (fromSqf t))]
  | .leaf (.num t) => [.push (valOfNumberText t)]
  | .leaf (.hex t) => [.push (valOfHexText t)]
  | .leaf .tru => [.push (.bool true)]
  | .leaf .fls => [.push (.bool false)]
  | .leaf (.ident n) => [.getVariable n]
  | .leaf (.nular n) => [.callNular (lower n)]
  | .unary n (.leaf (.num t)) =>
    -- a sign in front of a NUMBER literal is folded into the literal
    if n == [45] then [.push (negateVal (valOfNumberText t))]
    else if n == [43] then [.push (valOfNumberText t)]
    else [.push (valOfNumberText t), .callUnary (lower n)]
  | .unary n (.leaf (.hex t)) =>
    -- … and so is a sign in front of a hexadecimal literal
    if n == [45] then [.push (negateVal (valOfHexText t))]
    else if n == [43] then [.push (valOfHexText t)]
    else [.push (valOfHexText t), .callUnary (lower n)]
  | .unary n (.unary m a) =>
    -- a sign in front of a literal that already carries a sign ("- + 279") is folded as well: the operand is no
    -- NUMBER node, but a sign whose operand compiled to the push of one scalar
    if isSign n && isSign m then
      match compile (.unary m a) with
      | [.push (.num d)] => if n == [45] then [.push (.num d.negate)] else [.push (.num d)]
      | [.push .nan] => [.push .nan]
      | is => is ++ [.callUnary (lower n)]
    else compile (.unary m a) ++ [.callUnary (lower n)]
  | .unary n a => compile a ++ [.callUnary (lower n)]
  | .binary k n l r => compile l ++ compile r ++ [.callBinary (lower n) k]
  | .array es => compileList es ++ [.makeArray es.length]
  | .code ss => [.push (.code (compileStmts ss))]
  | .assign lhs e =>
    compile e ++ [.assignTo (match lhs with
      | .leaf (.ident n) => n
      | .leaf (.nular n) => if isIdentName n then n else []
      | _ => [])]
  | .assignLocal n e => compile e ++ [.assignToLocal n]
/-- array elements, left to right -/
def compileList : List Ast → List Instr
  | [] => []
  | a :: as => compile a ++ compileList as
/-- statements with an `endStatement` between consecutive ones -/
def compileStmts : List Ast → List Instr
  | [] => []
  | [s] => compile s
  | s :: rest@(_ :: _) => compile s ++ [.endStatement] ++ compileStmts rest
end

/-- text → instruction list (`parser::parse`) -/
def assemble (reg : Registry) (s : List B) : Option (List Instr) :=
  (parse reg s).map compileStmts

end Sqf
