import SqfModel.Lemmas.StackInv
/-!
# C05 — the operand stack is partitioned per scope; a scope yields exactly one value

All statements are about the VM model (`SqfModel/VM`), for every program, every machine state
satisfying the invariant and every fuel: nothing bounds sizes, depths or the number of steps.
-/
namespace Sqf.Props.C05
open Sqf Sqf.VM

/-- the region of the current frame is empty -/
def RegionEmpty (c : Ctx) : Prop := c.vals.length = c.base

/-! ## 1. The partition invariant holds at every instruction boundary of every execution -/

/-- one `assembly_step` (any number of frame completions, behaviour enactments, one instruction,
error unwinding) preserves the partition invariant -/
theorem C05_inv_step (fuel : Nat) (m : M) (h : m.Inv) : (step fuel m).1.Inv := inv_step fuel h

/-- … hence every state of every execution of every program satisfies it -/
theorem C05_inv_reachable (prog : List Instr) (n : Nat) : (runSteps n (load prog)).1.Inv :=
  inv_runSteps n (inv_load prog)

/-- every operator — whatever it computes — reaches the stacks only through `applyEff`, and no effect
can break the invariant (`breakOut`, `throw`, `exitWith`, frame-pushing constructs included) -/
theorem C05_operator_confined (m0 : M) (res : OpRes) (h : m0.Inv) : (finishOp m0 res).Inv :=
  inv_finishOp res h

/-- the effects that do not leave a scope do not touch a single operand -/
theorem C05_nonleaving_effects_keep_operands (m : M) (e : Eff)
    (he : match e with | .pushFrame _ | .setTop _ | .setFrames _ => True | _ => False) :
    (applyEff e m).ctx.vals = m.ctx.vals := by
  cases e with
  | pushFrame f => rfl
  | setTop f =>
    simp only [applyEff]
    split
    · simp only [Ctx.setTop]; split <;> rfl
    · rfl
  | setFrames fs => rfl
  | popClear => exact he.elim
  | popClearN k => exact he.elim
  | throwTo idx v => exact he.elim
  | suspend ms => exact he.elim
  | terminateSelf => exact he.elim

/-! ## 2. A finished block contributes exactly one value to its caller -/

/-- frame completion: the caller's operands below the finished frame's base are untouched and exactly
one value is added — the last value of the block's region, or nil when it left none -/
theorem C05_block_yields_one (c : Ctx) (f g : Frame) (rest : List Frame) (hf : c.frames = f :: g :: rest) :
    ∃ v, c.complete.vals = c.vals.take f.base ++ [v] ∧ c.complete.frames = g :: rest ∧
      (c.vals.length ≤ f.base → v = .nil) ∧
      (f.base < c.vals.length → c.vals.getLast? = some v) := by
  by_cases hle : c.vals.length ≤ f.base
  · refine ⟨.nil, ?_, ?_, fun _ => rfl, fun hlt => by omega⟩
    · simp [Ctx.complete, hf, hle]
    · simp [Ctx.complete, hf]
  · have hlt : f.base < c.vals.length := by omega
    cases hl : c.vals.getLast? with
    | none =>
      have : c.vals = [] := by simpa using hl
      simp [this] at hlt
    | some v =>
      refine ⟨v, ?_, ?_, fun h' => by omega, fun _ => rfl⟩
      · simp [Ctx.complete, hf, hle, hl]
      · simp [Ctx.complete, hf]

/-- leaving `k+1` scopes with `breakOut` removes exactly their regions: what remains is the stack up
to the base of the outermost scope left, and the value handed to `breakOut` is pushed on top of it -/
theorem C05_breakout_removes_whole_regions (c : Ctx) (h : c.Inv) :
    ∀ k (f : Frame), c.frames[k]? = some f →
      (popClearN (k + 1) c).vals = c.vals.take f.base ∧ (popClearN (k + 1) c).frames = c.frames.drop (k + 1) := by
  intro k
  induction k generalizing c with
  | zero =>
    intro f hf
    cases hfs : c.frames with
    | nil => simp [hfs] at hf
    | cons t r =>
      simp [hfs] at hf; subst hf
      simp [popClearN, popClear, Ctx.clearV, Ctx.popF, hfs]
  | succ k ih =>
    intro f hf
    cases hfs : c.frames with
    | nil => simp [hfs] at hf
    | cons t r =>
      rw [hfs] at hf
      simp only [List.getElem?_cons_succ] at hf
      have hinv := Ctx.inv_popClear h
      have hfr : (popClear c).frames = r := by simp [popClear, Ctx.clearV, Ctx.popF, hfs]
      have hv : (popClear c).vals = c.vals.take t.base := by simp [popClear, Ctx.clearV, Ctx.popF, hfs]
      have := ih (popClear c) hinv f (by rw [hfr]; exact hf)
      rw [popClearN]
      refine ⟨?_, ?_⟩
      · rw [this.1, hv, List.take_take]
        -- the deeper frame's base does not exceed the base of the frame above it
        have hp := h.2; rw [hfs, List.pairwise_cons] at hp
        have hm : f ∈ r := List.mem_of_getElem? hf
        have : f.base ≤ t.base := hp.1 f hm
        rw [Nat.min_eq_left this]
      · rw [this.2, hfr]; simp

/-! ## 3. After a statement separator nothing of the finished statement remains -/

theorem C05_statement_leaves_nothing (m : M) (h : m.Inv) (hne : m.ctx.frames ≠ []) :
    RegionEmpty (execInstr .endStatement m).ctx := by
  unfold RegionEmpty
  cases hfs : m.ctx.frames with
  | nil => exact absurd hfs hne
  | cons t r =>
    have hb : t.base ≤ m.ctx.vals.length := h.1 t (by simp [hfs])
    simp [execInstr, M.clearV, Ctx.clearV, Ctx.base, hfs, List.length_take, Nat.min_eq_left hb]

/-! ## 4. Iteration restarts begin with an empty region: loops do not accumulate operands -/

/-- whenever a behaviour asks for a restart of its frame (`seek_start`), the frame's region is empty
when the next iteration begins -/
theorem C05_restart_clean (res : NextRes) (e : M × Beh × BRes × Bool) (h : e.1.Inv)
    (hr : e.2.2.1 = .seekStart) (ht : e.2.2.2 = false) (hne : e.1.ctx.frames ≠ []) :
    (settle res e).2 = none ∧ RegionEmpty (settle res e).1.ctx := by
  unfold settle
  simp only [ht, Bool.false_eq_true, if_false]
  cases hfs : e.1.ctx.frames with
  | nil => exact absurd hfs hne
  | cons t r =>
    have htop : e.1.top? = some t := by simp [M.top?, Ctx.top?, hfs]
    simp only [htop, hr]
    refine ⟨trivial, ?_⟩
    have hb : t.base ≤ e.1.ctx.vals.length := h.1 t (by simp [hfs])
    simp [RegionEmpty, M.clearV, M.setTop, Ctx.clearV, Ctx.setTop, Ctx.base, hfs, List.length_take, Nat.min_eq_left hb]

/-- the `while` behaviour clears its frame's region both when it switches from the condition to the
body and when it switches back -/
theorem C05_while_exchange_clean (inCode : Bool) (loops : Nat) (cond code : List Instr) (res : Option Val) (m : M)
    (x : List Instr) (hx : (behDecide (.whileB inCode loops cond code) res m).2.2.1 = .exchange x) :
    (behDecide (.whileB inCode loops cond code) res m).1 = [.clearV, .setVars []] := by
  unfold behDecide at hx ⊢
  cases inCode <;> simp only [Bool.not_false, Bool.not_true, if_true, if_false, Bool.false_eq_true] at hx ⊢ <;>
    (repeat' split) <;> simp_all

/-! ## Non-vacuity -/

/-- a reachable, non-trivial state: two frames, pending operands in the lower one -/
def sampleCtx : Ctx :=
  { frames := [{ code := [], base := 2 }, { code := [], base := 0 }], vals := [.bool true, .nil, .bool false] }

example : sampleCtx.Inv := by
  unfold Ctx.Inv sampleCtx
  simp

example : ∃ v, sampleCtx.complete.vals = [.bool true, .nil] ++ [v] := ⟨.bool false, rfl⟩

end Sqf.Props.C05
