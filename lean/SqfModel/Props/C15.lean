import SqfModel.Lemmas.ConfigInv
import SqfModel.Lemmas.CfgRound
import SqfModel.GrammarTie
/-!
# C15 — config tree: values read back, inheritance lookup, merge/delete/append, acyclic

The theorems are about the model of `confighost.h` / `apply_to_confighost` / the config operators in
`SqfModel/Config.lean` and about the model of the config tokenizer and grammar in `SqfModel/CfgText.lean`
(section 7: a config text is read as the tree it denotes); the correspondence check (`vlib/props/c15.py`) ties both
models to the implementation on generated config texts and queries.
-/
set_option linter.unusedSimpArgs false
set_option linter.unusedVariables false
namespace Sqf.Props.C15
open Sqf Sqf.Cfg

/-! ## 1. Every reachable table is well formed and acyclic -/

/-- the table after loading a sequence of config texts (their ASTs) into a fresh host -/
def loadAll (asts : List (List Node)) : Host := asts.foldl (fun h a => (load h a).1) {}

theorem foldl_load_inv (asts : List (List Node)) : ∀ h, Cfg.Inv h → Cfg.Inv (asts.foldl (fun h a => (load h a).1) h) := by
  induction asts with
  | nil => intro h hi; exact hi
  | cons a rest ih => intro h hi; exact ih _ (inv_load h a hi)

/-- **No sequence of config loads can make the inheritance relation cyclic** (nor leave a dangling id):
whatever texts are loaded in whatever order, every id stored in the table is valid, the chain of
inherited parents of every container ends, and logical parents have smaller ids. -/
theorem C15_reachable_inv (asts : List (List Node)) : Cfg.Inv (loadAll asts) :=
  foldl_load_inv asts {} inv_init

/-- the chain of inherited parents ends for every container of every reachable table -/
theorem C15_acyclic (asts : List (List Node)) (i : Nat) : InhEnds (loadAll asts) (some i) :=
  (C15_reachable_inv asts).acyclic i

/-- in particular `class A {}; class A : A {};` does not make `A` its own base -/
example : ((loadAll [[.cls n!"A" [], .clsExt n!"A" n!"A" []]]).get 1).inherited = none := by decide
/-- … and neither does the two-step loop `class A {}; class B : A {}; class A : B {};` -/
example : ((loadAll [[.cls n!"A" [], .clsExt n!"B" n!"A" [], .clsExt n!"A" n!"B" []]]).get 1).inherited = none ∧
    ((loadAll [[.cls n!"A" [], .clsExt n!"B" n!"A" [], .clsExt n!"A" n!"B" []]]).get 2).inherited = some 1 := by decide

/-! ## 2. Every lookup terminates -/

/-- more fuel never changes an answer -/
theorem lookupInh_mono (h : Host) : ∀ (f : Nat) (o : Option Nat) (t : List B) (r : Option Nat),
    lookupInh h f o t = some r → ∀ g, f ≤ g → lookupInh h g o t = some r := by
  intro f
  induction f with
  | zero => intro o t r hl; simp [lookupInh] at hl
  | succ f ih =>
    intro o t r hl g hg
    obtain ⟨g', rfl⟩ : ∃ g', g = g' + 1 := ⟨g - 1, by omega⟩
    cases o with
    | none => simpa [lookupInh] using hl
    | some i =>
      rw [lookupInh] at hl ⊢
      split
      · next r' hf => rw [hf] at hl; exact hl
      · next hf => rw [hf] at hl; exact ih _ t r hl g' (by omega)

/-- **`lookup_in_inherited` ends**: on a chain that ends, some number of loop iterations suffices, and
the answer is the same for every larger bound -/
theorem lookupInh_terminates (h : Host) (t : List B) (o : Option Nat) (he : InhEnds h o) :
    ∃ f r, ∀ g, f ≤ g → lookupInh h g o t = some r := by
  induction he with
  | none => exact ⟨1, none, fun g hg => by obtain ⟨g', rfl⟩ : ∃ g', g = g' + 1 := ⟨g - 1, by omega⟩; rfl⟩
  | step i _ ih =>
    obtain ⟨f, r, hfr⟩ := ih
    cases hf : findKey (h.get i).map t with
    | some r' =>
      exact ⟨1, r', fun g hg => by
        obtain ⟨g', rfl⟩ : ∃ g', g = g' + 1 := ⟨g - 1, by omega⟩
        rw [lookupInh, hf]⟩
    | none =>
      exact ⟨f + 1, r, fun g hg => by
        obtain ⟨g', rfl⟩ : ∃ g', g = g' + 1 := ⟨g - 1, by omega⟩
        rw [lookupInh, hf]
        exact hfr g' (by omega)⟩

/-- **Every `>>` lookup terminates**, in every table reachable by loading config texts, for every start
container and every name, existing or not -/
theorem C15_lookup_terminates (asts : List (List Node)) (i : Nat) (t : List B) :
    ∃ f r, ∀ g, f ≤ g → lookupInh (loadAll asts) g (some i) t = some r :=
  lookupInh_terminates _ t _ (C15_acyclic asts i)

/-- `lookup_in_logical` (used to resolve base-class names) ends within `i + 2` iterations from
container `i`, because logical parents have smaller ids; the executable model's fuel `size + 2` is
therefore always enough -/
theorem lookupLog_fuel (h : Host) (hi : Cfg.Inv h) (t : List B) :
    ∀ (n i : Nat), i < n → ∃ r, lookupLog h (n + 1) (some i) t = some r := by
  intro n
  induction n with
  | zero => intro i hlt; omega
  | succ n ih =>
    intro i hlt
    rw [lookupLog]
    split
    · next r hf => exact ⟨r, rfl⟩
    · next hf =>
      cases hl : (h.get i).logical with
      | none => exact ⟨none, by cases n <;> rfl⟩
      | some j =>
        have hj : j < i := hi.logDown i j hl
        exact ih j (by omega)

theorem C15_base_lookup_terminates (asts : List (List Node)) (idx : Nat) (hidx : idx < (loadAll asts).size) (t : List B) :
    ∃ r, lookupLog (loadAll asts) (loadAll asts).fuel (some idx) t = some r := by
  have := lookupLog_fuel (loadAll asts) (C15_reachable_inv asts) t ((loadAll asts).size + 1) idx (by omega)
  simpa [Host.fuel] using this

/-- the walk of `configHierarchy` ends as well: logical parents decrease -/
theorem hierarchy_fuel (h : Host) (hi : Cfg.Inv h) :
    ∀ (n i : Nat) (acc : List (List B)) (k : Nat), i < n → hierarchy h (n + 1 + k) (some i) acc = hierarchy h (n + 1) (some i) acc := by
  intro n
  induction n with
  | zero => intro i acc k hlt; omega
  | succ n ih =>
    intro i acc k hlt
    have e1 : n + 1 + 1 + k = (n + 1 + k) + 1 := by omega
    rw [e1, hierarchy, hierarchy]
    cases hl : (h.get i).logical with
    | none => cases n <;> cases k <;> simp [hierarchy]
    | some j =>
      have hj : j < i := hi.logDown i j hl
      exact ih j _ k (by omega)

/-! ## 3. What a lookup finds: the nearest definition along the inheritance chain -/

/-- the specification of `>>`: the entry `t` of a class is its own definition if it has one (a `delete`
counts as a definition of "nothing"), otherwise the entry of its base class; a null class has none -/
inductive Resolves (h : Host) (t : List B) : Option Nat → Option Nat → Prop
  | null : Resolves h t none none
  | own (i : Nat) (r : Option Nat) : findKey (h.get i).map t = some r → Resolves h t (some i) r
  | inherited (i : Nat) (r : Option Nat) : findKey (h.get i).map t = none →
      Resolves h t (h.get i).inherited r → Resolves h t (some i) r

/-- whatever `lookup_in_inherited` returns is what the specification says -/
theorem C15_lookup_sound (h : Host) (t : List B) : ∀ (f : Nat) (o : Option Nat) (r : Option Nat),
    lookupInh h f o t = some r → Resolves h t o r := by
  intro f
  induction f with
  | zero => intro o r hl; simp [lookupInh] at hl
  | succ f ih =>
    intro o r hl
    cases o with
    | none =>
      have : r = none := by simpa [lookupInh] using hl.symm
      subst this; exact Resolves.null
    | some i =>
      rw [lookupInh] at hl
      split at hl
      · next r' hf =>
        have : r' = r := by simpa using hl
        subst this; exact Resolves.own i r' hf
      · next hf => exact Resolves.inherited i r hf (ih _ r hl)

/-- the specification determines the answer -/
theorem Resolves.unique {h : Host} {t : List B} {o : Option Nat} {r1 r2 : Option Nat}
    (h1 : Resolves h t o r1) (h2 : Resolves h t o r2) : r1 = r2 := by
  induction h1 with
  | null => cases h2; rfl
  | own i r hf =>
    cases h2 with
    | own _ _ hf2 => rw [hf] at hf2; simpa using hf2
    | inherited _ _ hf2 _ => rw [hf] at hf2; cases hf2
  | inherited i r hf _ ih =>
    cases h2 with
    | own _ _ hf2 => rw [hf] at hf2; cases hf2
    | inherited _ _ _ hr2 => exact ih hr2

/-- … and on every reachable table the lookup computes it: **`>>` finds an entry exactly when it is
defined in the class or in an ancestor along its inheritance chain, the nearest definition winning** -/
theorem C15_lookup_complete (asts : List (List Node)) (i : Nat) (t : List B) (r : Option Nat)
    (hr : Resolves (loadAll asts) t (some i) r) :
    ∃ f, ∀ g, f ≤ g → lookupInh (loadAll asts) g (some i) t = some r := by
  obtain ⟨f, r', hfr⟩ := C15_lookup_terminates asts i t
  have := C15_lookup_sound _ t f _ r' (hfr f (Nat.le_refl _))
  have e : r = r' := hr.unique this
  subst e
  exact ⟨f, hfr⟩

/-- an own definition shadows every ancestor's -/
theorem C15_nearest_wins (h : Host) (f : Nat) (i : Nat) (t : List B) (r : Option Nat)
    (hown : findKey (h.get i).map t = some r) : lookupInh h (f + 1) (some i) t = some r := by
  rw [lookupInh, hown]

/-- without an own definition the base class decides -/
theorem C15_inherits (h : Host) (f : Nat) (i : Nat) (t : List B)
    (hown : findKey (h.get i).map t = none) :
    lookupInh h (f + 1) (some i) t = lookupInh h f (h.get i).inherited t := by
  rw [lookupInh, hown]

/-! ## 4. delete hides, re-opening merges, declaration order -/

/-- after `delete name;` in class `idx`, `name` resolves to nothing there — even if a base class defines
it — and the entry is no longer one of the class's own entries -/
theorem C15_delete_hides (h : Host) (idx : Nat) (t : List B) (f : Nat) (hidx : idx < h.size) :
    lookupInh (deleteEntry h idx t) (f + 1) (some idx) t = some none := by
  rw [lookupInh]
  unfold deleteEntry
  rw [get_set]
  simp only [hidx, and_self, if_true]
  rw [findKey_pushBack]
  simp

theorem C15_delete_not_own (h : Host) (idx : Nat) (t : List B) (old : Nat) (hidx : idx < h.size)
    (hf : findKey (h.get idx).map t = some (some old)) :
    old ∉ ((deleteEntry h idx t).get idx).vec := by
  unfold deleteEntry
  rw [get_set]
  simp only [hidx, and_self, if_true]
  unfold Cont.pushBack pushVec
  simp only [hf]
  intro hmem
  simp [List.mem_filter] at hmem

/-- other names are not affected by a delete -/
theorem C15_delete_others (h : Host) (idx : Nat) (t t' : List B) (hne : t' ≠ t) (hidx : idx < h.size) :
    findKey ((deleteEntry h idx t).get idx).map t' = findKey (h.get idx).map t' := by
  unfold deleteEntry
  rw [get_set]
  simp only [hidx, and_self, if_true]
  rw [findKey_pushBack]
  simp [hne]

/-- **re-opening a class merges**: `class X { … }` for an existing own entry `X` continues with the same
container and does not touch the table -/
theorem C15_reopen_same (h : Host) (idx : Nat) (t : List B) (e : Nat)
    (hf : findKey (h.get idx).map t = some (some e)) : appendOrReplace h idx t [] = (h, e) := by
  unfold appendOrReplace
  simp [hf]

/-- **declaration order**: a new entry is appended behind the existing own entries -/
theorem C15_new_entry_last (h : Host) (idx : Nat) (t inh : List B) (hidx : idx < h.size)
    (hf : findKey (h.get idx).map t = none) :
    ((appendOrReplace h idx t inh).1.get idx).vec = (h.get idx).vec ++ [h.size] ∧ (appendOrReplace h idx t inh).2 = h.size := by
  have e : appendOrReplace h idx t inh = (createIn h idx t (if inh.isEmpty then none else baseOf h idx inh), h.size) := by
    unfold appendOrReplace; simp only [hf]
  rw [e]
  refine ⟨?_, rfl⟩
  show ((createIn h idx t _).get idx).vec = _
  unfold createIn
  rw [get_set]
  have hlt : idx < ({ conts := h.conts ++ [{ name := t, logical := some idx, inherited := if inh.isEmpty then none else baseOf h idx inh }] } : Host).size := by
    rw [size_append]; omega
  simp only [hlt, and_self, if_true]
  rw [get_append_lt h _ idx hidx]
  unfold Cont.pushBack pushVec
  simp [hf]

/-- own entries keep their position when another entry is added -/
theorem C15_new_entry_keeps_others (h : Host) (idx : Nat) (t t' inh : List B) (hidx : idx < h.size) (hne : t' ≠ t)
    (hf : findKey (h.get idx).map t = none) :
    findKey ((appendOrReplace h idx t inh).1.get idx).map t' = findKey (h.get idx).map t' := by
  unfold appendOrReplace
  simp only [hf]
  unfold createIn
  rw [get_set]
  have hlt : idx < ({ conts := h.conts ++ [{ name := t, logical := some idx, inherited := if inh.isEmpty then none else baseOf h idx inh }] } : Host).size := by
    rw [size_append]; omega
  simp only [hlt, and_self, if_true]
  rw [get_append_lt h _ idx hidx, findKey_pushBack]
  simp [hne]

/-! ## 5. Values read back -/

/-- **a field reads back the value written**: after `name = value;` (or `name[] = {…};`) in class
`parent`, `parent >> name` is an entry holding exactly the denoted value -/
theorem C15_field_reads_back (h : Host) (parent : Nat) (n : List B) (v : Lit) (hi : Cfg.Inv h) (hp : parent < h.size) :
    ∃ id, lookupInh (applyField h parent n v) 1 (some parent) n = some (some id) ∧
      ((applyField h parent n v).get id).value = evalLit v := by
  have h0 := inv_appendOrReplace h parent n [] hi hp
  -- the entry is registered under its name in the parent
  have hreg : findKey ((appendOrReplace h parent n []).1.get parent).map n = some (some (appendOrReplace h parent n []).2) := by
    unfold appendOrReplace
    split
    · next existing hf => simpa using hf
    · next hnf =>
      show findKey ((createIn h parent n _).get parent).map n = some (some h.size)
      unfold createIn
      rw [get_set]
      have hlt : parent < ({ conts := h.conts ++ [{ name := n, logical := some parent, inherited := if ([] : List B).isEmpty then none else baseOf h parent [] }] } : Host).size := by
        rw [size_append]; omega
      simp only [hlt, and_self, if_true]
      rw [findKey_pushBack]
      simp
  refine ⟨(appendOrReplace h parent n []).2, ?_, ?_⟩
  · rw [lookupInh]
    unfold applyField
    simp only []
    rw [map_setValue, hreg]
  · unfold applyField
    simp only []
    exact value_setValue_self _ _ _ h0.2.1

/-- the literal forms: numbers, strings (quotes stripped, doubled quotes collapsed), bare text, arrays -/
example : evalLit (.arr [.dec n!"1", .str n!"\"te\"\"st\"", .arr [.dec n!"-2", .text n!"any text"]]) =
    .arr [.num (Dec.ofNat 1), .str n!"te\"st", .arr [.num (Dec.ofNat 2).negate, .str n!"any text"]] := by
  simp [evalLit, evalLits, numOfDecTok, valOfNumberText, decOfNumberText, fromSqf, unquoteBody, natDigits, natDigitsGo,
    Dec.ofNat, Dec.negate, natOfDigits, digitVal, isDigit]

/-! ## 6. Non-vacuity: a concrete tree with inheritance, delete and append -/

def sample : Host := loadAll
  [[.cls n!"A" [.field n!"x" (.dec n!"1"), .field n!"y" (.dec n!"2"), .fieldArr n!"arr" (.arr [.dec n!"1", .dec n!"2"])],
    .clsExt n!"B" n!"A" [.del n!"x", .field n!"z" (.dec n!"3"), .fieldArrAppend n!"arr" (.arr [.dec n!"3"])]]]

-- B >> y is A's y (container 3), B >> x is hidden, B >> z is own, B has two own entries (z, arr)
example : lookupInh sample sample.fuel (some 5) n!"y" = some (some 3) := by decide
example : lookupInh sample sample.fuel (some 5) n!"x" = some none := by decide
example : (sample.get 5).vec.length = 2 := by decide
example : (sample.get 5).inherited = some 1 := by decide

/-! ## 7. A config text is read as the tree it denotes (tokenizer and grammar, `CfgText.lean`)

`cfgText ns` is the canonical text of the statements `ns` (every token followed by one blank, every statement by
`;`, array elements separated by `,`).  For every tree — any number of classes, any nesting of classes and arrays —
whose names are identifiers and whose literals are numbers (sign, digits, fraction), hexadecimal numbers, quoted
strings (any bytes, quotes doubled) or single words, the tokenizer and the grammar deliver exactly `ns`; loading the
text is loading the tree, to which sections 1–5 apply.  Layouts other than the canonical one (arbitrary white space,
comments, unquoted multi-word values, numbers with exponents) are covered by the correspondence check only. -/

open Sqf.CfgText in
/-- **the text of a tree parses to that tree** -/
theorem C15_text_reads_back (ns : List Node) (hshape : shapeTop ns = true) (hok : nodesOk ns = true)
    (hdeep : tooDeep (toksTop ns) 0 = false) : parseText (cfgText ns) = some ns :=
  parseText_cfgText ns hshape hok hdeep

open Sqf.CfgText in
/-- **loading the text is loading the tree**: the host after `parser::parse` on the canonical text is the host
`apply_to_confighost` builds from the tree, with the same diagnostics -/
theorem C15_text_loads_tree (h : Host) (ns : List Node) (hshape : shapeTop ns = true) (hok : nodesOk ns = true)
    (hdeep : tooDeep (toksTop ns) 0 = false) :
    (parseText (cfgText ns)).map (load h) = some (load h ns) := by
  rw [C15_text_reads_back ns hshape hok hdeep]; rfl

open Sqf.CfgText in
/-- the tokens of the text are the tokens it was written from: nothing is merged, split or lost by the tokenizer -/
theorem C15_text_tokens (ns : List Node) (hok : nodesOk ns = true) : tokens (cfgText ns) = toksTop ns :=
  tokens_render (toksBody ns) (nodesOk_lexable ns hok)

open Sqf.CfgText in
/-- the grammar alone: the tokens of a tree are read back as the tree for every fuel that covers its size -/
theorem C15_grammar_reads_back (ns : List Node) (hshape : shapeTop ns = true) (f : Nat) (hf : sizeNodes ns ≤ f) :
    pTop f (toksTop ns) = some ns := pTop_toks ns hshape f hf

open Sqf.CfgText in
/-- **a string reads back as written**: every byte string has a quoted literal (with either quote character) that
the tokenizer accepts as one string token and whose value, as stored in the tree, is the string -/
theorem C15_string_literal (q : B) (hq : q = 34 ∨ q = 39) (b : List B) :
    strOk q (q :: (quoteBody q b ++ [q])) = true ∧ evalLit (.str (q :: (quoteBody q b ++ [q]))) = .str b := by
  refine ⟨strOk_quoted q hq b, ?_⟩
  rw [evalLit, fromSqf_quoted q hq b]

/-- non-vacuity: a tree with nested classes, a base class, delete, number, word and hexadecimal literals and nested
arrays meets the hypotheses -/
def sampleTree : List Node :=
  [.cls n!"A" [.field n!"x" (.dec n!"-1.5"), .field n!"w" (.text n!"West"),
     .fieldArr n!"arr" (.arr [.dec n!"1", .arr [.hex n!"0x1F", .dec n!"2"], .arr []]),
     .cls n!"Inner" [.del n!"gone"]],
   .clsExt n!"B" n!"A" [.fieldArrAppend n!"arr" (.arr [.dec n!"3"])],
   .classDef n!"Fwd", .del n!"Old"]

open Sqf.CfgText in
example : shapeTop sampleTree = true ∧ nodesOk sampleTree = true ∧ tooDeep (toksTop sampleTree) 0 = false := by
  decide +kernel

-- … and so does a tree with a string literal that contains a quote
open Sqf.CfgText in
example : nodesOk [.cls n!"A" [.field n!"s" (.str (34 :: (quoteBody 34 n!"a\"b" ++ [34])))]] = true := by
  have h := strOk_quoted 34 (Or.inl rfl) n!"a\"b"
  simp only [nodesOk, nodeOk, litOk, Bool.and_true, Bool.and_eq_true]
  exact ⟨by decide +kernel, by decide +kernel, h⟩

open Sqf.CfgText in
example : cfgText [.cls n!"A" [.field n!"x" (.dec n!"1")]] = n!"class A { x = 1 ; } ; " := by decide +kernel

-- other layouts, evaluated: the tree is shown through its canonical text
open Sqf.CfgText in
example : (parseText n!"class A { x = 1; y[] = {1, {2}}; }; class B : A {};").map cfgText =
    some n!"class A { x = 1 ; y [ ] = { 1 , { 2 } } ; } ; class B : A { } ; " := by decide +kernel

-- the shift-preferring reading: an unquoted value takes everything up to the `;`, a closing brace included
open Sqf.CfgText in
example : parseText n!"class A { x = 1 }" = none := by decide +kernel
open Sqf.CfgText in
example : (parseText n!"class A { x = a b }; };").map cfgText = some n!"class A { x = a b } ; } ; " := by decide +kernel

/-! ## 8. The config grammar of the current tree (translated from `parser.tab.cc` on every run)

The LALR tables, semantic actions, symbol names, node kinds and the `yylex` of the config grammar are read out of
the checked-in `parser.tab.cc` by `translators/lalr.py` on every run; the kernel evaluates the statements below over
that generated data.  The table driver (`LR.lean`) runs them beside the hand-written grammar model of section 7 on
every generated text (`cfgastlr`). -/

open Sqf.Generated.CfgGrammar Sqf.GrammarTie in
/-- the config `yylex` hands every tokenizer kind to the grammar as the token the model's parser expects, skips
exactly the trivia, and turns anything else into `ANY` -/
theorem C15_cfg_yylex_agrees :
    yylexSimple.all (fun e => match ckOfName e.1 with | some k => cfgMakeName k == e.2 | none => false) = true ∧
    yylexSimple.length = 23 ∧ yylexDefault = "ANY" :=
  cfg_yylex_agrees

open Sqf.Generated.CfgGrammar in
/-- tables, actions, names and kinds of the current tree are those the hand-written grammar model was validated
against -/
theorem C15_cfg_grammar_canonical :
    (complete = true ∧ yypact = Canon.CfgGrammar.yypact ∧ yydefact = Canon.CfgGrammar.yydefact ∧
    yypgoto = Canon.CfgGrammar.yypgoto ∧ yydefgoto = Canon.CfgGrammar.yydefgoto ∧ yytable = Canon.CfgGrammar.yytable ∧
    yycheck = Canon.CfgGrammar.yycheck ∧ yyr1 = Canon.CfgGrammar.yyr1 ∧ yyr2 = Canon.CfgGrammar.yyr2 ∧
    yypact_ninf = Canon.CfgGrammar.yypact_ninf ∧ yytable_ninf = Canon.CfgGrammar.yytable_ninf ∧
    yylast = Canon.CfgGrammar.yylast ∧ yyfinal = Canon.CfgGrammar.yyfinal ∧ yyntokens = Canon.CfgGrammar.yyntokens) ∧
    acts = Canon.CfgGrammar.acts ∧ tnames = Canon.CfgGrammar.tnames ∧ kinds = Canon.CfgGrammar.kinds :=
  ⟨GrammarTie.cfg_tables_canonical, GrammarTie.cfg_actions_canonical, GrammarTie.cfg_names_canonical⟩

end Sqf.Props.C15
