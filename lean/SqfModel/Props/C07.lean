import SqfModel.VM.Run
/-!
# C07 — equality is an equivalence consistent with hashing; HashMap is a finite map

`valEq` models `data::equals` (with the pointer-identity shortcut), `valueEq` models
`value::operator==`; hash maps are association lists searched with `valueEq` — the reference
dictionary itself.
-/
set_option linter.unusedSimpArgs false
namespace Sqf.Props.C07
open Sqf Sqf.VM

/-! ## 1. isEqualTo is symmetric -/

theorem dec_eq_symm (a b : Dec) : Dec.eq a b = Dec.eq b a := by
  unfold Dec.eq
  by_cases h : Dec.eqKey a = Dec.eqKey b
  · simp [h]
  · have h' : ¬ Dec.eqKey b = Dec.eqKey a := fun e => h e.symm
    simp [h, h']

theorem beq_list_symm (x y : List B) : (x == y) = (y == x) := BEq.comm

theorem beq_nat_symm (x y : Nat) : (x == y) = (y == x) := BEq.comm

theorem beq_bool_symm (x y : Bool) : (x == y) = (y == x) := by cases x <;> cases y <;> rfl

/-- symmetry of all four mutually recursive comparison functions, for every fuel and every heap -/
theorem eq_symm_all (h : List (List Val)) : ∀ (f : Nat),
    (∀ ci a b, valEq h ci f a b = valEq h ci f b a) ∧
    (∀ ci xs ys, listEq h ci f xs ys = listEq h ci f ys xs) ∧
    (∀ xs ys, instrsEq h f xs ys = instrsEq h f ys xs) ∧
    (∀ x y, instrEq h f x y = instrEq h f y x) := by
  intro f
  induction f with
  | zero => simp [valEq, listEq, instrsEq, instrEq]
  | succ f ih =>
    obtain ⟨ihv, ihl, ihs, ihi⟩ := ih
    refine ⟨?_, ?_, ?_, ?_⟩
    · intro ci a b
      cases a <;> cases b <;> simp only [valEq] <;> try rfl
      · exact dec_eq_symm _ _
      · exact beq_bool_symm _ _
      · split <;> exact beq_list_symm _ _
      · rw [beq_nat_symm, ihl]
      · exact ihs _ _
      · exact beq_nat_symm _ _
    · intro ci xs ys
      cases xs with
      | nil => cases ys <;> simp [listEq]
      | cons x xs =>
        cases ys with
        | nil => simp [listEq]
        | cons y ys =>
          simp only [listEq]
          rw [ihl ci xs ys]
          congr 1
          cases x <;> cases y <;> simp only [] <;> first | rfl | exact ihv _ _ _
    · intro xs ys
      cases xs with
      | nil => cases ys <;> simp [instrsEq]
      | cons x xs =>
        cases ys with
        | nil => simp [instrsEq]
        | cons y ys => simp only [instrsEq]; rw [ihi x y, ihs xs ys]
    · intro x y
      cases x <;> cases y <;> simp only [instrEq] <;> try rfl
      · next a b => cases a <;> cases b <;> simp only [] <;> first | rfl | exact ihv _ _ _
      all_goals first | exact beq_list_symm _ _ | exact beq_nat_symm _ _

/-- **isEqualTo is symmetric** (every pair of values, nil included, every heap) -/
theorem C07_symm (h : List (List Val)) (a b : Val) : valueEq h a b = valueEq h b a := by
  cases a <;> cases b <;> simp only [valueEq] <;> first | rfl | exact (eq_symm_all h _).1 _ _ _

/-- the comparison behind `==` (case-insensitive) is symmetric as well -/
theorem C07_eqeq_symm (h : List (List Val)) (f : Nat) (a b : Val) : valEq h true f a b = valEq h true f b a :=
  (eq_symm_all h f).1 true a b

/-! ## 2. Reflexivity and transitivity on scalars, strings, booleans; identity for containers -/

theorem C07_refl_scalar (h : List (List Val)) (ci : Bool) (f : Nat) (d : Dec) : valEq h ci (f + 1) (.num d) (.num d) = true := by
  simp [valEq, Dec.eq]

theorem C07_refl_string (h : List (List Val)) (ci : Bool) (f : Nat) (s : List B) : valEq h ci (f + 1) (.str s) (.str s) = true := by
  simp [valEq]

theorem C07_refl_bool (h : List (List Val)) (ci : Bool) (f : Nat) (b : Bool) : valEq h ci (f + 1) (.bool b) (.bool b) = true := by
  simp [valEq]

/-- an array (or any container reference) equals itself whatever it contains — the identity shortcut -/
theorem C07_refl_array (h : List (List Val)) (ci : Bool) (f : Nat) (id : Nat) : valEq h ci (f + 1) (.ref id) (.ref id) = true := by
  simp [valEq]

/-- ±0 are equal numbers -/
example : Dec.eq { neg := true, mant := 0, exp := 0 } { neg := false, mant := 0, exp := 3 } = true := by decide

/-- transitivity on numbers: equality of canonical keys -/
theorem C07_trans_scalar (a b c : Dec) (h1 : Dec.eq a b = true) (h2 : Dec.eq b c = true) : Dec.eq a c = true := by
  unfold Dec.eq at *
  simp only [decide_eq_true_eq] at *
  rw [h1, h2]

/-- transitivity on strings, in both comparison modes -/
theorem C07_trans_string (h : List (List Val)) (ci : Bool) (f : Nat) (x y z : List B)
    (h1 : valEq h ci (f + 1) (.str x) (.str y) = true) (h2 : valEq h ci (f + 1) (.str y) (.str z) = true) :
    valEq h ci (f + 1) (.str x) (.str z) = true := by
  cases ci <;> simp_all [valEq]

/-! ## 3. `==` agrees with isEqualTo up to string case -/

/-- on numbers and booleans the two comparisons coincide -/
theorem C07_eqeq_agrees_scalar (h : List (List Val)) (f : Nat) (a b : Dec) :
    valEq h true f (.num a) (.num b) = valEq h false f (.num a) (.num b) := by
  cases f <;> simp [valEq]

theorem C07_eqeq_agrees_bool (h : List (List Val)) (f : Nat) (a b : Bool) :
    valEq h true f (.bool a) (.bool b) = valEq h false f (.bool a) (.bool b) := by
  cases f <;> simp [valEq]

/-- on strings `==` is isEqualTo of the lower-cased strings -/
theorem C07_eqeq_string (h : List (List Val)) (f : Nat) (x y : List B) :
    valEq h true (f + 1) (.str x) (.str y) = valEq h false (f + 1) (.str (lower x)) (.str (lower y)) := by
  simp [valEq]

/-- … hence whatever isEqualTo identifies, `==` identifies too -/
theorem C07_isEqualTo_implies_eqeq_string (h : List (List Val)) (f : Nat) (x y : List B)
    (he : valEq h false (f + 1) (.str x) (.str y) = true) : valEq h true (f + 1) (.str x) (.str y) = true := by
  simp [valEq] at *; rw [he]

/-! ## 4. HashMap = finite map keyed by isEqualTo (the association list *is* the reference dictionary) -/

/-- lookup in the association list -/
def lookup (h : List (List Val)) (kv : List (Val × Val)) (k : Val) : Option Val :=
  match kv.find? (fun e => valueEq h e.1 k) with
  | some e => some e.2
  | none => none

/-- the update `set` performs: replace the value of the equal key, or append -/
def upd (h : List (List Val)) (kv : List (Val × Val)) (k v : Val) : List (Val × Val) :=
  if kv.any (fun e => valueEq h e.1 k) then kv.map (fun e => if valueEq h e.1 k then (e.1, v) else e)
  else kv ++ [(k, v)]

/-- `get` after `set` with the same key object returns the new value (keys that equal themselves:
every non-nil value does, by the identity shortcut or by value) -/
theorem C07_get_after_set (h : List (List Val)) (kv : List (Val × Val)) (k v : Val) (hk : valueEq h k k = true) :
    lookup h (upd h kv k v) k = some v := by
  unfold lookup upd
  by_cases hany : kv.any (fun e => valueEq h e.1 k) = true
  · simp only [hany, if_true]
    induction kv with
    | nil => simp at hany
    | cons e es ih =>
      simp only [List.map_cons, List.find?_cons]
      by_cases he : valueEq h e.1 k = true
      · simp [he]
      · have he' : valueEq h e.1 k = false := by simpa using he
        simp only [he', Bool.false_eq_true, if_false]
        have : es.any (fun e => valueEq h e.1 k) = true := by simpa [he'] using hany
        exact ih this
  · have hnone : kv.find? (fun e => valueEq h e.1 k) = none := by
      simp only [List.find?_eq_none]
      intro e he
      have := hany
      simp only [List.any_eq_true, not_exists, not_and] at this
      simpa using this e he
    simp only [hany, Bool.false_eq_true, if_false, List.find?_append, hnone, Option.none_or, List.find?_cons, hk]

/-- `count` is the number of entries; `set` on a new key adds one, on a known key none -/
theorem C07_count_set (h : List (List Val)) (kv : List (Val × Val)) (k v : Val) :
    (upd h kv k v).length = if kv.any (fun e => valueEq h e.1 k) then kv.length else kv.length + 1 := by
  unfold upd; split <;> simp

/-- a copy (`+ map`) is an independent map: later updates of one are invisible in the other -/
theorem C07_copy_independent (m : M) (id : Nat) (kv' : List (Val × Val)) (hid : id < m.maps.length) :
    let (m1, nid) := m.allocMap (m.map id)
    (m1.setMap id kv').map nid = m.map id ∧ (m1.setMap nid kv').map id = m.map id := by
  simp only [M.allocMap, M.setMap, M.map]
  have hne : id ≠ m.maps.length := by omega
  constructor
  · simp [List.getD_eq_getElem?_getD, List.getElem?_set, hne, List.getElem?_append_right]
  · have : m.maps.length ≠ id := fun e => hne e.symm
    simp [List.getD_eq_getElem?_getD, List.getElem?_set, this, List.getElem?_append_left hid]

/-! ## Non-vacuity -/

example : valueEq [[num 0], [.num { neg := true, mant := 0, exp := 0 }]] (.ref 0) (.ref 1) = true := by decide
example : lookup [] (upd [] [(.str [97], num 1)] (.str [97]) (num 2)) (.str [97]) = some (num 2) := by rfl

end Sqf.Props.C07
