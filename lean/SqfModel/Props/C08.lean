import SqfModel.VM.Run
import SqfModel.Lemmas.HeapAcyclic
/-!
# C08 — arrays are shared references, copies are independent, never cyclic

The heap is a list of cells; an array value is an index into it. Every in-place operator rewrites
exactly one cell, every copying operator allocates a cell that did not exist before.
-/
set_option linter.unusedSimpArgs false
namespace Sqf.Props.C08
open Sqf Sqf.VM

/-! ## 1. In-place operators: every holder of the reference observes the change -/

/-- rewriting cell `id` changes what *every* reference to `id` reads and nothing else -/
theorem C08_alias (m : M) (id j : Nat) (xs : List Val) (hid : id < m.heap.length) :
    (m.setArr id xs).arr j = if j = id then xs else m.arr j := by
  unfold M.setArr M.arr
  by_cases h : j = id
  · subst h; simp [List.getD_eq_getElem?_getD, hid]
  · have h' : ¬ id = j := fun e => h e.symm
    simp [List.getD_eq_getElem?_getD, List.getElem?_set, h, h']

/-- `pushBack` is in place: it rewrites the cell of its left operand (and yields the index) -/
theorem C08_pushBack_in_place (m : M) (id : Nat) (v : Val) (hc : wouldCycle m id v = false) :
    bop_pushback (.ref id) v m = some (m.setArr id (m.arr id ++ [v]), [], num (m.arr id).length) := by
  unfold bop_pushback
  simp only [hc, Bool.false_eq_true, if_false, pure']

/-- `reverse`, `resize`, `deleteAt` rewrite the same cell -/
theorem C08_reverse_in_place (m : M) (id : Nat) :
    uop_reverse (.ref id) m = some (m.setArr id (m.arr id).reverse, [], .nil) := rfl

theorem C08_resize_shrinks_or_pads (m : M) (id : Nat) (d : Dec) (h0 : ¬ truncInt d < 0) (hmax : ¬ (truncInt d).toNat > maxArraySize) :
    ∃ xs, bop_resize (.ref id) (.num d) m = some (m.setArr id xs, [], .nil) ∧ xs.length = (truncInt d).toNat := by
  unfold bop_resize
  simp only [pure', h0, hmax, if_false]
  split
  · next h => exact ⟨_, rfl, by simp [List.length_take, Nat.min_eq_left h]⟩
  · next h => exact ⟨_, rfl, by simp; omega⟩

/-- a negative size (NaN counts as one) and a size beyond the limit are refused: a diagnostic, the array stays -/
theorem C08_resize_refused (m : M) (id : Nat) (d : Dec) :
    (truncInt d < 0 → bop_resize (.ref id) (.num d) m = some (m.log Diag.runtime_NegativeSize, [], .nil)) ∧
    (¬ truncInt d < 0 → (truncInt d).toNat > maxArraySize → bop_resize (.ref id) (.num d) m = some (m.log Diag.runtime_IndexOutOfRange, [], .nil)) ∧
    bop_resize (.ref id) .nan m = some (m.log Diag.runtime_NegativeSize, [], .nil) := by
  refine ⟨?_, ?_, rfl⟩
  · intro h; unfold bop_resize; simp [h, pure']
  · intro h1 h2; unfold bop_resize; simp [h1, h2, pure']

/-! ## 2. Copying operators return fresh arrays -/

/-- allocation returns an index that no existing reference can hold, and leaves every old cell as it was -/
theorem C08_alloc_fresh (m : M) (xs : List Val) :
    (m.alloc xs).2 = m.heap.length ∧ (m.alloc xs).1.arr m.heap.length = xs ∧
      ∀ j, j < m.heap.length → (m.alloc xs).1.arr j = m.arr j := by
  refine ⟨rfl, ?_, ?_⟩
  · simp [M.alloc, M.arr, List.getD_eq_getElem?_getD]
  · intro j hj
    simp [M.alloc, M.arr, List.getD_eq_getElem?_getD, List.getElem?_append_left hj]

/-- later in-place operations on old arrays do not reach a fresh cell -/
theorem C08_fresh_unaffected (m : M) (xs ys : List Val) (id : Nat) (hid : id < m.heap.length) :
    ((m.alloc xs).1.setArr id ys).arr m.heap.length = xs := by
  have hne : id ≠ m.heap.length := by omega
  simp only [M.alloc, M.setArr, M.arr, List.getD_eq_getElem?_getD]
  rw [List.getElem?_set_ne hne]
  simp

/-- `a + b` allocates: its result is a new cell holding the concatenation -/
theorem C08_plus_fresh (m : M) (a b : Nat) :
    bop__2b (.ref a) (.ref b) m = some ((m.alloc (m.arr a ++ m.arr b)).1, [], .ref m.heap.length) := rfl

/-! ## 3. Index rules of `set` -/

/-- a negative index is rejected with a diagnostic and the array is unchanged -/
theorem C08_set_negative_rejected (m : M) (id p : Nat) (d : Dec) (v : Val)
    (hp : m.arr p = [.num d, v]) (hneg : truncInt d < 0) :
    bop_set (.ref id) (.ref p) m = some (m.log Diag.runtime_NegativeIndex, [], .nil) := by
  unfold bop_set
  simp only [truncInt] at hneg
  simp [hp, nth, hneg, pure', intOfVal]

/-- `set` beyond the end grows the array with nils up to the index -/
theorem C08_set_grows (m : M) (id p : Nat) (d : Dec) (v : Val)
    (hp : m.arr p = [.num d, v]) (hpos : ¬ truncInt d < 0) (hmax : ¬ (truncInt d).toNat ≥ maxArraySize) (hc : wouldCycle m id v = false)
    (hbig : (m.arr id).length ≤ (truncInt d).toNat) :
    bop_set (.ref id) (.ref p) m =
      some (m.setArr id ((m.arr id ++ List.replicate ((truncInt d).toNat + 1 - (m.arr id).length) Val.nil).set (truncInt d).toNat v), [], .nil) := by
  unfold bop_set
  simp only [truncInt] at hpos hmax hbig ⊢
  simp [hp, nth, hpos, hmax, hc, hbig, pure', intOfVal]

/-! ## 4. No operation makes an array contain itself: the attempt is refused -/

/-- `pushBack` of something that reaches the array is refused: diagnostic, heap unchanged -/
theorem C08_pushBack_refuses_cycle (m : M) (id : Nat) (v : Val) (hc : wouldCycle m id v = true) :
    bop_pushback (.ref id) v m = some (m.log Diag.runtime_ArrayRecursion, [], .nil) := by
  unfold bop_pushback
  simp only [hc, if_true, pure']

/-- `append` is refused as a whole when any appended element reaches the array -/
theorem C08_append_refuses_cycle (m : M) (id j : Nat) (hc : (m.arr j).any (fun v => wouldCycle m id v) = true) :
    bop_append (.ref id) (.ref j) m = some (m.log Diag.runtime_ArrayRecursion, [], .nil) := by
  unfold bop_append
  simp only [hc, if_true, pure']

/-- `pushBackUnique` likewise -/
theorem C08_pushBackUnique_refuses_cycle (m : M) (id : Nat) (v : Val)
    (hnew : (m.arr id).any (fun x => valueEq m.heap x v) = false) (hc : wouldCycle m id v = true) :
    bop_pushbackunique (.ref id) v m = some (m.log Diag.runtime_ArrayRecursion, [], .nil) := by
  unfold bop_pushbackunique
  simp only [hnew, Bool.false_eq_true, if_false, hc, if_true, pure']

/-- `set` of something that reaches the array is refused wherever the index points — inside the array, at its end or
beyond it: a diagnostic, and the array keeps its elements and its size (it does not grow) -/
theorem C08_set_refuses_cycle (m : M) (id p : Nat) (d : Dec) (v : Val) (hp : m.arr p = [.num d, v])
    (hpos : ¬ truncInt d < 0) (hmax : ¬ (truncInt d).toNat ≥ maxArraySize) (hc : wouldCycle m id v = true) :
    bop_set (.ref id) (.ref p) m = some (m.log Diag.runtime_ArrayRecursion, [], .nil) := by
  unfold bop_set
  simp only [truncInt] at hpos hmax ⊢
  simp [hp, nth, hpos, hmax, hc, pure', intOfVal]

/-- a refused insertion leaves every array exactly as it was -/
theorem C08_refused_heap_unchanged (m : M) (code : Nat) : (m.log code).heap = m.heap := by
  unfold M.log; simp only; split <;> rfl

/-- storing an array in itself directly is always detected -/
theorem C08_self_insertion_detected (m : M) (id : Nat) : wouldCycle m id (.ref id) = true := by
  simp [wouldCycle, reachesC]

/-- … and so is storing something that contains it (one level of nesting shown; `reachesC` follows
arrays and hash maps to any depth) -/
theorem C08_nested_self_insertion_detected (m : M) (id j : Nat)
    (hmem : .ref id ∈ m.arr j) : wouldCycle m id (.ref j) = true := by
  have hlen : m.heap.length + m.maps.length + 1 = (m.heap.length + m.maps.length - 1 + 1) + 1 := by
    have : j < m.heap.length := by
      unfold M.arr at hmem
      rcases Nat.lt_or_ge j m.heap.length with h | h
      · exact h
      · simp [List.getD, List.getElem?_eq_none h] at hmem
    omega
  unfold wouldCycle
  rw [hlen]
  simp only [reachesC, List.any_cons, List.any_nil, Bool.or_false, Bool.not_false, Bool.true_and,
    Bool.or_eq_true, beq_iff_eq]
  right
  simp only [List.any_eq_true]
  exact ⟨.ref id, hmem, by simp⟩

/-- a hash map stored in itself (as key or value) is detected -/
theorem C08_map_self_insertion_detected (m : M) (id : Nat) : wouldCycleMap m id (.mapref id) = true := by
  simp [wouldCycleMap, reachesC]

/-- an array that holds the map cannot be stored in the map -/
theorem C08_map_through_array_detected (m : M) (id j : Nat)
    (hmem : .mapref id ∈ m.arr j) : wouldCycleMap m id (.ref j) = true := by
  have hlen : m.heap.length + m.maps.length + 1 = (m.heap.length + m.maps.length - 1 + 1) + 1 := by
    have : j < m.heap.length := by
      unfold M.arr at hmem
      rcases Nat.lt_or_ge j m.heap.length with h | h
      · exact h
      · simp [List.getD, List.getElem?_eq_none h] at hmem
    omega
  unfold wouldCycleMap
  rw [hlen]
  simp only [reachesC, List.any_cons, List.any_nil, Bool.or_false, Bool.not_true, Bool.false_and,
    Bool.false_or]
  simp only [List.any_eq_true]
  exact ⟨.mapref id, hmem, by simp⟩

/-- a map that holds the array (as a value) cannot be stored in the array -/
theorem C08_array_through_map_detected (m : M) (id j : Nat) (k : Val)
    (hmem : (k, .ref id) ∈ m.map j) : wouldCycle m id (.mapref j) = true := by
  have hlen : m.heap.length + m.maps.length + 1 = (m.heap.length + m.maps.length - 1 + 1) + 1 := by
    have : j < m.maps.length := by
      unfold M.map at hmem
      rcases Nat.lt_or_ge j m.maps.length with h | h
      · exact h
      · simp [List.getD, List.getElem?_eq_none h] at hmem
    omega
  unfold wouldCycle
  rw [hlen]
  simp only [reachesC, List.any_cons, List.any_nil, Bool.or_false, Bool.false_and, Bool.false_or]
  simp only [List.any_eq_true, List.mem_flatMap]
  exact ⟨.ref id, ⟨(k, .ref id), hmem, by simp⟩, by simp⟩

/-! ## 5. Acyclicity is an invariant of the inserting operators

`Acyclic h mp` (`Lemmas/HeapAcyclic.lean`): the containment tree below every value is well founded. The
cycle test is *sound* for every fuel (running out of fuel refuses), so an accepted insertion can never
close a cycle — through arrays, through hash maps, or through any mixture of the two. -/

theorem log_heap (m : M) (code : Nat) : (m.log code).heap = m.heap := by
  unfold M.log; simp only; split <;> rfl
theorem log_maps (m : M) (code : Nat) : (m.log code).maps = m.maps := by
  unfold M.log; simp only; split <;> rfl

/-- an element that may be stored in array `id`: an element the array already holds, a value that
passed the cycle test, or a value that is no container -/
def Admissible (m : M) (id : Nat) (x : Val) : Prop :=
  x ∈ m.arr id ∨ wouldCycle m id x = false ∨ ((∀ j, x ≠ .ref j) ∧ (∀ j, x ≠ .mapref j))

/-- rewriting an array cell with admissible elements keeps the heap acyclic -/
theorem acyclic_setArr (m : M) (id : Nat) (cell : List Val) (ha : Acyclic m.heap m.maps)
    (hc : ∀ x, x ∈ cell → Admissible m id x) : Acyclic (m.setArr id cell).heap (m.setArr id cell).maps := by
  intro v
  show Ends (m.heap.set id cell) m.maps v
  refine ends_after_setArr m.heap m.maps id cell ?_ v (ha v)
  intro x hx
  rcases hc x hx with hold | hchk | hatom
  · exact Or.inl hold
  · right
    unfold wouldCycle at hchk
    exact reachesC_false_ends m.heap (m.heap.set id cell) m.maps id (fun j hj => getD_set_ne m.heap id j cell hj) _ [x] hchk x
      (by simp)
  · exact Or.inr (Ends.atom x hatom.1 hatom.2)

theorem nil_admissible (m : M) (id : Nat) : Admissible m id .nil :=
  Or.inr (Or.inr ⟨fun j => by simp, fun j => by simp⟩)

/-- **pushBack never closes a cycle** -/
theorem C08_pushBack_acyclic (m : M) (id : Nat) (v : Val) (res : OpRes) (ha : Acyclic m.heap m.maps)
    (hr : bop_pushback (.ref id) v m = some res) : Acyclic res.1.heap res.1.maps := by
  unfold bop_pushback at hr
  simp only [pure'] at hr
  split at hr
  · have : res = (m.log Diag.runtime_ArrayRecursion, [], .nil) := by simpa using hr.symm
    subst this; simp only [log_heap, log_maps]; exact ha
  · next hc =>
    have : res = (m.setArr id (m.arr id ++ [v]), [], num (m.arr id).length) := by simpa using hr.symm
    subst this
    refine acyclic_setArr m id _ ha ?_
    intro x hx
    simp only [List.mem_append, List.mem_singleton] at hx
    rcases hx with hx | hx
    · exact Or.inl hx
    · subst hx; exact Or.inr (Or.inl (by simpa using hc))

/-- **pushBackUnique never closes a cycle** -/
theorem C08_pushBackUnique_acyclic (m : M) (id : Nat) (v : Val) (res : OpRes) (ha : Acyclic m.heap m.maps)
    (hr : bop_pushbackunique (.ref id) v m = some res) : Acyclic res.1.heap res.1.maps := by
  unfold bop_pushbackunique at hr
  simp only [pure'] at hr
  split at hr
  · have : res = (m, [], .num (Dec.ofInt (-1))) := by simpa using hr.symm
    subst this; exact ha
  · split at hr
    · have : res = (m.log Diag.runtime_ArrayRecursion, [], .nil) := by simpa using hr.symm
      subst this; simp only [log_heap, log_maps]; exact ha
    · next hc =>
      have : res = (m.setArr id (m.arr id ++ [v]), [], num (m.arr id).length) := by simpa using hr.symm
      subst this
      refine acyclic_setArr m id _ ha ?_
      intro x hx
      simp only [List.mem_append, List.mem_singleton] at hx
      rcases hx with hx | hx
      · exact Or.inl hx
      · subst hx; exact Or.inr (Or.inl (by simpa using hc))

/-- **append never closes a cycle** -/
theorem C08_append_acyclic (m : M) (id j : Nat) (res : OpRes) (ha : Acyclic m.heap m.maps)
    (hr : bop_append (.ref id) (.ref j) m = some res) : Acyclic res.1.heap res.1.maps := by
  unfold bop_append at hr
  simp only [pure'] at hr
  split at hr
  · have : res = (m.log Diag.runtime_ArrayRecursion, [], .nil) := by simpa using hr.symm
    subst this; simp only [log_heap, log_maps]; exact ha
  · next hc =>
    have : res = (m.setArr id (m.arr id ++ m.arr j), [], .nil) := by simpa using hr.symm
    subst this
    refine acyclic_setArr m id _ ha ?_
    intro x hx
    simp only [List.mem_append] at hx
    rcases hx with hx | hx
    · exact Or.inl hx
    · have hall := List.any_eq_false.mp (by simpa using hc) x hx
      exact Or.inr (Or.inl (by simpa using hall))

/-- **set never closes a cycle** -/
theorem C08_set_acyclic (m : M) (id p : Nat) (res : OpRes) (ha : Acyclic m.heap m.maps)
    (hr : bop_set (.ref id) (.ref p) m = some res) : Acyclic res.1.heap res.1.maps := by
  unfold bop_set at hr
  simp only [pure'] at hr
  have grown : ∀ (i : Nat) x, x ∈ (if (m.arr id).length ≤ i then m.arr id ++ List.replicate (i + 1 - (m.arr id).length) Val.nil else m.arr id) →
      Admissible m id x := by
    intro i x hx
    split at hx
    · simp only [List.mem_append, List.mem_replicate] at hx
      rcases hx with hx | hx
      · exact Or.inl hx
      · rw [hx.2]; exact nil_admissible m id
    · exact Or.inl hx
  split at hr
  · have : res = (m.log Diag.runtime_ExpectedArraySizeMissmatch, [], .nil) := by simpa using hr.symm
    subst this; simp only [log_heap, log_maps]; exact ha
  · split at hr
    · next idx hd =>
      split at hr
      · have : res = (m.log Diag.runtime_NegativeIndex, [], .nil) := by simpa using hr.symm
        subst this; simp only [log_heap, log_maps]; exact ha
      · split at hr
        · have : res = (m.log Diag.runtime_IndexOutOfRange, [], .nil) := by simpa using hr.symm
          subst this; simp only [log_heap, log_maps]; exact ha
        · split at hr
          · have e : res = (m.log Diag.runtime_ArrayRecursion, [], .nil) := by
              simpa using hr.symm
            subst e
            simp only [log_heap, log_maps]
            exact ha
          · next hc =>
            have e : res = (m.setArr id ((if (m.arr id).length ≤ idx.toNat then m.arr id ++ List.replicate (idx.toNat + 1 - (m.arr id).length) Val.nil else m.arr id).set idx.toNat (nth (m.arr p) 1)), [], .nil) := by
              simpa using hr.symm
            subst e
            refine acyclic_setArr m id _ ha ?_
            intro x hx
            rcases List.mem_or_eq_of_mem_set hx with hx | hx
            · exact grown _ x hx
            · subst hx; exact Or.inr (Or.inl (by simpa using hc))
    · have : res = (m.log Diag.runtime_ExpectedArrayTypeMissmatch, [], .nil) := by simpa using hr.symm
      subst this; simp only [log_heap, log_maps]; exact ha

/-- a hash map cell rewritten with entries whose keys and values are old or passed the test stays acyclic -/
theorem acyclic_setMap (m : M) (id : Nat) (cell : List (Val × Val)) (ha : Acyclic m.heap m.maps)
    (hc : ∀ e, e ∈ cell →
      (e.1 ∈ (m.map id).flatMap (fun e => [e.1, e.2]) ∨ wouldCycleMap m id e.1 = false) ∧
      (e.2 ∈ (m.map id).flatMap (fun e => [e.1, e.2]) ∨ wouldCycleMap m id e.2 = false)) :
    Acyclic (m.setMap id cell).heap (m.setMap id cell).maps := by
  intro v
  show Ends m.heap (m.maps.set id cell) v
  have chk : ∀ x, wouldCycleMap m id x = false → Ends m.heap (m.maps.set id cell) x := by
    intro x hx
    unfold wouldCycleMap at hx
    exact reachesC_true_target_ends m.heap m.maps (m.maps.set id cell) id (fun j hj => mgetD_set_ne m.maps id j cell hj) _ [x] hx x
      (by simp)
  refine ends_after_setMap m.heap m.maps id cell ?_ v (ha v)
  intro e he
  refine ⟨?_, ?_⟩
  · rcases (hc e he).1 with h1 | h1
    · exact Or.inl h1
    · exact Or.inr (chk _ h1)
  · rcases (hc e he).2 with h1 | h1
    · exact Or.inl h1
    · exact Or.inr (chk _ h1)

/-- allocation of a fresh array over bounded, well-founded elements (what `+`, `select`, `apply`, the copy
operators do) keeps a bounded heap acyclic -/
theorem C08_alloc_acyclic (m : M) (xs : List Val) (hb : Bounded m.heap m.maps) (ha : Acyclic m.heap m.maps)
    (hxs : ∀ x, x ∈ xs → ValOk m.heap m.maps x) (v : Val) (hv : ValOk m.heap m.maps v ∨ v = .ref m.heap.length) :
    Ends (m.alloc xs).1.heap (m.alloc xs).1.maps v := by
  show Ends (m.heap ++ [xs]) m.maps v
  rcases hv with hv | hv
  · exact ends_after_alloc m.heap m.maps xs hb v (ha v) hv
  · subst hv
    exact ends_new_cell m.heap m.maps xs hb (fun x hx => ⟨ha x, hxs x hx⟩)

/-! ## Non-vacuity -/

example : wouldCycle { heap := [[num 1], [.ref 0]] } 0 (.ref 1) = true := by decide
example : wouldCycleMap { heap := [[.mapref 0]], maps := [[]] } 0 (.ref 0) = true := by decide
example : wouldCycle { heap := [[]], maps := [[(num 1, .ref 0)]] } 0 (.mapref 0) = true := by decide
example : wouldCycle { heap := [[], [num 2]], maps := [[(num 1, .ref 1)]] } 0 (.mapref 0) = false := by decide

end Sqf.Props.C08
