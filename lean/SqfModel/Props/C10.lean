import SqfModel.Preproc
import SqfModel.Lex
import SqfModel.Parse
import SqfModel.Compile
import SqfModel.Pbo
import SqfModel.CfgText
/-!
# C10 — front ends are total: any input yields a result or a diagnostic, never a crash

The theorems are about the modelled front ends: the SQF tokenizer (`Lex.lean`) and the SQF parser and
code generator on top of it (`Parse.lean`, `Compile.lean`). They hold for every byte string.

* the tokenizer makes progress: every token other than `eof`/`invalid` consumes at least one byte, so a
  token stream of at most `length + 1` tokens always ends in `eof` or `invalid` — the fuel the model gives
  the tokenizer is adequate, i.e. *tokenizing terminates in a number of steps linear in the input*;
* the tokens spell the input: the token texts up to the end are consecutive pieces of the input, nothing is
  read outside the buffer (the model only ever `take`s and `drop`s from the rest of the input);
* `assemble` is a total function into `Option`: every input is accepted (a program) or rejected — there
  is no third outcome — and the same input always gives the same result.

The config tokenizer and grammar are modelled in `CfgText.lean`; the same four statements are proved for them
at the end of this file (progress, termination within `length + 1` tokens, tokens spell the input, the parse is
a total function).  For the implementation side totality is explored by the check on mutated inputs.
-/
set_option linter.unusedSimpArgs false
set_option linter.unusedVariables false
namespace Sqf.Props.C10
open Sqf

/-! ## The tokenizer terminates -/

theorem tryMatch_pos (st : LState) : ∀ ks k m, tryMatch st ks = some (k, m) → m.len ≠ 0 := by
  intro ks
  induction ks with
  | nil => intro k m h; simp [tryMatch] at h
  | cons k0 ks ih =>
    intro k m h
    rw [tryMatch] at h
    split at h
    · next m0 hm =>
      split at h
      · exact ih k m h
      · next hne =>
        simp only [Option.some.injEq, Prod.mk.injEq] at h
        rw [← h.2]; simpa using hne
    · exact ih k m h

/-- **progress**: a token that is neither `eof` nor `invalid` consumes at least one byte -/
theorem C10_next_progress (st : LState) (h : (next st).1.kind ≠ .eof ∧ (next st).1.kind ≠ .invalid) :
    (next st).2.rest.length < st.rest.length := by
  unfold next at h ⊢
  split
  · next hr => simp [hr] at h
  · next c cs hr =>
    split
    · next hc => simp [hr, hc] at h
    · next ks hc =>
      split
      · next ht => simp [hr, hc, ht] at h
      · next k m ht =>
        have := tryMatch_pos st ks k m ht
        simp only [List.length_drop, hr, List.length_cons]
        omega

/-- with fuel beyond the number of remaining bytes the token list ends in `eof` or `invalid` -/
theorem lexAll_ends : ∀ (f : Nat) (st : LState), st.rest.length < f →
    ∃ t, (lexAll f st).getLast? = some t ∧ (t.kind = .eof ∨ t.kind = .invalid) := by
  intro f
  induction f with
  | zero => intro st h; omega
  | succ f ih =>
    intro st h
    rw [lexAll]
    simp only []
    by_cases hk : ((next st).1.kind == .eof || (next st).1.kind == .invalid) = true
    · simp only [hk, if_true]
      refine ⟨(next st).1, by simp, ?_⟩
      simpa using hk
    · simp only [hk, Bool.false_eq_true, if_false]
      have hk' : (next st).1.kind ≠ .eof ∧ (next st).1.kind ≠ .invalid := by
        simp only [Bool.or_eq_true, beq_iff_eq, not_or] at hk
        exact hk
      have hp := C10_next_progress st hk'
      obtain ⟨t, ht, hkind⟩ := ih (next st).2 (by omega)
      refine ⟨t, ?_, hkind⟩
      cases hl : lexAll f (next st).2 with
      | nil => rw [hl] at ht; simp at ht
      | cons a as => rw [hl] at ht; simpa [List.getLast?_cons_cons] using ht

/-- **Tokenizing terminates, in at most `length + 1` tokens, for every byte string**: the stream the
model produces with that bound is complete — it ends in the `eof` token or in an `invalid` token -/
theorem C10_lexer_terminates (s : List B) :
    ∃ t, (lexText s).getLast? = some t ∧ (t.kind = .eof ∨ t.kind = .invalid) := by
  unfold lexText
  exact lexAll_ends (s.length + 1) (LState.init s [102]) (by simp [LState.init])

/-- the number of tokens is bounded by the input length: time proportional to the input -/
theorem lexAll_length : ∀ (f : Nat) (st : LState), (lexAll f st).length ≤ f := by
  intro f
  induction f with
  | zero => intro st; simp [lexAll]
  | succ f ih =>
    intro st
    rw [lexAll]
    simp only []
    split
    · simp
    · simp only [List.length_cons]; have := ih (next st).2; omega

theorem C10_token_count_linear (s : List B) : (lexText s).length ≤ s.length + 1 := by
  unfold lexText; exact lexAll_length _ _

/-! ## The tokens spell the input (nothing outside the buffer is read) -/

/-- every token's text is a prefix of what was left of the input, and the rest continues right behind it -/
theorem C10_token_is_prefix (st : LState) :
    (next st).1.text ++ (next st).2.rest = st.rest ∨ ((next st).1.text = [] ∧ (next st).2.rest = st.rest) := by
  unfold next
  split
  · right; exact ⟨rfl, rfl⟩
  · split
    · right; exact ⟨rfl, rfl⟩
    · split
      · right; exact ⟨rfl, rfl⟩
      · left; exact List.take_append_drop _ _

/-! ## Parsing and code generation are total and deterministic -/

/-- every input is either compiled or rejected — by a function, so the same input gives the same result -/
theorem C10_assemble_total (reg : Registry) (s : List B) :
    (∃ prog, assemble reg s = some prog) ∨ assemble reg s = none := by
  cases h : assemble reg s with
  | some p => exact Or.inl ⟨p, rfl⟩
  | none => exact Or.inr rfl

/-- the PBO reader is total in the same sense (C17 states its safety) -/
theorem C10_pbo_total (file : List B) : (∃ a, Pbo.parse file = some a) ∨ Pbo.parse file = none := by
  cases h : Pbo.parse file with
  | some a => exact Or.inl ⟨a, rfl⟩
  | none => exact Or.inr rfl

/-! ## Non-vacuity: inputs that used to hang or crash the implementation -/

-- an unterminated line comment, an unterminated block comment, a malformed #line, a keyword cut at the end
example : ((lexText n!"1 // x").getLast?.map (·.kind)) = some .eof := by decide +kernel
example : ((lexText n!"1 /* x").getLast?.map (·.kind)) = some .eof := by decide +kernel
example : (lexText n!"#line abc").length ≤ 10 := by decide +kernel
example : ((lexText n!"str tr").getLast?.map (·.kind)) = some .eof := by decide +kernel

open Sqf.Pp

/-! ## the preprocessor: the reader is linear in the input and the expander is a total function -/


/-- characters the reader holds back in a state -/
def pending : RS → Nat
  | .slash => 1 | .bs _ => 1 | .bscr _ => 1 | _ => 0

theorem base_len (inStr : Bool) (ln : Nat) (c : B) : (base inStr ln c).1.length + pending (base inStr ln c).2.1 ≤ 1 := by
  unfold base
  repeat' split
  all_goals (cases inStr <;> simp [pending, RS.base])

theorem stepC_len (s : RS) (ln : Nat) (c : B) : (stepC s ln c).1.length + pending (stepC s ln c).2.1 ≤ pending s + 1 := by
  cases s with
  | code => have := base_len false ln c; simpa [stepC, pending] using this
  | str => have := base_len true ln c; simpa [stepC, pending] using this
  | block => simp only [stepC]; repeat' split
             all_goals simp [pending]
  | line => simp only [stepC]; repeat' split
            all_goals simp [pending]
  | star => simp only [stepC]; repeat' split
            all_goals simp [pending]
  | slash =>
    have hb := base_len false ln c
    have hp : pending RS.slash = 1 := rfl
    simp only [stepC]
    split
    · simp [pending]
    · split
      · simp [pending]
      · simp only [List.length_cons, hp]; omega
  | bs b =>
    have hb := base_len b ln c
    have hp : pending (RS.bs b) = 1 := rfl
    have hp2 : ∀ x, pending (RS.base x) = 0 := by intro x; cases x <;> rfl
    simp only [stepC]
    split
    · simp [hp, hp2]
    · split
      · simp [hp, pending]
      · simp only [List.length_cons, hp]; omega
  | bscr b =>
    have hb := base_len b ln c
    have hp : pending (RS.bscr b) = 1 := rfl
    have hp2 : ∀ x, pending (RS.base x) = 0 := by intro x; cases x <;> rfl
    simp only [stepC]
    split
    · simp [hp, hp2]
    · simp only [List.length_cons, hp]; omega

/-- **The preprocessor's reader delivers no more characters than the source has**: comments, continuations
and carriage returns only ever remove; reading is one step per byte -/
theorem C10_reader_linear (src : List B) : ∀ (s : RS) (ln : Nat), (strip s ln src).length ≤ src.length + pending s := by
  induction src with
  | nil => intro s ln; cases s <;> simp [strip, flush, pending]
  | cons c cs ih =>
    intro s ln
    rw [strip]
    have h1 := stepC_len s ln c
    have h2 := ih (stepC s ln c).2.1 (stepC s ln c).2.2
    simp only [List.length_append, List.length_cons]
    omega

/-- preprocessing is a function into "text or error code": every source is expanded or rejected, and the
same source with the same files and macro table always gives the same answer -/
theorem C10_preprocess_total (e : Env) (t : Table) (text : List B) : (∃ out, run e t text = .ok out) ∨ (∃ code, run e t text = .error code) := by
  cases h : run e t text with
  | ok o => exact Or.inl ⟨o, rfl⟩
  | error c => exact Or.inr ⟨c, rfl⟩

/-! ## The config front end (`CfgText.lean`): the same statements for the config tokenizer and grammar -/

open Sqf.CfgText

theorem cfg_tryMatch_pos (st : LS) : ∀ ks k m, CfgText.tryMatch st ks = some (k, m) → m.len ≠ 0 := by
  intro ks
  induction ks with
  | nil => intro k m h; simp [CfgText.tryMatch] at h
  | cons k0 ks ih =>
    intro k m h
    rw [CfgText.tryMatch] at h
    split at h
    · next m0 hm =>
      split at h
      · exact ih k m h
      · next hne =>
        simp only [Option.some.injEq, Prod.mk.injEq] at h
        rw [← h.2]; simpa using hne
    · exact ih k m h

/-- **progress**: a config token that is neither `eof` nor `invalid` consumes at least one byte -/
theorem C10_cfg_next_progress (st : LS)
    (h : (CfgText.next st).1.kind ≠ .eof ∧ (CfgText.next st).1.kind ≠ .invalid) :
    (CfgText.next st).2.rest.length < st.rest.length := by
  unfold CfgText.next at h ⊢
  split
  · next hr => simp [hr] at h
  · next c cs hr =>
    split
    · next hc => simp [hr, hc] at h
    · next ks hc =>
      split
      · next ht => simp [hr, hc, ht] at h
      · next k m ht =>
        have := cfg_tryMatch_pos st ks k m ht
        simp only [List.length_drop, hr, List.length_cons]
        omega

theorem cfg_lexAll_ends : ∀ (f : Nat) (st : LS), st.rest.length < f →
    ∃ t, (CfgText.lexAll f st).getLast? = some t ∧ (t.kind = .eof ∨ t.kind = .invalid) := by
  intro f
  induction f with
  | zero => intro st h; omega
  | succ f ih =>
    intro st h
    rw [CfgText.lexAll]
    by_cases hk : ((CfgText.next st).1.kind == .eof || (CfgText.next st).1.kind == .invalid) = true
    · simp only [hk, if_true]
      refine ⟨(CfgText.next st).1, by simp, ?_⟩
      simpa using hk
    · simp only [hk, Bool.false_eq_true, if_false]
      have hk' : (CfgText.next st).1.kind ≠ .eof ∧ (CfgText.next st).1.kind ≠ .invalid := by
        simp only [Bool.or_eq_true, beq_iff_eq, not_or] at hk
        exact hk
      have hp := C10_cfg_next_progress st hk'
      obtain ⟨t, ht, hkind⟩ := ih (CfgText.next st).2 (by omega)
      refine ⟨t, ?_, hkind⟩
      cases hl : CfgText.lexAll f (CfgText.next st).2 with
      | nil => rw [hl] at ht; simp at ht
      | cons a as => rw [hl] at ht; simpa [List.getLast?_cons_cons] using ht

/-- **Tokenizing a config text terminates in at most `length + 1` tokens, for every byte string** -/
theorem C10_cfg_lexer_terminates (s : List B) :
    ∃ t, (CfgText.lexText s).getLast? = some t ∧ (t.kind = .eof ∨ t.kind = .invalid) := by
  unfold CfgText.lexText
  exact cfg_lexAll_ends (s.length + 1) (LS.init s) (by simp [LS.init])

theorem cfg_lexAll_length : ∀ (f : Nat) (st : LS), (CfgText.lexAll f st).length ≤ f := by
  intro f
  induction f with
  | zero => intro st; simp [CfgText.lexAll]
  | succ f ih =>
    intro st
    rw [CfgText.lexAll]
    split
    · simp
    · simp only [List.length_cons]; have := ih (CfgText.next st).2; omega

theorem C10_cfg_token_count_linear (s : List B) : (CfgText.lexText s).length ≤ s.length + 1 := by
  unfold CfgText.lexText; exact cfg_lexAll_length _ _

/-- every config token's text is a prefix of what was left of the input -/
theorem C10_cfg_token_is_prefix (st : LS) :
    (CfgText.next st).1.text ++ (CfgText.next st).2.rest = st.rest ∨
      ((CfgText.next st).1.text = [] ∧ (CfgText.next st).2.rest = st.rest) := by
  unfold CfgText.next
  split
  · right; exact ⟨rfl, rfl⟩
  · split
    · right; exact ⟨rfl, rfl⟩
    · split
      · right; exact ⟨rfl, rfl⟩
      · left; exact List.take_append_drop _ _

/-- the grammar never sees more tokens than the tokenizer produced -/
theorem attachR_length (l : List RawTok) : (attachR l).2.length ≤ l.length := by
  induction l with
  | nil => simp [attachR]
  | cons t ts ih =>
    rw [attachR]
    split
    · simp only [List.length_cons]; omega
    · simp only [List.length_cons]; omega

theorem C10_cfg_tokens_linear (s : List B) : (CfgText.tokens s).length ≤ s.length + 1 := by
  unfold CfgText.tokens CfgText.attach
  exact Nat.le_trans (attachR_length _) (C10_cfg_token_count_linear s)

/-- parsing a config text is a total function: a tree or a rejection, the same for the same text -/
theorem C10_cfg_parse_total (s : List B) : (∃ ns, CfgText.parseText s = some ns) ∨ CfgText.parseText s = none := by
  cases h : CfgText.parseText s with
  | some p => exact Or.inl ⟨p, rfl⟩
  | none => exact Or.inr rfl

-- inputs that made the config tokenizer of the pinned tree hang or leave its buffer: an unclassifiable byte, an
-- unterminated string, an unterminated block comment, a number cut at its exponent
example : ((CfgText.lexText n!"class @").getLast?.map (·.kind)) = some .invalid := by decide +kernel
example : ((CfgText.lexText n!"a = \"open").getLast?.map (·.kind)) = some .eof := by decide +kernel
example : ((CfgText.lexText n!"/* open").getLast?.map (·.kind)) = some .eof := by decide +kernel
example : ((CfgText.lexText n!"x = 1e+").map (·.kind.toNat)) = [20, 6, 17, 6, 21, 2, 0] := by decide +kernel
example : CfgText.parseText n!"class A { a = 1 }" = none := by decide +kernel


end Sqf.Props.C10
