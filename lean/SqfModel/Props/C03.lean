import SqfModel.Lemmas.StackInv
import SqfModel.VM.Sched
/-!
# C03 — variable scoping: dynamic local lookup, private, namespaces, case-insensitivity
-/
set_option linter.unusedSimpArgs false
namespace Sqf.Props.C03
open Sqf Sqf.VM

/-! ## 1. Names are case-insensitive -/

/-- two spellings of a name that differ only in letter case denote the same variable, for reading … -/
theorem C03_case_insensitive_get (vs : List (Name × Val)) (n1 n2 : Name) (h : lower n1 = lower n2) :
    varsGet vs n1 = varsGet vs n2 := by
  unfold varsGet; rw [h]

/-- … for the "does it exist" test … -/
theorem C03_case_insensitive_contains (vs : List (Name × Val)) (n1 n2 : Name) (h : lower n1 = lower n2) :
    varsContains vs n1 = varsContains vs n2 := by
  unfold varsContains; rw [C03_case_insensitive_get vs n1 n2 h]

/-- … and for writing -/
theorem C03_case_insensitive_set (vs : List (Name × Val)) (n1 n2 : Name) (v : Val) (h : lower n1 = lower n2) :
    varsSet vs n1 v = varsSet vs n2 v := by
  induction vs with
  | nil => simp [varsSet, h]
  | cons e es ih => simp [varsSet, h, ih]

/-- a value written under one spelling is read back under any other -/
theorem C03_set_get (vs : List (Name × Val)) (n1 n2 : Name) (v : Val) (h : lower n1 = lower n2) :
    varsGet (varsSet vs n1 v) n2 = some v := by
  rw [← C03_case_insensitive_get _ n1 n2 h]
  induction vs with
  | nil => simp [varsSet, varsGet]
  | cons e es ih =>
    unfold varsSet
    split
    · next he => simp [varsGet, he]
    · next he =>
      unfold varsGet at ih ⊢
      simp only [List.find?_cons, he]
      exact ih

/-! ## 2. Local lookup: innermost scope first, through the dynamic chain of calling scopes -/

/-- the innermost scope that holds the name wins -/
theorem C03_lookup_innermost_first (f : Frame) (fs : List Frame) (n : Name) (v : Val)
    (h : varsGet f.vars n = some v) : Ctx.getVar.go n (f :: fs) = some v := by
  simp [Ctx.getVar.go, h]

/-- a scope that does not hold the name passes the lookup on to the scope that called it -/
theorem C03_lookup_passes_on (f : Frame) (fs : List Frame) (n : Name)
    (h : varsGet f.vars n = none) (hb : f.bubble = true) : Ctx.getVar.go n (f :: fs) = Ctx.getVar.go n fs := by
  simp [Ctx.getVar.go, h, hb]

/-! ## 3. Assignment: nearest scope that already holds the name, otherwise the current scope -/

/-- the nearest holder is updated and nothing else changes -/
theorem C03_assign_nearest_holder (f : Frame) (fs : List Frame) (n : Name) (v : Val)
    (h : varsContains f.vars n = true) :
    assignLocal (f :: fs) n v = some ({ f with vars := varsSet f.vars n v } :: fs) := by
  simp [assignLocal, h]

/-- scopes that do not hold the name are left untouched on the way out -/
theorem C03_assign_skips_non_holders (f : Frame) (fs fs' : List Frame) (n : Name) (v : Val)
    (h : varsContains f.vars n = false) (hr : assignLocal fs n v = some fs') :
    assignLocal (f :: fs) n v = some (f :: fs') := by
  simp [assignLocal, h, hr]

/-- when no scope holds the name, a plain assignment creates it in the current scope -/
theorem C03_assign_creates_in_current (m : M) (f : Frame) (rest : List Frame) (n : Name) (v : Val) (rest' : List Val)
    (hfr : m.ctx.frames = f :: rest) (hvals : m.ctx.vals = rest' ++ [v]) (hbase : f.base ≤ rest'.length)
    (hloc : firstIsUnderscore n = true) (hne : n ≠ []) (hv : v ≠ .nil)
    (hnone : assignLocal (f :: rest) n v = none) :
    (execInstr (.assignTo n) m).ctx.frames = { f with vars := varsSet f.vars n v } :: rest := by
  have hpop : m.ctx.popV = some (v, { m.ctx with vals := rest' }) := by
    unfold Ctx.popV
    simp [hfr, hvals]
    omega
  have hne' : n.isEmpty = false := by cases n <;> simp_all
  cases v <;> simp_all [execInstr, M.popV, M.top?, Ctx.top?, M.setTop, Ctx.setTop]

/-- `private _x = …` always binds in the current scope, whatever outer scopes hold -/
theorem C03_private_binds_current (m : M) (f : Frame) (rest : List Frame) (n : Name) (v : Val) (rest' : List Val)
    (hfr : m.ctx.frames = f :: rest) (hvals : m.ctx.vals = rest' ++ [v]) (hbase : f.base ≤ rest'.length)
    (hne : n ≠ []) (hv : v ≠ .nil) :
    (execInstr (.assignToLocal n) m).ctx.frames = { f with vars := varsSet f.vars n v } :: rest := by
  have hne' : n.isEmpty = false := by cases n <;> simp_all
  have hpop : m.ctx.popV = some (v, { m.ctx with vals := rest' }) := by
    unfold Ctx.popV
    simp [hfr, hvals]
    omega
  cases v <;> simp_all [execInstr, M.popV, M.top?, Ctx.top?, M.setTop, Ctx.setTop]

/-- `private "_x"` declares the name in the current scope only -/
theorem C03_private_declares_current (m : M) (f : Frame) (s : Name) (htop : m.top? = some f) :
    uop_private (.str s) m = some (m, [.setTop { f with vars := varsTouch f.vars s }], .nil) := by
  simp [uop_private, privateNames, htop]

/-! ## 4. Every binding disappears when its scope ends -/

/-- after a scope has completed, lookups only see the scopes that were below it -/
theorem C03_bindings_vanish (c : Ctx) (f : Frame) (rest : List Frame) (n : Name) (h : c.frames = f :: rest) :
    c.complete.getVar n = Ctx.getVar.go n rest := by
  simp [Ctx.complete, Ctx.getVar, h]

/-- every iteration of a loop starts with the bindings of the construct only (`_x`, the loop
variable …): what the previous iteration declared is gone -/
theorem C03_iteration_scope_fresh (m : M) (vs : List (Name × Val)) (f : Frame) (htop : m.top? = some f) :
    ∃ f', (runAct (.setVars vs) m).top? = some f' ∧ f'.vars = vs := by
  obtain ⟨r, hr⟩ := top?_eq htop
  refine ⟨{ f with vars := vs }, ?_, rfl⟩
  simp [runAct, M.setVars, htop, M.setTop, Ctx.setTop, hr, M.top?, Ctx.top?]

/-! ## 5. Spawned code sees none of the spawner's locals -/

/-- the context created by `spawn` consists of one scope holding `_this` and `_thisScript` only:
no local of the spawning script can be reached from it -/
theorem C03_spawn_sees_no_caller_locals (l : Val) (c : List Instr) (m : M) (n : Name)
    (h1 : lower n ≠ n!"_this") (h2 : lower n ≠ n!"_thisscript") :
    ∃ m' h ctx, bop_spawn l (.code c) m = some (m', [], h) ∧ m'.spawned = m.spawned ++ [ctx] ∧
      ctx.getVar n = none := by
  refine ⟨_, _, _, rfl, rfl, ?_⟩
  simp only [Ctx.getVar, Ctx.getVar.go, mkFrame, varsGet, List.find?_cons, List.find?_nil]
  have e1 : (n!"_thisscript" == lower n) = false := by
    simp only [beq_eq_false_iff_ne, ne_eq]; exact fun e => h2 e.symm
  have e2 : (n!"_this" == lower n) = false := by
    simp only [beq_eq_false_iff_ne, ne_eq]; exact fun e => h1 e.symm
  simp [e1, e2]

/-! ## 6. Globals live in the namespace selected by the innermost enclosing `with … do` -/

/-- `with ns do {…}` runs the block in `ns` … -/
theorem C03_with_selects_namespace (id : Nat) (body : List Instr) (m : M) :
    bop_do (.withv id) (.code body) m = some (m, [.pushFrame (mkFrame body [] none none id)], .nil) := by
  simp [bop_do]

/-- … and every construct started from inside it stays in that namespace -/
theorem C03_nested_scopes_inherit_namespace (m : M) (f g : Frame) (htop : m.top? = some g) :
    frame' m f = some (m, [.pushFrame { f with globals := g.globals }], .nil) := by
  simp [frame', curNs, htop, M.top?] at *
  simp [htop]

/-- a global assignment writes the storage that `getVariable` on that namespace reads (and vice versa
`setVariable` writes what a global read inside `with ns do` sees) -/
theorem C03_namespace_same_storage (nss : List (List (Name × Val))) (id : Nat) (n1 n2 : Name) (v : Val)
    (hid : id < nss.length) (h : lower n1 = lower n2) :
    varsGet (nsGet (nsSet nss id (varsSet (nsGet nss id) n1 v)) id) n2 = some v := by
  simp [nsGet, nsSet, hid, C03_set_get _ n1 n2 v h]

/-! ## Non-vacuity -/

example : Ctx.getVar.go n!"_X" [{ code := [], vars := [] }, { code := [], vars := [(n!"_x", num 5)] }] = some (num 5) := by
  rfl

end Sqf.Props.C03
