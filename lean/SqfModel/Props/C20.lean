import SqfModel.Generated.Statics
/-!
# C20 — runs are deterministic and VM instances are isolated from each other

Two parts.

1. A **non-interference theorem** for a process that holds several VM instances and process-wide statics,
   for every `run` function that respects the classification of the statics: statics of the "saved"
   kind are the same after a run as before it (constant after initialisation, or saved and restored
   around `runtime::execute`), and statics of the "registry" kind never influence an output or an
   instance state. Then whatever other instances executed before, an instance started from a fresh state
   produces exactly the output it produces in a fresh process.
2. The **obligation that ties the theorem to the code**: every object with static storage duration in
   the library built from the current tree (`Generated/Statics.lean`, regenerated from `nm` on every
   run) belongs to one of the classes the theorem's hypotheses cover. A new mutable static breaks it.

Determinism itself needs no theorem in the model: `run` is a function — the model has no hidden input.
The implementation side of both is the metamorphic check of `vlib/props/c20.py` (same program alone,
after other programs, beside other programs on other threads: byte-identical logs).
-/
set_option linter.unusedVariables false
namespace Sqf.Props.C20

universe u

/-- process-wide statics: the part that every run leaves as it found it, and the lazily filled
registries -/
structure Statics (κ ρ : Type u) where
  kept : κ
  registry : ρ

/-- one `runtime::execute` of a program on an instance: new instance state, new statics, output -/
structure Runner (σ κ ρ π ω : Type u) where
  run : σ → Statics κ ρ → π → σ × Statics κ ρ × ω
  /-- statics of the kept kind are restored by the end of the run -/
  keeps : ∀ s t p, (run s t p).2.1.kept = t.kept
  /-- the registries influence neither the resulting instance state nor the output -/
  regBlind : ∀ s k r1 r2 p, (run s ⟨k, r1⟩ p).1 = (run s ⟨k, r2⟩ p).1 ∧ (run s ⟨k, r1⟩ p).2.2 = (run s ⟨k, r2⟩ p).2.2

variable {σ κ ρ π ω : Type u}

/-- statics after a history of runs on other instances (each given by its instance state and program) -/
def after (R : Runner σ κ ρ π ω) (t : Statics κ ρ) : List (σ × π) → Statics κ ρ
  | [] => t
  | (s, p) :: rest => after R (R.run s t p).2.1 rest

theorem after_kept (R : Runner σ κ ρ π ω) (hist : List (σ × π)) : ∀ t, (after R t hist).kept = t.kept := by
  induction hist with
  | nil => intro t; rfl
  | cons h rest ih =>
    intro t
    obtain ⟨s, p⟩ := h
    show (after R (R.run s t p).2.1 rest).kept = t.kept
    rw [ih, R.keeps]

/-- **Isolation.** Whatever programs other instances executed before (any number, any order), an
instance in state `s` running `p` ends in the same state and produces the same output as in a process
where nothing ran before. -/
theorem C20_isolation (R : Runner σ κ ρ π ω) (t0 : Statics κ ρ) (hist : List (σ × π)) (s : σ) (p : π) :
    (R.run s (after R t0 hist) p).1 = (R.run s t0 p).1 ∧ (R.run s (after R t0 hist) p).2.2 = (R.run s t0 p).2.2 := by
  have hk := after_kept R hist t0
  cases ha : after R t0 hist with
  | mk k r =>
    cases t0 with
    | mk k0 r0 =>
      rw [ha] at hk
      simp only at hk
      subst hk
      exact R.regBlind s k r r0 p

/-- the order in which other instances ran is irrelevant as well -/
theorem C20_order_irrelevant (R : Runner σ κ ρ π ω) (t0 : Statics κ ρ) (h1 h2 : List (σ × π)) (s : σ) (p : π) :
    (R.run s (after R t0 h1) p).2.2 = (R.run s (after R t0 h2) p).2.2 := by
  rw [(C20_isolation R t0 h1 s p).2, (C20_isolation R t0 h2 s p).2]

/-! ## The obligation over the statics of the current tree -/

open Sqf.Generated

/-- every process-wide static of the library is constant after initialisation (1), a type registry (2),
saved and restored around `execute` (3), or outside the VM (4) -/
def classified (v : StaticVar) : Bool := v.cls == 1 || v.cls == 2 || v.cls == 3 || v.cls == 4

theorem C20_statics_classified : staticsTable.all classified = true := by decide +kernel

/-- the table is not empty (the obligation is about something) and contains the statics the property names -/
example : staticsTable.any (fun v => v.name == "sqf::types::d_scalar::s_decimals") = true := by decide +kernel
example : staticsTable.any (fun v => v.name == "sqf::runtime::type::s_type_value") = true := by decide +kernel

end Sqf.Props.C20
