import SqfModel.Vfs
/-!
# C16 — the virtual file system resolves deterministically and never leaves the mapped roots

Theorems about the model of `get_info` (`SqfModel/Vfs.lean`), for every set of mappings (nested,
overlapping, several roots per prefix), every set of existing files and every request and current path —
`..` segments, slash/backslash mixes, doubled separators and absolute physical paths included.
-/
set_option linter.unusedSimpArgs false
set_option linter.unusedVariables false
namespace Sqf.Props.C16
open Sqf Sqf.Vfs

/-- a physical path that lies (lexically) below `root`: the root followed by `/segment` pieces none of
which is `..` -/
def Below (root path : List B) : Prop :=
  ∃ segs : List Seg, (∀ s ∈ segs, s ≠ dotdot) ∧ path = root ++ segs.flatMap (fun s => slash :: s)

theorem remainder_below (root : List B) (rest : List Seg) : Below root (root ++ remainder rest) := by
  refine ⟨rest.filter (fun s => s != dotdot), ?_, rfl⟩
  intro s hs
  simp only [List.mem_filter, bne_iff_ne] at hs
  exact hs.2

theorem nodePhys_mem (ms : List Mapping) (p : List Seg) (ph : List B) (h : ph ∈ nodePhys ms p) :
    ∃ m ∈ ms, m.phys = ph ∧ m.virt = p := by
  unfold nodePhys at h
  simp only [List.mem_map, List.mem_filter, beq_iff_eq] at h
  obtain ⟨m, ⟨hm, hv⟩, hp⟩ := h
  exact ⟨m, hm, hp, hv⟩

/-- what the virtual interpretation returns -/
theorem resolveVirtual_spec (ms : List Mapping) (files : List (List B)) (req curVirt : List B) (i : Info)
    (h : resolveVirtual ms files req curVirt = some i) :
    ∃ m ∈ ms, Below m.phys i.physical ∧ existsFile files i.physical = true := by
  unfold resolveVirtual at h
  simp only [] at h
  split at h
  · cases h
  · split at h
    · cases h
    · split at h
      · cases h
      · split at h
        · next ph hfind =>
          simp only [Option.some.injEq] at h
          subst h
          have hmem := List.mem_of_find?_eq_some hfind
          have hex := List.find?_some hfind
          obtain ⟨m, hm, hp, _⟩ := nodePhys_mem ms _ ph hmem
          refine ⟨m, hm, ?_, ?_⟩
          · rw [hp]; exact remainder_below ph _
          · simpa using hex
        · cases h

/-- the physical interpretation only ever answers with what the virtual interpretation found for the
translated path -/
theorem resolvePhysical_via_virtual (ms : List Mapping) (files : List (List B)) (req curVirt curPhys : List B) (i : Info)
    (h : resolvePhysical ms files req curVirt curPhys = some i) :
    ∃ req', resolveVirtual ms files req' curVirt = some i := by
  unfold resolvePhysical at h
  simp only [] at h
  generalize hc : (nodesInOrder ms).flatMap (fun p => (nodePhys ms p).map (fun ph => (p, ph))) = cands at h
  generalize ht : (if isRelative (normalize req) = true then _ else normalize req) = toFind at h
  clear hc ht
  induction cands generalizing toFind with
  | nil => simp [resolvePhysical.go] at h
  | cons c rest ih =>
    obtain ⟨p, ph⟩ := c
    rw [resolvePhysical.go] at h
    simp only [] at h
    split at h
    · split at h
      · next i' hv =>
        simp only [Option.some.injEq] at h
        subst h
        exact ⟨_, hv⟩
      · exact ih _ h
    · exact ih _ h

/-- **Resolution never yields a file outside the mapped physical directories**: whatever the request
contains, an answer is a file that exists and lies below one of the mapped roots, reached from it by
segments none of which is `..` -/
theorem C16_never_outside (ms : List Mapping) (files : List (List B)) (req curVirt curPhys : List B) (i : Info)
    (h : resolve ms files req curVirt curPhys = some i) :
    ∃ m ∈ ms, Below m.phys i.physical ∧ existsFile files i.physical = true := by
  unfold resolve at h
  split at h
  · next i' hv =>
    simp only [Option.some.injEq] at h
    subst h
    exact resolveVirtual_spec ms files req curVirt i' hv
  · obtain ⟨req', hv⟩ := resolvePhysical_via_virtual ms files req curVirt curPhys i h
    exact resolveVirtual_spec ms files req' curVirt i hv

/-- without any mapping nothing resolves -/
theorem C16_no_mapping_no_file (files : List (List B)) (req curVirt curPhys : List B) :
    resolve [] files req curVirt curPhys = none := by
  cases h : resolve [] files req curVirt curPhys with
  | none => rfl
  | some i =>
    obtain ⟨m, hm, _⟩ := C16_never_outside [] files req curVirt curPhys i h
    cases hm

/-- **The first root that contains the file wins**: when several physical directories are mapped to the
node a request ends in, the answer comes from the first of them (in mapping order) that holds the file -/
theorem C16_first_root_wins (roots : List (List B)) (files : List (List B)) (rem : List B) (ph : List B)
    (h : roots.find? (fun r => existsFile files (r ++ rem)) = some ph) :
    existsFile files (ph ++ rem) = true ∧
      ∃ before after, roots = before ++ ph :: after ∧ ∀ r ∈ before, existsFile files (r ++ rem) = false := by
  refine ⟨by simpa using List.find?_some h, ?_⟩
  obtain ⟨before, after, hsplit, hbefore⟩ := List.find?_eq_some_iff_append.mp h |>.2
  exact ⟨before, after, hsplit, fun r hr => by simpa using hbefore r hr⟩

/-- **The deepest mapped prefix wins**: on a clean request (no empty and no `..` segments) the walk
consumes segments as long as they lead to tree nodes and stops at the first segment that does not; the
node reached is therefore the deepest node along the request, and exactly the unconsumed segments are
appended to its physical directory -/
theorem C16_walk_deepest (ms : List Mapping) : ∀ (segs : List Seg) (p : List Seg),
    (∀ s ∈ segs, s ≠ [] ∧ s ≠ dotdot) →
    ∃ pre rest, segs = pre ++ rest ∧ walk ms (some p) segs = (some (p ++ pre), rest) ∧
      (∀ k, k < pre.length → nodeExists ms (p ++ pre.take (k + 1)) = true) ∧
      (∀ s rest', rest = s :: rest' → nodeExists ms (p ++ pre ++ [s]) = false) := by
  intro segs
  induction segs with
  | nil =>
    intro p _
    exact ⟨[], [], rfl, by simp [walk], by intro k hk; simp at hk, by intro s r h; cases h⟩
  | cons s tl ih =>
    intro p hclean
    have hs := hclean s (by simp)
    have htl : ∀ x ∈ tl, x ≠ [] ∧ x ≠ dotdot := fun x hx => hclean x (by simp [hx])
    have hne : s.isEmpty = false := by
      cases hs' : s with
      | nil => exact absurd hs' hs.1
      | cons _ _ => rfl
    by_cases hnode : nodeExists ms (p ++ [s]) = true
    · obtain ⟨pre, rest, hsplit, hwalk, hall, hstop⟩ := ih (p ++ [s]) htl
      refine ⟨s :: pre, rest, by simp [hsplit], ?_, ?_, ?_⟩
      · rw [walk]
        simp only [hne, Bool.false_eq_true, if_false, hs.2, hnode, if_true]
        rw [hwalk]; simp [List.append_assoc]
      · intro k hk
        cases k with
        | zero => simpa using hnode
        | succ k =>
          have := hall k (by simpa using hk)
          simpa [List.append_assoc] using this
      · intro x r hx
        have := hstop x r hx
        simpa [List.append_assoc] using this
    · have hnode' : nodeExists ms (p ++ [s]) = false := by simpa using hnode
      refine ⟨[], s :: tl, rfl, ?_, by intro k hk; simp at hk, ?_⟩
      · rw [walk]
        simp [hne, hs.2, hnode']
      · intro x r hx
        simp only [List.cons.injEq] at hx
        rw [← hx.1]; simpa using hnode'

/-- `..` in the unmatched remainder is dropped, never applied to the physical directory -/
theorem C16_remainder_no_dotdot (rest : List Seg) :
    remainder rest = remainder (rest.filter (fun s => s != dotdot)) := by
  unfold remainder
  simp [List.filter_filter]

/-! ## Non-vacuity -/

def sampleMaps : List Mapping := [{ virt := [n!"x"], phys := n!"/R/d1" }, { virt := [n!"x", n!"y"], phys := n!"/R/d2" },
  { virt := [n!"x"], phys := n!"/R/d3" }]
def sampleFiles : List (List B) := [n!"/R/d1/a.sqf", n!"/R/d3/a.sqf", n!"/R/d3/only3.sqf", n!"/R/d2/b.sqf", n!"/R/secret.sqf"]

-- first root wins, second root used when the first lacks the file, deepest prefix, traversal refused
example : (resolve sampleMaps sampleFiles n!"/x/a.sqf" [] []).map (·.physical) = some n!"/R/d1/a.sqf" := by decide +kernel
example : (resolve sampleMaps sampleFiles n!"/x/only3.sqf" [] []).map (·.physical) = some n!"/R/d3/only3.sqf" := by decide +kernel
example : (resolve sampleMaps sampleFiles n!"\\x\\y\\b.sqf" [] []).map (·.physical) = some n!"/R/d2/b.sqf" := by decide +kernel
example : resolve sampleMaps sampleFiles n!"/x/../secret.sqf" [] [] = none := by decide +kernel
example : resolve sampleMaps sampleFiles n!"/x/y/../../../secret.sqf" [] [] = none := by decide +kernel
example : resolve sampleMaps sampleFiles n!"/R/secret.sqf" [] [] = none := by decide +kernel
example : (resolve sampleMaps sampleFiles n!"/R/d2/b.sqf" [] []).map (·.virtual_) = some n!"/x/y/b.sqf" := by decide +kernel

end Sqf.Props.C16
