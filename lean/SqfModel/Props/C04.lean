import SqfModel.Lemmas.StackInv
/-!
# C04 — runtime errors are never silent, never skipped over, never leak into later code

Theorems about the error handling of `execute_do` in the VM model (`afterInstr`, `step`).
-/
set_option linter.unusedSimpArgs false
namespace Sqf.Props.C04
open Sqf Sqf.VM

/-- an error-level diagnostic with this code has been delivered to the logger -/
def Logged (m : M) (code : Nat) : Prop := ∃ d ∈ m.diags, d.code = code

/-! ## 1. Without a handler the run ends, is reported as failed, with a stack trace -/

theorem unwind_none (fuel : Nat) (c : Ctx) (tr : Val) (hno : findRecover c.frames 0 = none) :
    unwindErr fuel c tr = (c, false) := by
  cases fuel with
  | zero => rfl
  | succ f => rw [unwindErr, hno]

theorem logged_stacktrace (m : M) : Logged (m.log Diag.runtime_Stacktrace) Diag.runtime_Stacktrace := by
  unfold Logged M.log
  simp only
  split <;> exact ⟨{ code := Diag.runtime_Stacktrace, level := levelOf Diag.runtime_Stacktrace }, by simp, rfl⟩

/-- the two outcomes of error handling: taken over by a handler (not failed), or failed with a
stack-trace diagnostic; the flag is lowered in both -/
theorem finishErr_spec (m4 : M) (u : Ctx × Bool) :
    (finishErr m4 u).1.err = false ∧
    ((finishErr m4 u).2 = .ok ∨
      ((finishErr m4 u).2 = .runtimeError ∧ Logged (finishErr m4 u).1 Diag.runtime_Stacktrace)) := by
  unfold finishErr
  split
  · exact ⟨rfl, Or.inl rfl⟩
  · exact ⟨rfl, Or.inr ⟨rfl, logged_stacktrace _⟩⟩

/-- raised flag, no frame with an error behaviour: the step reports `runtime_error`, a stack-trace
diagnostic is delivered, and the flag is lowered (it cannot surface again later) -/
theorem C04_unhandled_error_fails (m : M) (herr : m.err = true) (hno : findRecover m.ctx.frames 0 = none) :
    (afterInstr m).2 = .runtimeError ∧ Logged (afterInstr m).1 Diag.runtime_Stacktrace ∧ (afterInstr m).1.err = false := by
  unfold afterInstr
  simp only [herr, Bool.not_true, Bool.false_eq_true, if_false]
  rw [unwind_none _ _ _ hno]
  unfold finishErr
  simp only [Bool.false_eq_true, if_false]
  exact ⟨trivial, logged_stacktrace _, trivial⟩

/-- whenever the step is reported as failed, a stack-trace diagnostic has been delivered -/
theorem C04_failed_has_stacktrace (m : M) (h : (afterInstr m).2 = .runtimeError) :
    Logged (afterInstr m).1 Diag.runtime_Stacktrace := by
  unfold afterInstr at h ⊢
  split at h
  · simp at h
  · next hne =>
    simp only [hne, if_false] at h ⊢
    rcases (finishErr_spec _ _).2 with hok | ⟨_, hl⟩
    · rw [hok] at h; cases h
    · exact hl

/-- after a failed step nothing else of that script is executed: the run loop stops at the first
result that is not `ok` -/
theorem C04_no_later_statement (n : Nat) (m m' : M) (r : StepRes)
    (hstep : step (4 * (m.ctx.frames.length + 4) + 100000) m = (m', r)) (hr : r ≠ .ok) :
    runSteps (n + 1) m = (m', r, 1) := by
  rw [runSteps]
  split
  · next m'' heq => rw [hstep] at heq; simp at heq; exact absurd heq.2 hr
  · next m'' r' _ heq => rw [hstep] at heq; simp at heq; rw [heq.1, heq.2]

/-! ## 2. With a handler, control passes exactly once to the nearest one -/

/-- an `except__` frame that has not been used takes the error: the step is not reported as failed,
the flag is lowered, the frames above the handler are gone -/
theorem C04_handler_takes_over (fuel : Nat) (c : Ctx) (tr : Val) (idx : Nat) (fr : Frame) (handler : List Instr)
    (hrec : findRecover c.frames 0 = some idx) (hfr : c.frames[idx]? = some fr)
    (hb : fr.errB = some (.exceptB handler false)) :
    (unwindErr (fuel + 1) c tr).2 = true := by
  rw [unwindErr, hrec]
  simp only
  have h0 : ((c.pushV tr).dropFrames idx).frames[0]? = some fr := by
    simp [Ctx.dropFrames, Ctx.pushV, hfr]
  unfold recoverAt
  simp only [h0, hb, Bool.false_eq_true, if_false]

/-- `try … catch` does not swallow runtime errors: its frame refuses the error, is left, and the
search continues with the next enclosing handler (and fails the run when there is none) -/
theorem C04_try_catch_does_not_swallow (fuel : Nat) (c : Ctx) (tr : Val) (idx : Nat) (fr : Frame) (handler : List Instr)
    (hrec : findRecover c.frames 0 = some idx) (hfr : c.frames[idx]? = some fr)
    (hb : fr.errB = some (.catchB handler)) :
    unwindErr (fuel + 1) c tr = unwindErr fuel (popClear ((c.pushV tr).dropFrames idx)) tr := by
  rw [unwindErr, hrec]
  simp only
  have h0 : ((c.pushV tr).dropFrames idx).frames[0]? = some fr := by
    simp [Ctx.dropFrames, Ctx.pushV, hfr]
  unfold recoverAt
  simp only [h0, hb, if_true]

/-- a handler is used up by its first error: once it has taken over, the frame holds no error behaviour any
more, and a frame without one does not take an error (`recover_runtime_error` fails and changes nothing) —
an error or a `throw` inside a handler block is never caught by that same handler again -/
theorem C04_handler_once (c : Ctx) (fr : Frame) (rest : List Frame)
    (hf : c.frames = fr :: rest) (hb : fr.errB = none) (e : Bool) :
    (recoverAt c e 0).2 = Recover.error ∧ (recoverAt c e 0).1 = c := by
  unfold recoverAt
  simp [hf, hb]

/-- the first error hands the stack trace to the handler: its code replaces the frame's code and
`_exception` is bound -/
theorem C04_except_first (c : Ctx) (fr : Frame) (handler : List Instr) (rest : List Frame)
    (hf : c.frames = fr :: rest) (hb : fr.errB = some (.exceptB handler false)) (e : Bool) :
    ∃ fr', (recoverAt c e 0).1.frames = fr' :: rest ∧ fr'.code = handler ∧ fr'.pc = 0 ∧
      fr'.errB = none ∧ (varsGet fr'.vars n!"_exception").isSome := by
  have hclear : ∀ (c0 : Ctx), c0.clearV.frames = c0.frames := by
    intro c0; unfold Ctx.clearV; split <;> rfl
  unfold recoverAt
  simp only [hf, List.getElem?_cons_zero, hb, Bool.false_eq_true, if_false]
  cases hp : c.popV with
  | none =>
    simp only [Ctx.setFrameAt, hclear, hf, List.getElem?_cons_zero, List.set_cons_zero]
    exact ⟨_, rfl, rfl, rfl, rfl, by simp [varsGet, lower, toLower, isUpperAlpha]⟩
  | some p =>
    obtain ⟨v, c'⟩ := p
    have hfr := (Ctx.popV_spec hp).1
    simp only [Ctx.setFrameAt, hclear, hfr, hf, List.getElem?_cons_zero, List.set_cons_zero]
    exact ⟨_, rfl, rfl, rfl, rfl, by simp [varsGet, lower, toLower, isUpperAlpha]⟩

/-! ## 3. The flag never leaks: it is lowered at every instruction boundary -/

theorem afterInstr_err (m : M) : (afterInstr m).1.err = false := by
  unfold afterInstr
  split
  · next h => simpa using h
  · exact (finishErr_spec _ _).1

theorem deadline_err (m : M) (h : m.err = false) :
    (deadline m).2.err = false ∧ ∀ r, (deadline m).1 = some r → r.1.err = false := by
  unfold deadline
  split
  · split
    · exact ⟨h, by intro r hr; simp only [Option.some.injEq] at hr; rw [← hr]⟩
    · exact ⟨h, by intro r hr; cases hr⟩
  · exact ⟨h, by intro r hr; cases hr⟩

theorem fetchExec_err (m : M) (h : m.err = false) : (fetchExec m).1.err = false := by
  unfold fetchExec
  split
  · exact h
  · split
    · exact h
    · have hd := deadline_err m h
      split
      · next r m2 heq => rw [heq] at hd; exact hd.2 r rfl
      · exact afterInstr_err _

theorem yieldStep_err (m : M) (h : m.err = false) : (yieldStep m).1.err = false := by
  unfold yieldStep
  have hd := deadline_err m h
  split
  · next r m2 heq => rw [heq] at hd; exact hd.2 r rfl
  · next m2 heq => rw [heq] at hd; exact hd.1

theorem step_err_aux : ∀ (fuel : Nat) (m m' : M) (r : StepRes), m.err = false →
    step fuel m = (m', r) → r ≠ .hang → r ≠ .crash → m'.err = false := by
  intro fuel
  induction fuel with
  | zero => intro m m' r _ hs hh _; simp [step] at hs; exact absurd hs.2.symm hh
  | succ fuel ih =>
    intro m m' r h0 hs hh hc
    rw [step] at hs
    split at hs
    · simp at hs; rw [← hs.1]; exact h0
    · split at hs
      · simp at hs; rw [← hs.1]; exact h0
      · split at hs
        · simp at hs; rw [← hs.1]; exact h0
        · split at hs
          · simp at hs; exact absurd hs.2.symm hh
          · simp at hs; exact absurd hs.2.symm hc
          · next m1 heq =>
            split at hs
            · have ha := afterInstr_err m1
              split at hs
              · next m2 heq2 => rw [heq2] at ha; exact ih m2 m' r ha hs hh hc
              · next m2 r2 _ heq2 => rw [heq2] at ha; simp at hs; rw [← hs.1]; exact ha
            · next herr =>
              have herr' : m1.err = false := by simpa using herr
              have := yieldStep_err m1 herr'
              rw [hs] at this; exact this
          · next m1 r1 _ _ _ heq =>
            split at hs
            · have ha := afterInstr_err m1
              split at hs
              · next m2 heq2 => rw [heq2] at ha; exact ih m2 m' r ha hs hh hc
              · next m2 r2 _ heq2 => rw [heq2] at ha; simp at hs; rw [← hs.1]; exact ha
            · next herr =>
              have herr' : m1.err = false := by simpa using herr
              split at hs
              · split at hs
                · exact ih { m1 with ctx := m1.ctx.complete } m' r herr' hs hh hc
                · simp at hs; rw [← hs.1]; exact herr'
              · have := fetchExec_err m1 herr'
                rw [hs] at this; exact this

/-- after every step that returns (did not hang or crash) the error flag is lowered: error state
raised by one statement cannot surface at a later statement, script or run -/
theorem C04_flag_lowered (fuel : Nat) (m : M) (h : m.err = false)
    (hh : (step fuel m).2 ≠ .hang) (hc : (step fuel m).2 ≠ .crash) : (step fuel m).1.err = false :=
  step_err_aux fuel m (step fuel m).1 (step fuel m).2 h rfl hh hc

/-! ## 4. An execution that raised no error is never reported as failed -/

/-- if the executed instruction did not raise the flag the step is `ok` -/
theorem C04_clean_not_failed (m : M) (h : m.err = false) : (afterInstr m).2 = .ok := by
  unfold afterInstr; simp [h]

/-- the flag is only ever raised by delivering an error-level diagnostic -/
theorem C04_flag_only_by_error_diag (m : M) (code : Nat) (h : m.err = false) :
    (m.log code).err = true → levelOf code ≤ 1 := by
  unfold M.log
  simp only
  split
  · intro _; assumption
  · intro h'; simp [h] at h'

/-! ## Non-vacuity -/

example : (afterInstr { err := true, ctx := { frames := [{ code := [] }] } }).2 = .runtimeError := by
  decide

end Sqf.Props.C04
