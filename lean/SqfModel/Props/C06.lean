import SqfModel.Print
import SqfModel.Compile
/-!
# C06 — str / literals round-trip

Theorems about the printing side (`to_string_sqf`, `%g`, `reconstruct`) and the reading side
(`from_sqf`, `stod` on number tokens) of the model.
-/
set_option linter.unusedSimpArgs false
namespace Sqf.Props.C06
open Sqf

/-! ## 1. Strings: every byte string survives quoting and unquoting -/

/-- the quoted body: every `"` doubled -/
def quoteBody (s : List B) : List B := s.flatMap (fun c => if c == 34 then [34, 34] else [c])

theorem renderStr_eq (s : List B) : renderStr s = [34] ++ quoteBody s ++ [34] := rfl

/-- `from_sqf` undoes the doubling for every body and whatever single character terminates it -/
theorem unquote_quoteBody (s : List B) (last : B) : unquoteBody 34 (quoteBody s ++ [last]) = s := by
  induction s with
  | nil => simp [quoteBody, unquoteBody]
  | cons c cs ih =>
    by_cases hc : c = 34
    · subst hc
      have : quoteBody (34 :: cs) ++ [last] = 34 :: 34 :: (quoteBody cs ++ [last]) := by simp [quoteBody]
      rw [this, unquoteBody]
      simp only [beq_self_eq_true, Bool.and_self, if_true]
      rw [ih]
    · have hq : quoteBody (c :: cs) ++ [last] = c :: (quoteBody cs ++ [last]) := by
        simp [quoteBody, hc]
      rw [hq]
      cases hr : quoteBody cs ++ [last] with
      | nil => simp at hr
      | cons d ds =>
        rw [unquoteBody]
        have hne : (c == 34) = false := by simpa using hc
        simp only [hne, Bool.false_and, Bool.false_eq_true, if_false]
        rw [← hr, ih]

/-- **String round trip.** For every byte string `s` (any bytes: quotes, newlines, backslashes, …) the
text `str` prints for it is read back by `from_sqf` as `s`. -/
theorem C06_string_roundtrip (s : List B) : fromSqf (renderStr s) = s := by
  rw [renderStr_eq]
  simp only [fromSqf, List.cons_append, List.nil_append, beq_self_eq_true, Bool.true_or, if_true]
  exact unquote_quoteBody s 34

/-- doubled quotes in a literal denote one quote: `"a""b"` is `a"b` -/
example : fromSqf [34, 97, 34, 34, 98, 34] = [97, 34, 98] := by simp [fromSqf, unquoteBody]

/-! ## 2. Numbers -/

theorem natOfDigits_append (ds : List B) (c : B) : natOfDigits (ds ++ [c]) = natOfDigits ds * 10 + digitVal c := by
  simp [natOfDigits, List.foldl_append]

/-- value of `digits ++ acc` when `acc` is already a digit string -/
theorem foldl_digits (acc : List B) (x : Nat) :
    List.foldl (fun a c => a * 10 + digitVal c) x acc = x * 10 ^ acc.length + natOfDigits acc := by
  induction acc generalizing x with
  | nil => simp [natOfDigits]
  | cons c cs ih =>
    simp only [List.foldl_cons, List.length_cons]
    rw [ih]
    have h0 : natOfDigits (c :: cs) = digitVal c * 10 ^ cs.length + natOfDigits cs := by
      unfold natOfDigits
      simp only [List.foldl_cons, Nat.zero_mul, Nat.zero_add]
      exact ih (digitVal c)
    rw [h0, Nat.pow_succ, Nat.add_mul, Nat.add_assoc, Nat.mul_assoc, Nat.mul_comm 10]

theorem natOfDigits_natDigitsGo (n : Nat) : ∀ acc : List B,
    natOfDigits (natDigitsGo n acc) = n * 10 ^ acc.length + natOfDigits acc := by
  induction n using Nat.strongRecOn with
  | _ n ih =>
    intro acc
    rw [natDigitsGo]
    split
    · next h => subst h; simp
    · next h =>
      rw [ih (n / 10) (Nat.div_lt_self (Nat.pos_of_ne_zero h) (by omega))]
      simp only [List.length_cons]
      have hd : natOfDigits ((48 + n % 10) :: acc) = (n % 10) * 10 ^ acc.length + natOfDigits acc := by
        rw [natOfDigits]
        simp only [List.foldl_cons]
        rw [foldl_digits]
        simp [digitVal]
      rw [hd, Nat.pow_succ]
      have := Nat.div_add_mod n 10
      calc n / 10 * (10 ^ acc.length * 10) + (n % 10 * 10 ^ acc.length + natOfDigits acc)
          = (10 * (n / 10) + n % 10) * 10 ^ acc.length + natOfDigits acc := by
            rw [Nat.add_mul, ← Nat.add_assoc]; congr 1; congr 1
            rw [Nat.mul_comm (10 ^ acc.length) 10, ← Nat.mul_assoc, Nat.mul_comm (n / 10) 10]
        _ = n * 10 ^ acc.length + natOfDigits acc := by rw [this]

/-- **Integer literals denote what they spell**: the decimal digits of `n` are read back as `n` -/
theorem C06_digits_roundtrip (n : Nat) : natOfDigits (natDigits n) = n := by
  unfold natDigits
  split
  · next h => subst h; rfl
  · rw [natOfDigits_natDigitsGo]; simp [natOfDigits]

/-! ## 3. Code: where `reconstruct` puts parentheses -/

/-- a binary operation is parenthesised exactly when its context binds at least as tightly:
as left operand when the parent's precedence is higher, otherwise when it is higher or equal -/
theorem C06_binary_parens (h : List (List Val)) (f : Nat) (n : Name) (prec parent : Nat) (left : Bool)
    (rest r1 r2 : List Instr) (re le : List B)
    (h1 : recon h f rest prec false = some (re, r1)) (h2 : recon h f r1 prec true = some (le, r2)) :
    recon h (f + 1) (.callBinary n prec :: rest) parent left =
      some (if (if left then decide (parent > prec) else decide (parent ≥ prec))
              then [40] ++ (le ++ [32] ++ n ++ [32] ++ re) ++ [41] else le ++ [32] ++ n ++ [32] ++ re, r2) := by
  rw [recon]
  simp only [h1, h2]
  split <;> split <;> rfl

/-- the operand of a unary operator is printed in the tightest context, so every binary operand of a
unary operator is parenthesised -/
theorem C06_unary_operand_context (h : List (List Val)) (f : Nat) (n : Name) (parent : Nat) (left : Bool)
    (rest r : List Instr) (e : List B) (h1 : recon h f rest 10 false = some (e, r)) :
    recon h (f + 1) (.callUnary n :: rest) parent left = some (n ++ [32] ++ e, r) := by
  rw [recon]; simp [h1]

/-- array elements are printed in the loosest context: no parentheses are needed inside `[ , ]` -/
theorem C06_array_elements_context (h : List (List Val)) (f : Nat) (rs r : List Instr) (acc : List (List B)) (e : List B)
    (k : Nat) (h1 : recon h f rs 0 false = some (e, r)) :
    reconElems h (f + 1) (k + 1) rs acc = reconElems h f k r (e :: acc) := by
  rw [reconElems]; simp [h1]

/-! ## Non-vacuity / samples -/

-- `str {a + b * c}` = `{ a + b * c }`, `str {(a + b) * c}` = `{ (a + b) * c }`
example : strCode [] 100 [.getVariable [97], .getVariable [98], .getVariable [99],
    .callBinary [42] 7, .callBinary [43] 6] = n!"{ a + b * c }" := by
  simp [strCode, reconAll, recon, joinWith]
example : strCode [] 100 [.getVariable [97], .getVariable [98], .callBinary [43] 6,
    .getVariable [99], .callBinary [42] 7] = n!"{ (a + b) * c }" := by
  simp [strCode, reconAll, recon, joinWith]

end Sqf.Props.C06
