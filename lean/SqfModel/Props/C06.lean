import SqfModel.Print
import SqfModel.Compile
import SqfModel.Lemmas.PrettyCompile
import SqfModel.Props.C01
/-!
# C06 — str / literals round-trip

Theorems about the printing side (`to_string_sqf`, `%g`, `reconstruct`) and the reading side
(`from_sqf`, `stod` on number tokens) of the model.
-/
set_option linter.unusedSimpArgs false
namespace Sqf.Props.C06
open Sqf

/-! ## 1. Strings: every byte string survives quoting and unquoting -/

/-- the quoted body: every `"` doubled -/
def quoteBody (s : List B) : List B := s.flatMap (fun c => if c == 34 then [34, 34] else [c])

theorem renderStr_eq (s : List B) : renderStr s = [34] ++ quoteBody s ++ [34] := rfl

/-- `from_sqf` undoes the doubling for every body and whatever single character terminates it -/
theorem unquote_quoteBody (s : List B) (last : B) : unquoteBody 34 (quoteBody s ++ [last]) = s := by
  induction s with
  | nil => simp [quoteBody, unquoteBody]
  | cons c cs ih =>
    by_cases hc : c = 34
    · subst hc
      have : quoteBody (34 :: cs) ++ [last] = 34 :: 34 :: (quoteBody cs ++ [last]) := by simp [quoteBody]
      rw [this, unquoteBody]
      simp only [beq_self_eq_true, Bool.and_self, if_true]
      rw [ih]
    · have hq : quoteBody (c :: cs) ++ [last] = c :: (quoteBody cs ++ [last]) := by
        simp [quoteBody, hc]
      rw [hq]
      cases hr : quoteBody cs ++ [last] with
      | nil => simp at hr
      | cons d ds =>
        rw [unquoteBody]
        have hne : (c == 34) = false := by simpa using hc
        simp only [hne, Bool.false_and, Bool.false_eq_true, if_false]
        rw [← hr, ih]

/-- **String round trip.** For every byte string `s` (any bytes: quotes, newlines, backslashes, …) the
text `str` prints for it is read back by `from_sqf` as `s`. -/
theorem C06_string_roundtrip (s : List B) : fromSqf (renderStr s) = s := by
  rw [renderStr_eq]
  simp only [fromSqf, List.cons_append, List.nil_append, beq_self_eq_true, Bool.true_or, if_true]
  exact unquote_quoteBody s 34

/-- doubled quotes in a literal denote one quote: `"a""b"` is `a"b` -/
example : fromSqf [34, 97, 34, 34, 98, 34] = [97, 34, 98] := by simp [fromSqf, unquoteBody]

/-! ## 2. Numbers -/

theorem natOfDigits_append (ds : List B) (c : B) : natOfDigits (ds ++ [c]) = natOfDigits ds * 10 + digitVal c := by
  simp [natOfDigits, List.foldl_append]

/-- value of `digits ++ acc` when `acc` is already a digit string -/
theorem foldl_digits (acc : List B) (x : Nat) :
    List.foldl (fun a c => a * 10 + digitVal c) x acc = x * 10 ^ acc.length + natOfDigits acc := by
  induction acc generalizing x with
  | nil => simp [natOfDigits]
  | cons c cs ih =>
    simp only [List.foldl_cons, List.length_cons]
    rw [ih]
    have h0 : natOfDigits (c :: cs) = digitVal c * 10 ^ cs.length + natOfDigits cs := by
      unfold natOfDigits
      simp only [List.foldl_cons, Nat.zero_mul, Nat.zero_add]
      exact ih (digitVal c)
    rw [h0, Nat.pow_succ, Nat.add_mul, Nat.add_assoc, Nat.mul_assoc, Nat.mul_comm 10]

theorem natOfDigits_natDigitsGo (n : Nat) : ∀ acc : List B,
    natOfDigits (natDigitsGo n acc) = n * 10 ^ acc.length + natOfDigits acc := by
  induction n using Nat.strongRecOn with
  | _ n ih =>
    intro acc
    rw [natDigitsGo]
    split
    · next h => subst h; simp
    · next h =>
      rw [ih (n / 10) (Nat.div_lt_self (Nat.pos_of_ne_zero h) (by omega))]
      simp only [List.length_cons]
      have hd : natOfDigits ((48 + n % 10) :: acc) = (n % 10) * 10 ^ acc.length + natOfDigits acc := by
        rw [natOfDigits]
        simp only [List.foldl_cons]
        rw [foldl_digits]
        simp [digitVal]
      rw [hd, Nat.pow_succ]
      have := Nat.div_add_mod n 10
      calc n / 10 * (10 ^ acc.length * 10) + (n % 10 * 10 ^ acc.length + natOfDigits acc)
          = (10 * (n / 10) + n % 10) * 10 ^ acc.length + natOfDigits acc := by
            rw [Nat.add_mul, ← Nat.add_assoc]; congr 1; congr 1
            rw [Nat.mul_comm (10 ^ acc.length) 10, ← Nat.mul_assoc, Nat.mul_comm (n / 10) 10]
        _ = n * 10 ^ acc.length + natOfDigits acc := by rw [this]

/-- **Integer literals denote what they spell**: the decimal digits of `n` are read back as `n` -/
theorem C06_digits_roundtrip (n : Nat) : natOfDigits (natDigits n) = n := by
  unfold natDigits
  split
  · next h => subst h; rfl
  · rw [natOfDigits_natDigitsGo]; simp [natOfDigits]

/-! ## 3. Code: where `reconstruct` puts parentheses -/

/-- a binary operation is parenthesised exactly when its context binds at least as tightly:
as left operand when the parent's precedence is higher, otherwise when it is higher or equal -/
theorem C06_binary_parens (h : List (List Val)) (f : Nat) (n : Name) (prec parent : Nat) (left : Bool)
    (rest r1 r2 : List Instr) (re le : List B)
    (h1 : recon h f rest prec false = some (re, r1)) (h2 : recon h f r1 prec true = some (le, r2)) :
    recon h (f + 1) (.callBinary n prec :: rest) parent left =
      some (if (if left then decide (parent > prec) else decide (parent ≥ prec))
              then [40] ++ (le ++ [32] ++ n ++ [32] ++ re) ++ [41] else le ++ [32] ++ n ++ [32] ++ re, r2) := by
  rw [recon]
  simp only [h1, h2]
  split <;> split <;> rfl

/-- the operand of a unary operator is printed in the tightest context, so every binary operand of a
unary operator is parenthesised -/
theorem C06_unary_operand_context (h : List (List Val)) (f : Nat) (n : Name) (parent : Nat) (left : Bool)
    (rest r : List Instr) (e : List B) (h1 : recon h f rest 10 false = some (e, r)) :
    recon h (f + 1) (.callUnary n :: rest) parent left = some (n ++ [32] ++ e, r) := by
  rw [recon]; simp [h1]

/-- array elements are printed in the loosest context: no parentheses are needed inside `[ , ]` -/
theorem C06_array_elements_context (h : List (List Val)) (f : Nat) (rs r : List Instr) (acc : List (List B)) (e : List B)
    (k : Nat) (h1 : recon h f rs 0 false = some (e, r)) :
    reconElems h (f + 1) (k + 1) rs acc = reconElems h f k r (e :: acc) := by
  rw [reconElems]; simp [h1]

/-! ## Signs in front of number literals belong to the literal

`str` prints the push of a negative number as `-279`; that text is a sign in front of a NUMBER token. For the recompiled
code to be instruction-for-instruction equal, the compiler must fold every chain of signs in front of a number literal
into one push (repo fix `7ae19aa`: `- + 279` used to compile to a push and a call). -/

/-- a chain of unary operators in front of a tree -/
def signChain : List Name → Ast → Ast
  | [], a => a
  | n :: ns, a => .unary n (signChain ns a)

/-- what the chain does to the number -/
def applySigns : List Name → Val → Val
  | [], v => v
  | n :: ns, v => if n == [45] then negateVal (applySigns ns v) else applySigns ns v

theorem applySigns_scalar (ns : List Name) (v : Val) (hv : (∃ d, v = .num d) ∨ v = .nan) :
    (∃ d, applySigns ns v = .num d) ∨ applySigns ns v = .nan := by
  induction ns with
  | nil => exact hv
  | cons n ns ih =>
    simp only [applySigns]
    split
    · rcases ih with ⟨d, hd⟩ | hn
      · exact Or.inl ⟨d.negate, by rw [hd]; rfl⟩
      · exact Or.inr (by rw [hn]; rfl)
    · exact ih

theorem valOfNumberText_scalar (t : Name) : (∃ d, valOfNumberText t = .num d) ∨ valOfNumberText t = .nan := by
  unfold valOfNumberText
  simp only []
  split
  · exact Or.inr rfl
  · exact Or.inl ⟨_, rfl⟩

/-- **every non-empty chain of signs in front of a number literal compiles to the push of one number**: the literal with
the signs applied — never to a call -/
theorem C06_sign_chain_folds (ns : List Name) (hne : ns ≠ []) (hs : ∀ n ∈ ns, isSign n = true) (t : Name) :
    compile (signChain ns (.leaf (.num t))) = [.push (applySigns ns (valOfNumberText t))] := by
  induction ns with
  | nil => exact absurd rfl hne
  | cons n ns ih =>
    have hn : isSign n = true := hs n (List.mem_cons_self ..)
    cases ns with
    | nil =>
      simp only [signChain, applySigns]
      rw [compile]
      have : n = [45] ∨ n = [43] := by
        simp only [isSign, Bool.or_eq_true, beq_iff_eq] at hn
        rcases hn with h | h
        · exact Or.inr h
        · exact Or.inl h
      rcases this with h | h
      · subst h; simp
      · subst h; simp
    | cons m rest =>
      have hm : isSign m = true := hs m (List.mem_cons_of_mem _ (List.mem_cons_self ..))
      have ih' := ih (by simp) (fun x hx => hs x (List.mem_cons_of_mem _ hx))
      simp only [signChain] at ih' ⊢
      have hcons : applySigns (n :: m :: rest) (valOfNumberText t) =
          if n == [45] then negateVal (applySigns (m :: rest) (valOfNumberText t)) else applySigns (m :: rest) (valOfNumberText t) := rfl
      rw [hcons]
      have hsc := applySigns_scalar (m :: rest) (valOfNumberText t) (valOfNumberText_scalar t)
      generalize applySigns (m :: rest) (valOfNumberText t) = w at ih' hsc ⊢
      rw [compile]
      simp only [hn, hm, Bool.and_self, if_true]
      rw [ih']
      rcases hsc with ⟨d, hd⟩ | hnan
      · subst hd
        by_cases h45 : n = [45]
        · subst h45; simp [negateVal]
        · have h45' : (n == [45]) = false := by simpa using h45
          simp [h45', h45]
      · subst hnan
        by_cases h45 : n = [45]
        · subst h45; simp [negateVal]
        · have h45' : (n == [45]) = false := by simpa using h45
          simp [h45']

/-- the chain the thorough tier found: `- + 279` is the single push of −279 -/
example : compile (signChain [[45], [43]] (.leaf (.num n!"279"))) = [.push (applySigns [[45], [43]] (valOfNumberText n!"279"))] :=
  C06_sign_chain_folds _ (by simp) (by simp [isSign]) _

/-! ## The CLI pretty printer (`sqf_formatter.cpp`)

`Pretty.prettyText` is the model of the bytes `prettify` writes (compared byte for byte with the implementation);
`Pretty.prettyD` is the same output at token level. The printer lower-cases operator names and respells `$ff` as `0xff`:
its text is that of the normal form `norm` of the tree. -/

section PrettyPrinter
open Sqf.Pretty

/-- **the parentheses the pretty printer re-emits are enough**: for every statement list (any size, any nesting) whose
operators have tokens, the parser reads the printed token sequence back as exactly the tree that was printed -/
theorem C06_pretty_parens_suffice (tk : Name → PTok) (ss : List Ast) (h : GoodStmts tk ss) :
    ∃ f, ∀ f', f ≤ f' → pStatements f' (skipSeps (prettyProgram tk ss).toks) = some (ss, [.eof]) := by
  have := Sqf.Props.C01.C01_parse_render (prettyProgram tk ss) (prettyProgram_WP tk ss h)
  rwa [prettyProgram_erase] at this

/-- the same for the parser run with the driver's fuel: it can only produce the printed tree -/
theorem C06_pretty_reads_back (tk : Name → PTok) (ss : List Ast) (h : GoodStmts tk ss) (x : List Ast)
    (hx : parseToks (prettyProgram tk ss).toks = some x) : x = ss := by
  have := Sqf.Props.C01.C01_parse_render_driver (prettyProgram tk ss) (prettyProgram_WP tk ss h) x hx
  rwa [prettyProgram_erase] at this

/-- the text written for a tree is the text written for its normal form -/
theorem C06_pretty_text_normal_form (ss : List Ast) : prettyFile (normList ss) = prettyFile ss :=
  prettyFile_norm ss

/-- the normal form compiles to the same instructions -/
theorem C06_pretty_normal_form_same_code (ss : List Ast) : compileStmts (normList ss) = compileStmts ss :=
  compileStmts_norm ss

/-- **pretty-printed code compiles to the same instruction sequence** (token level): whatever the parser reads from the
tokens of the printed normal form compiles to the instructions of the original statements -/
theorem C06_pretty_same_instructions (tk : Name → PTok) (ss : List Ast) (h : GoodStmts tk (normList ss)) (x : List Ast)
    (hx : parseToks (prettyProgram tk (normList ss)).toks = some x) : compileStmts x = compileStmts ss := by
  rw [C06_pretty_reads_back tk (normList ss) h x hx]
  exact compileStmts_norm ss

/-- the same with the hypothesis in executable form: `goodStmtsB` is evaluated by the model driver on the parse of every
generated program (`prettytie`), so for each of them this theorem applies as it stands -/
theorem C06_pretty_same_instructions_checked (tk : Name → PTok) (ss : List Ast) (h : goodStmtsB tk (normList ss) = true)
    (x : List Ast) (hx : parseToks (prettyProgram tk (normList ss)).toks = some x) : compileStmts x = compileStmts ss :=
  C06_pretty_same_instructions tk ss (goodStmtsB_sound tk _ h) x hx

/-- **text level, canonical spacing**: the printed token sequence written with one blank behind every token is read back
— tokenizer, `yylex` classification, parser — as the normal form of the printed statements, which compiles to the
instructions of the original. (The printer's own spacing — no blank behind `(`, `[`, in front of `)`, `]`, `,`, `;`, line
breaks and indentation — is covered by the driver's per-program comparison `tokens=agree`, not by this theorem.) -/
theorem C06_pretty_text_canonical_spacing (reg : Registry) (tk : Name → PTok) (ss : List Ast)
    (h : GoodStmts tk (normList ss))
    (hl : ∀ t ∈ (prettyProgram tk (normList ss)).lead ++ D.toksSeq (prettyProgram tk (normList ss)).stmts,
      Sqf.LexRound.lexable reg t = true) :
    (∃ f, ∀ f', f ≤ f' → pStatements f' (skipSeps (ptoks reg (Sqf.Props.C01.progText (prettyProgram tk (normList ss))))) =
      some (normList ss, [.eof])) ∧ compileStmts (normList ss) = compileStmts ss := by
  refine ⟨?_, compileStmts_norm ss⟩
  have := Sqf.Props.C01.C01_parse_render_text reg (prettyProgram tk (normList ss)) (prettyProgram_WP tk _ h) hl
  rwa [prettyProgram_erase] at this

/-- a registry for the sample below: `+` binary (level 6) and unary, `*` binary (level 7), `hint` unary -/
def sampleTk (n : Name) : PTok :=
  if n == [43] then .op .bu 6 n else if n == [42] then .op .b 7 n else if n == n!"hint" then .opU n else .ident n

/-- the premises are met by a tree that needs parentheses on both sides: `hint ((a + b) * (c * d))`, `x = [a, {b;}]` -/
example : GoodStmts sampleTk
    [.unary n!"hint" (.binary 7 [42] (.binary 6 [43] (.leaf (.ident [97])) (.leaf (.ident [98])))
                                      (.binary 7 [42] (.leaf (.ident [99])) (.leaf (.ident [100])))),
     .assign (.leaf (.ident [120])) (.array [.leaf (.ident [97]), .code [.leaf (.ident [98])]])] := by
  simp [GoodStmts, Good, GoodElems, isExprA, isLeafA, sampleTk, unTok, leafTok, D.unOfTok, D.binOfTok, D.leafOfTok, kwPrivate, top]

end PrettyPrinter

/-! ## Non-vacuity / samples -/

-- `str {a + b * c}` = `{ a + b * c }`, `str {(a + b) * c}` = `{ (a + b) * c }`
example : strCode [] 100 [.getVariable [97], .getVariable [98], .getVariable [99],
    .callBinary [42] 7, .callBinary [43] 6] = n!"{ a + b * c }" := by
  simp [strCode, reconAll, recon, joinWith]
example : strCode [] 100 [.getVariable [97], .getVariable [98], .callBinary [43] 6,
    .getVariable [99], .callBinary [42] 7] = n!"{ (a + b) * c }" := by
  simp [strCode, reconAll, recon, joinWith]

end Sqf.Props.C06
