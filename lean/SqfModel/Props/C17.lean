import SqfModel.Pbo
/-!
# C17 — PBO archives are read faithfully; damaged ones are rejected safely

* **Round trip** (`C17_roundtrip`, `C17_entry_bytes`): for every well-formed archive — any properties,
  any number of entries with any names (non-empty, no NUL), sizes including empty, any binary content, any
  trailer (checksum) — the reader reports exactly the stored properties and entries, and every entry's
  bytes are exactly the packed content.
* **Safety** (`C17_exposed_inside`, `C17_bytes_bounded`, totality): for *every* byte string — truncated,
  corrupted, random — `parse` returns an archive or rejects; every entry it exposes lies completely inside
  the file, and what a reader returns is never longer than the entry's size nor than the file.
-/
set_option linter.unusedSimpArgs false
set_option linter.unusedVariables false
namespace Sqf.Props.C17
open Sqf Sqf.Pbo

/-! ## Reading back what the packer wrote -/

theorem readString_cstr (s r : List B) (h : ∀ c ∈ s, c ≠ 0) : readString (cstr s ++ r) = some (s, r) := by
  induction s with
  | nil => simp [cstr, readString]
  | cons c cs ih =>
    have hc : c ≠ 0 := h c (by simp)
    have h2 := ih (fun x hx => h x (by simp [hx]))
    have e : cstr (c :: cs) ++ r = c :: (cstr cs ++ r) := by simp [cstr]
    rw [e, readString]
    simp only [hc, if_false, h2]

theorem readU32_u32 (n : Nat) (r : List B) (h : n < 4294967296) : readU32 (u32 n ++ r) = some (n, r) := by
  simp only [u32, List.cons_append, List.nil_append, readU32]
  congr 1
  congr 1
  omega

theorem readRec_packRec (m o rv t sz : Nat) (r : List B)
    (hm : m < 4294967296) (ho : o < 4294967296) (hrv : rv < 4294967296) (ht : t < 4294967296) (hsz : sz < 4294967296) :
    readRec (packRec m o rv t sz ++ r) =
      some ({ method := m, origSize := o, reserved := rv, timestamp := t, size := sz }, r) := by
  unfold readRec packRec
  simp only [List.append_assoc]
  rw [readU32_u32 m _ hm]
  simp only []
  rw [readU32_u32 o _ ho]
  simp only []
  rw [readU32_u32 rv _ hrv]
  simp only []
  rw [readU32_u32 t _ ht]
  simp only []
  rw [readU32_u32 sz _ hsz]

/-- well-formed property: non-empty key, no NUL in key or value -/
def PropOk (p : List B × List B) : Prop := p.1 ≠ [] ∧ (∀ c ∈ p.1, c ≠ 0) ∧ (∀ c ∈ p.2, c ≠ 0)

/-- well-formed item: non-empty name without NUL, fields and size fit 32 bits -/
def ItemOk (it : Item) : Prop :=
  it.name ≠ [] ∧ (∀ c ∈ it.name, c ≠ 0) ∧ it.method < 4294967296 ∧ it.timestamp < 4294967296 ∧ it.content.length < 4294967296

theorem readProps_packProps (props : List (List B × List B)) (hok : ∀ p ∈ props, PropOk p) (r : List B) :
    ∀ fuel, props.length < fuel → readProps fuel (packProps props ++ r) = some (props, r) := by
  induction props with
  | nil =>
    intro fuel hf
    obtain ⟨f, rfl⟩ : ∃ f, fuel = f + 1 := ⟨fuel - 1, by omega⟩
    simp [packProps, readProps, readString]
  | cons p rest ih =>
    intro fuel hf
    obtain ⟨f, rfl⟩ : ∃ f, fuel = f + 1 := ⟨fuel - 1, by omega⟩
    obtain ⟨k, v⟩ := p
    have hp : PropOk (k, v) := hok (k, v) (by simp)
    have e : packProps ((k, v) :: rest) ++ r = cstr k ++ (cstr v ++ (packProps rest ++ r)) := by
      simp [packProps, List.append_assoc]
    rw [e, readProps, readString_cstr k _ hp.2.1]
    have hne : k.isEmpty = false := by
      cases k with
      | nil => exact absurd rfl hp.1
      | cons _ _ => rfl
    simp only [hne, Bool.false_eq_true, if_false]
    rw [readString_cstr v _ hp.2.2]
    simp only []
    rw [ih (fun q hq => hok q (by simp [hq])) f (by simp at hf; omega)]

/-- the header records the packer writes for the items -/
def recsOf : List Item → List (List B × Rec)
  | [] => []
  | it :: rest => (it.name, { method := it.method, origSize := it.content.length, reserved := 0, timestamp := it.timestamp,
                              size := it.content.length }) :: recsOf rest

theorem readEntries_packHeaders (items : List Item) (hok : ∀ it ∈ items, ItemOk it) (r : List B) :
    ∀ fuel, items.length < fuel → readEntries fuel (packHeaders items ++ r) = some (recsOf items, r) := by
  induction items with
  | nil =>
    intro fuel hf
    obtain ⟨f, rfl⟩ : ∃ f, fuel = f + 1 := ⟨fuel - 1, by omega⟩
    have e : packHeaders [] ++ r = cstr [] ++ (packRec 0 0 0 0 0 ++ r) := by simp [packHeaders, List.append_assoc]
    rw [e, readEntries, readHeader, readString_cstr [] _ (by simp)]
    simp only []
    rw [readRec_packRec 0 0 0 0 0 r (by decide) (by decide) (by decide) (by decide) (by decide)]
    simp [recsOf]
  | cons it rest ih =>
    intro fuel hf
    obtain ⟨f, rfl⟩ : ∃ f, fuel = f + 1 := ⟨fuel - 1, by omega⟩
    have hi : ItemOk it := hok it (by simp)
    have e : packHeaders (it :: rest) ++ r =
        cstr it.name ++ (packRec it.method it.content.length 0 it.timestamp it.content.length ++ (packHeaders rest ++ r)) := by
      simp [packHeaders, List.append_assoc]
    rw [e, readEntries, readHeader, readString_cstr it.name _ hi.2.1]
    simp only []
    rw [readRec_packRec _ _ _ _ _ _ hi.2.2.1 hi.2.2.2.2 (by decide) hi.2.2.2.1 hi.2.2.2.2]
    have hne : it.name.isEmpty = false := by
      cases hn : it.name with
      | nil => exact absurd hn hi.1
      | cons _ _ => rfl
    simp only [hne, Bool.false_eq_true, if_false]
    rw [ih (fun q hq => hok q (by simp [hq])) f (by simp at hf; omega)]
    simp [recsOf]

/-! ## Layout of the data blocks -/

/-- the entries the reader must report for the items, with the data starting at `off` -/
def expected : Nat → List Item → List Entry
  | _, [] => []
  | off, it :: rest =>
    { name := it.name, method := it.method, origSize := it.content.length, reserved := 0, timestamp := it.timestamp,
      size := it.content.length, dataStart := off } :: expected (off + it.content.length) rest

theorem layout_recsOf (items : List Item) : ∀ off, layout off (recsOf items) = expected off items := by
  induction items with
  | nil => intro off; rfl
  | cons it rest ih => intro off; simp [recsOf, layout, expected, ih]

theorem packData_length (items : List Item) : (packData items).length = (items.map (fun it => it.content.length)).sum := by
  induction items with
  | nil => rfl
  | cons it rest ih => simp [packData, ih]

theorem expected_inside (items : List Item) : ∀ off e, e ∈ expected off items → e.dataStart + e.size ≤ off + (packData items).length := by
  induction items with
  | nil => intro off e he; cases he
  | cons it rest ih =>
    intro off e he
    simp only [expected, List.mem_cons] at he
    rcases he with he | he
    · subst he; simp [packData]
    · have := ih _ e he
      simp only [packData, List.length_append]
      omega

/-- the bytes at an entry's block are the item's content -/
theorem expected_bytes (pre trailer : List B) (items : List Item) :
    ∀ (done : List B) (i : Nat) (e : Entry) (it : Item), (expected (pre.length + done.length) items)[i]? = some e → items[i]? = some it →
      entryBytes (pre ++ done ++ packData items ++ trailer) e = it.content := by
  induction items with
  | nil => intro done i e it he; simp [expected] at he
  | cons x rest ih =>
    intro done i e it he hit
    cases i with
    | zero =>
      simp only [expected, List.getElem?_cons_zero, Option.some.injEq] at he hit
      subst he; subst hit
      unfold entryBytes
      simp only [packData]
      have e1 : pre ++ done ++ (x.content ++ packData rest) ++ trailer = (pre ++ done) ++ (x.content ++ (packData rest ++ trailer)) := by
        simp [List.append_assoc]
      rw [e1]
      have hl : (pre ++ done).length = pre.length + done.length := by simp
      rw [← hl, List.drop_left, List.take_left]
    | succ j =>
      simp only [expected, List.getElem?_cons_succ] at he hit
      have := ih (done ++ x.content) j e it (by simpa [Nat.add_assoc] using he) hit
      simpa [packData, List.append_assoc] using this

/-! ## The round trip -/

/-- the part of a packed file in front of the data blocks -/
def front (props : List (List B × List B)) (items : List Item) : List B :=
  cstr [] ++ packRec methodVers 0 0 0 0 ++ packProps props ++ packHeaders items

theorem pack_eq (props : List (List B × List B)) (items : List Item) (trailer : List B) :
    pack props items trailer = front props items ++ packData items ++ trailer := by
  simp [pack, front, List.append_assoc]

theorem packProps_length (props : List (List B × List B)) : props.length < (packProps props).length := by
  induction props with
  | nil => simp [packProps]
  | cons p rest ih => obtain ⟨k, v⟩ := p; simp [packProps, cstr]; omega

theorem packHeaders_length (items : List Item) : items.length < (packHeaders items).length := by
  induction items with
  | nil => simp [packHeaders, cstr]
  | cons it rest ih => simp [packHeaders, cstr]; omega

/-- **Faithful listing.** For every well-formed archive the reader reports exactly the stored
properties and, for every item, an entry with its name, method, timestamp and size, in order — whatever
follows the data (checksum) — and none is dropped. -/
theorem C17_roundtrip (props : List (List B × List B)) (items : List Item) (trailer : List B)
    (hp : ∀ p ∈ props, PropOk p) (hi : ∀ it ∈ items, ItemOk it) :
    parse (pack props items trailer) =
      some { props := props, entries := expected (front props items).length items } := by
  have hfile : pack props items trailer =
      cstr [] ++ (packRec methodVers 0 0 0 0 ++ (packProps props ++ (packHeaders items ++ (packData items ++ trailer)))) := by
    simp [pack, List.append_assoc]
  unfold parse
  rw [hfile, readHeader, readString_cstr [] _ (by simp)]
  simp only []
  rw [readRec_packRec methodVers 0 0 0 0 _ (by decide) (by decide) (by decide) (by decide) (by decide)]
  simp only []
  rw [← hfile]
  have hlen1 : props.length < (pack props items trailer).length + 1 := by
    have := packProps_length props
    rw [hfile]; simp only [List.length_append]; omega
  rw [readProps_packProps props hp _ _ hlen1]
  simp only []
  have hlen2 : items.length < (pack props items trailer).length + 1 := by
    have := packHeaders_length items
    rw [hfile]; simp only [List.length_append]; omega
  rw [readEntries_packHeaders items hi _ _ hlen2]
  simp only []
  have hoff : (pack props items trailer).length - (packData items ++ trailer).length = (front props items).length := by
    rw [pack_eq]; simp only [List.length_append]; omega
  rw [hoff, layout_recsOf]
  congr 1
  congr 1
  apply List.filter_eq_self.mpr
  intro e he
  have := expected_inside items _ e he
  simp only [decide_eq_true_eq]
  rw [pack_eq]
  simp only [List.length_append]
  omega

/-- **Faithful content.** Every entry's bytes, as a reader returns them, are exactly the packed content
(binary content, empty files included). -/
theorem C17_entry_bytes (props : List (List B × List B)) (items : List Item) (trailer : List B) (i : Nat) (it : Item) (e : Entry)
    (he : (expected (front props items).length items)[i]? = some e) (hit : items[i]? = some it) :
    entryBytes (pack props items trailer) e = it.content := by
  rw [pack_eq]
  have := expected_bytes (front props items) trailer items [] i e it (by simpa using he) hit
  simpa using this

/-! ## Safety on arbitrary bytes -/

/-- `parse` is a total function: any byte string is accepted or rejected (no other outcome exists), and
every entry it exposes lies completely inside the file -/
theorem C17_exposed_inside (file : List B) (a : Archive) (h : parse file = some a) :
    ∀ e ∈ a.entries, e.dataStart + e.size ≤ file.length := by
  unfold parse at h
  split at h
  · cases h
  · split at h
    · cases h
    · split at h
      · cases h
      · simp only [Option.some.injEq] at h
        subst h
        intro e he
        simp only [List.mem_filter, decide_eq_true_eq] at he
        exact he.2

/-- what a reader hands out is never more than the entry's size, and never more than the file holds -/
theorem C17_bytes_bounded (file : List B) (e : Entry) :
    (entryBytes file e).length ≤ e.size ∧ (entryBytes file e).length ≤ file.length := by
  unfold entryBytes
  simp only [List.length_take, List.length_drop]
  omega

/-- an exposed entry is delivered completely -/
theorem C17_exposed_complete (file : List B) (a : Archive) (h : parse file = some a) (e : Entry) (he : e ∈ a.entries) :
    (entryBytes file e).length = e.size := by
  have := C17_exposed_inside file a h e he
  unfold entryBytes
  simp only [List.length_take, List.length_drop]
  omega

/-- a file that ends before the version record, or inside a string, is rejected -/
example : parse [] = none := by decide
example : parse [0, 1, 2, 3] = none := by decide
example : parse (n!"abc") = none := by decide

/-! ## Non-vacuity: a concrete archive -/

def sampleProps : List (List B × List B) := [(n!"prefix", n!"x\\addons\\a")]
def sampleItems : List Item := [{ name := n!"a.sqf", content := n!"1 + 1" }, { name := n!"dir\\empty.bin", content := [] },
  { name := n!"b.bin", method := 0, timestamp := 77, content := [0, 255, 0, 10] }]

example : (parse (pack sampleProps sampleItems [0, 1, 2])).map (fun a => a.entries.map (·.name)) =
    some [n!"a.sqf", n!"dir\\empty.bin", n!"b.bin"] := by decide +kernel
example : (parse (pack sampleProps sampleItems [])).bind (fun a => a.read (pack sampleProps sampleItems []) n!"b.bin") =
    some [0, 255, 0, 10] := by decide +kernel
-- the same archive cut in the middle of the last data block exposes only the intact entries
example : (parse ((pack sampleProps sampleItems []).dropLast)).map (fun a => a.entries.map (·.name)) =
    some [n!"a.sqf", n!"dir\\empty.bin"] := by decide +kernel

end Sqf.Props.C17
