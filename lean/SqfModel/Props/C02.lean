import SqfModel.Lemmas.StackInv
import SqfModel.Props.C05
/-!
# C02 — control structures execute the statements SQF semantics prescribe

Decision-logic theorems about the VM model: for every construct, which frame is pushed / which
iteration comes next / when the construct ends, for *all* states, arrays, bounds and counters.
The composition of these steps into whole programs is validated against the structured reference
interpreter (`gen/sqfast.py`) by the check; see DESIGN.md for what is proved and what is compared.
-/
set_option linter.unusedSimpArgs false
namespace Sqf.Props.C02
open Sqf Sqf.VM

/-! ## if / then / else, lazy && and || -/

/-- `if c then {A}`: the block runs iff the condition is true; otherwise the construct yields nil -/
theorem C02_then_code (b : Bool) (c : List Instr) (m : M) :
    bop_then (.ifv b) (.code c) m =
      if b then some (m, [.pushFrame { mkFrame c with globals := curNs m }], .nil) else some (m, [], .nil) := by
  simp [bop_then, frame', pure']

/-- `if c then {A} else {B}`: exactly one of the two blocks runs, chosen by the condition -/
theorem C02_then_else (b : Bool) (id : Nat) (c0 c1 : List Instr) (m : M) (h : m.arr id = [.code c0, .code c1]) :
    bop_then (.ifv b) (.ref id) m =
      some (m, [.pushFrame { mkFrame (if b then c0 else c1) with globals := curNs m }], .nil) := by
  cases b <;> simp [bop_then, h, nth, frame', pure']

/-- `else` just pairs the two blocks -/
theorem C02_else_pairs (c0 c1 : List Instr) (m : M) :
    bop_else (.code c0) (.code c1) m =
      some ((m.alloc [.code c0, .code c1]).1, [], .ref m.heap.length) := by
  simp [bop_else, pure', M.alloc]

/-- lazy `&&`: the right side is evaluated only when the left side is true -/
theorem C02_lazy_and (a : Bool) (c : List Instr) (m : M) :
    bop__26_26 (.bool a) (.code c) m =
      if a then some (m, [.pushFrame { mkFrame c with globals := curNs m }], .nil) else some (m, [], .bool false) := by
  simp [bop__26_26, frame', pure']

/-- lazy `||`: the right side is evaluated only when the left side is false -/
theorem C02_lazy_or (a : Bool) (c : List Instr) (m : M) :
    bop__7c_7c (.bool a) (.code c) m =
      if a then some (m, [], .bool true) else some (m, [.pushFrame { mkFrame c with globals := curNs m }], .nil) := by
  simp [bop__7c_7c, frame', pure']

/-! ## while -/

/-- condition true: the body runs next (with a fresh scope and an empty region) -/
theorem C02_while_true (loops : Nat) (cond code : List Instr) (m : M) (hne : code ≠ []) :
    behDecide (.whileB false loops cond code) (some (.bool true)) m =
      ([.clearV, .setVars []], .whileB true loops cond code, .exchange code, false) := by
  simp [behDecide, hne]

/-- condition false: the loop ends -/
theorem C02_while_false (loops : Nat) (cond code : List Instr) (m : M) :
    (behDecide (.whileB false loops cond code) (some (.bool false)) m).2.2.1 = .ok := by
  simp [behDecide]

/-- after the body the condition is evaluated again (scheduled code: no cap) -/
theorem C02_while_body_end (loops : Nat) (cond code : List Instr) (m : M) (hs : m.ctx.canSuspend = true) :
    behDecide (.whileB true loops cond code) none m =
      ([.clearV, .setVars []], .whileB false loops cond code, .exchange cond, false) := by
  simp [behDecide, hs]

/-! ## for -/

/-- one `for` step with a non-negative step: the variable advances by `step` while it does not pass
`to`, and the loop ends exactly when the next value would exceed `to` -/
theorem C02_for_step (var : Name) (to step v : Dec) (m : M) (f : Frame)
    (htop : m.top? = some f) (hv : varsGet f.vars var = some (.num v)) (hpos : (step.neg && step.mant != 0) = false) :
    behDecide (.forB var to step) none m =
      if Dec.lt to (Dec.add v step) then ([.touchVar var], .forB var to step, .ok, false)
      else ([.clearV, .setVars [(lower var, .num (Dec.add v step))]], .forB var to step, .seekStart, false) := by
  simp [behDecide, htop, hv, hpos]

/-- … and with a negative step it ends exactly when the next value would fall below `to` -/
theorem C02_for_step_neg (var : Name) (to step v : Dec) (m : M) (f : Frame)
    (htop : m.top? = some f) (hv : varsGet f.vars var = some (.num v)) (hneg : (step.neg && step.mant != 0) = true) :
    behDecide (.forB var to step) none m =
      if Dec.lt (Dec.add v step) to then ([.touchVar var], .forB var to step, .ok, false)
      else ([.clearV, .setVars [(lower var, .num (Dec.add v step))]], .forB var to step, .seekStart, false) := by
  simp [behDecide, htop, hv, hneg]

/-! ## forEach / count / select / apply / findIf: one iteration per element, in order -/

/-- while elements remain, `forEach` restarts its frame with `_x` and `_forEachIndex` bound to the
next element; after the last element — or when the code has shortened the array below the next index — it ends -/
theorem C02_forEach_next (arr idx : Nat) (m : M) :
    behDecide (.forEach arr idx (m.arr arr).length) none m =
      if (m.arr arr).length ≤ idx + 1 then ([], .forEach arr (idx + 1) (m.arr arr).length, .ok, false)
      else ([.clearV, .setVars [(n!"_foreachindex", num (idx + 1)), (n!"_x", nth (m.arr arr) (idx + 1))]],
            .forEach arr (idx + 1) (m.arr arr).length, .seekStart, false) := by
  simp only [behDecide, resizeActs, iterNext]
  by_cases h2 : (m.arr arr).length ≤ idx + 1
  · simp [h2]
  · simp [h2]

/-- number of times `forEach` restarts its frame from index `idx` on: all remaining elements -/
def forEachRestarts (size : Nat) : Nat → Nat → Nat
  | 0, _ => 0
  | fuel + 1, idx => if idx + 1 < size then 1 + forEachRestarts size fuel (idx + 1) else 0

/-- the body runs exactly once per element (the first run is the frame push itself) -/
theorem C02_forEach_count (size : Nat) : ∀ idx, idx < size → forEachRestarts size size idx = size - 1 - idx := by
  intro idx
  -- generalise the fuel
  suffices h : ∀ fuel idx, idx < size → size - idx ≤ fuel → forEachRestarts size fuel idx = size - 1 - idx from
    fun hlt => h size idx hlt (by omega)
  intro fuel
  induction fuel with
  | zero => intro idx h1 h2; omega
  | succ fuel ih =>
    intro idx h1 h2
    unfold forEachRestarts
    by_cases hlt : idx + 1 < size
    · rw [if_pos hlt, ih (idx + 1) hlt (by omega)]; omega
    · rw [if_neg hlt]; omega

/-- `count` adds one exactly for the elements whose block yields true -/
theorem C02_count_step (arr idx cnt : Nat) (t : Bool) (m : M) (hlt : idx + 1 < (m.arr arr).length) :
    behDecide (.count arr idx (m.arr arr).length cnt) (some (.bool t)) m =
      ([.clearV, .setVars [(n!"_x", nth (m.arr arr) (idx + 1))]],
       .count arr (idx + 1) (m.arr arr).length (if t then cnt + 1 else cnt), .seekStart, false) := by
  have h1 : ¬ idx + 1 = (m.arr arr).length := by omega
  have h2 : ¬ (m.arr arr).length ≤ idx + 1 := by omega
  simp [behDecide, resizeActs, iterNext, h1, h2]

/-- … and yields the number counted after the last element -/
theorem C02_count_end (arr idx cnt : Nat) (t : Bool) (m : M) (hend : idx + 1 = (m.arr arr).length) :
    behDecide (.count arr idx (m.arr arr).length cnt) (some (.bool t)) m =
      ([.pushV (num (if t then cnt + 1 else cnt))],
       .count arr (idx + 1) (m.arr arr).length (if t then cnt + 1 else cnt), .ok, false) := by
  simp [behDecide, resizeActs, hend]

/-- `findIf` stops at the first element whose block yields true and yields its index -/
theorem C02_findIf_hit (arr idx size : Nat) (m : M) :
    behDecide (.findIf arr idx size) (some (.bool true)) m = ([.pushV (num idx)], .findIf arr idx size, .ok, false) := by
  simp [behDecide]

/-- `apply` collects the block's value for the current element -/
theorem C02_apply_collects (arr idx : Nat) (out : List Val) (v : Val) (m : M) (hend : idx + 1 = (m.arr arr).length) :
    behDecide (.apply arr out idx (m.arr arr).length) (some v) m =
      ([.pushNewArr (out ++ [v])], .apply arr (out ++ [v]) (idx + 1) (m.arr arr).length, .ok, false) := by
  simp [behDecide, resizeActs, hend]

/-- `select {…}` keeps exactly the elements whose block yields true -/
theorem C02_select_keeps (arr idx : Nat) (out : List Val) (t : Bool) (m : M)
    (hend : idx + 1 = (m.arr arr).length) :
    (behDecide (.select arr out idx (m.arr arr).length) (some (.bool t)) m).1 =
      [.pushNewArr (if t then out ++ [nth (m.arr arr) idx] else out)] := by
  have hidx : ¬ (m.arr arr).length ≤ idx := by omega
  cases t <;> simp [behDecide, resizeActs, hend, hidx]

/-! ## switch: first matching case wins, default only without a match -/

/-- once a case has matched, later `:` blocks are ignored -/
theorem C02_switch_first_match_wins (v : Val) (mn : Bool) (tgt c : List Instr) (sv : Val) (m : M) (f : Frame)
    (hget : m.ctx.getVar switchMagic = some (.sw v mn true tgt)) (htop : m.top? = some f) :
    bop__3a (.sw sv false false []) (.code c) m = some (m, [], .nil) := by
  simp [bop__3a, hget, htop, pure']

/-- `default` does not replace the block of a case that has matched -/
theorem C02_default_after_match (v : Val) (mn : Bool) (tgt c : List Instr) (m : M)
    (hget : m.ctx.getVar switchMagic = some (.sw v mn true tgt)) :
    uop_default (.code c) m =
      some (m, [.setFrames (setWhereFound m.ctx.frames switchMagic (.sw v mn true tgt))], .nil) := by
  simp [uop_default, hget]

/-- a matching `case … :` records its block, marks the switch as matched and ends the switch body -/
theorem C02_switch_match (v : Val) (tgt c : List Instr) (sv : Val) (m : M) (f : Frame)
    (hget : m.ctx.getVar switchMagic = some (.sw v true false tgt)) (htop : m.top? = some f) :
    ∃ fs, bop__3a (.sw sv false false []) (.code c) m = some (m, [.setFrames fs], .nil) ∧
      (∀ g rest, fs = g :: rest → g.pc = g.code.length + 1) ∧
      fs.length = (setWhereFound m.ctx.frames switchMagic (.sw v false true c)).length := by
  simp only [bop__3a, hget, htop, Bool.not_false, Bool.true_and, Bool.and_self, if_true]
  refine ⟨_, rfl, ?_, ?_⟩
  · intro g rest hg
    split at hg
    · simp at hg; rw [← hg.1]
    · simp at hg
  · split <;> simp_all

/-! ## exitWith / breakOut: an early exit leaves exactly the targeted scope -/

/-- `if c exitWith {B}`: the current scope is finished (its exit behaviour will not run) and B runs -/
theorem C02_exitWith (b : Bool) (c : List Instr) (m : M) (f : Frame) (htop : m.top? = some f) :
    bop_exitwith (.ifv b) (.code c) m =
      if b then some (m, [.setTop { f with pc := f.code.length + 1, die := true }, .pushFrame { mkFrame c with globals := f.globals }], .nil)
      else some (m, [], .nil) := by
  cases b <;> simp [bop_exitwith, htop, pure']

/-- a frame that was left with `exitWith` is done without its behaviour being enacted
(a loop does not start another iteration) -/
theorem C02_died_frame_is_done (fuel : Nat) (m : M) (f : Frame) (htop : m.top? = some f)
    (hend : f.pc = f.code.length + 1) (hdie : f.die = true) :
    (frameNext (fuel + 1) m).2 = .done := by
  rw [frameNext]
  simp [htop, advance, hend, hdie]

/-- `v breakOut "name"` leaves the scopes up to and including the innermost one called `name`,
nothing more, and yields `v` -/
theorem C02_breakOut_target (m : M) (l : Val) (s : Name) (k : Nat) (hs : s ≠ [])
    (hfind : findScope m.ctx.frames s 0 = some k) :
    bop_breakout l (.str s) m = some (m, [.popClearN (k + 1)], l) := by
  have : s.isEmpty = false := by cases s <;> simp_all
  simp [bop_breakout, breakOut, this, hfind]

/-- a called block yields the value of its last statement, or nil (restates C05) -/
theorem C02_block_value (c : Ctx) (f g : Frame) (rest : List Frame) (hf : c.frames = f :: g :: rest) :
    ∃ v, c.complete.vals = c.vals.take f.base ++ [v] ∧
      (c.vals.length ≤ f.base → v = .nil) ∧ (f.base < c.vals.length → c.vals.getLast? = some v) := by
  obtain ⟨v, h1, _, h3, h4⟩ := Props.C05.C05_block_yields_one c f g rest hf
  exact ⟨v, h1, h3, h4⟩

/-! ## dispatch: the operator names reach these functions -/

theorem C02_dispatch :
    (∀ l r m, binaryOp n!"then" l r m = bop_then l r m) ∧
    (∀ l r m, binaryOp n!"else" l r m = bop_else l r m) ∧
    (∀ l r m, binaryOp n!"exitwith" l r m = bop_exitwith l r m) ∧
    (∀ l r m, binaryOp n!"&&" l r m = bop__26_26 l r m) ∧
    (∀ l r m, binaryOp n!"||" l r m = bop__7c_7c l r m) ∧
    (∀ l r m, binaryOp n!":" l r m = bop__3a l r m) ∧
    (∀ l r m, binaryOp n!"breakout" l r m = bop_breakout l r m) ∧
    (∀ r m, unaryOp n!"default" r m = uop_default r m) := by
  refine ⟨?_, ?_, ?_, ?_, ?_, ?_, ?_, ?_⟩ <;> intros <;> simp [binaryOp, unaryOp]

/-! ## Non-vacuity -/

example : forEachRestarts 3 3 0 = 2 := by decide

end Sqf.Props.C02
