import SqfModel.Preproc
import SqfModel.Props.C13
import SqfModel.Lex
/-!
# C14 — diagnostics name the true source file and line (and column) of the culprit

A diagnostic names the position the tokenizer assigned to a token of the *preprocessed* text. That position
is the true one if three things hold; each is a theorem here, for every source:

1. **the reader's line counter is the true line** (`C14_reader_counts_lines`, `C14_delivered_line_exact`):
   the counter of the character reader (`Sqf.Pp.strip`, the model of `preprocessorfileinfo::next`) moves at
   the newlines of the source and nowhere else — through comments, strings, continued lines — so every
   character it delivers is annotated with the line it stands on in the un-preprocessed file;
2. **the output continues at the line of the input** (`C14_newline_sync`, `C14_directive_sync`,
   `C14_macro_sync`, with `sync_ol` of C13): `St.ol` is the line a reader of the output is at (1 behind the
   `#line 0` marker of a file, one more per newline written, set by markers); behind every newline of the
   input, every directive (however many lines its definition was continued over, include or conditional,
   active section or not) and every macro expansion it equals the reader's line counter; in between text is
   copied one to one (`step_plain` of C13: the two move together);
3. **the tokenizer reads a marker back** (`C14_marker_read_back`, about the tokenizer model of C01,
   `SqfModel/Lex.lean`): the `#line n "file"` text the preprocessor writes is one token behind which the
   tokenizer is at line n, column 0, file `file`.

Columns: a line that is copied (no macro use, no comment or continuation inside it) is copied byte for byte
(C13), so columns are those of the source. Not covered by a theorem: the position of tokens *inside* a
macro expansion (the line of the use), and the two recorded deviations (known_findings.jsonl): the column
behind a block comment on the same line, and the line of tokens on a code line continued with a backslash.
-/
set_option linter.unusedSimpArgs false
set_option linter.unusedVariables false
namespace Sqf.Props.C14
open Sqf Sqf.Pp Sqf.Props.C13

/-! ## The reader's line counter is the true line -/

theorem base_line (inStr : Bool) (ln : Nat) (c : B) : (base inStr ln c).2.2 = ln + (if c = 10 then 1 else 0) := by
  unfold base
  repeat' split
  all_goals simp_all

/-- the counter moves at newlines of the source and nowhere else — in code, in strings, in comments, in the
middle of a continuation -/
theorem stepC_line (s : RS) (ln : Nat) (c : B) : (stepC s ln c).2.2 = ln + (if c = 10 then 1 else 0) := by
  cases s with
  | code => exact base_line false ln c
  | str => exact base_line true ln c
  | block => unfold stepC; repeat' split
             all_goals simp_all
  | line => unfold stepC; repeat' split
            all_goals simp_all
  | slash => unfold stepC; repeat' split
             all_goals simp_all [base_line]
  | star => unfold stepC; repeat' split
            all_goals simp_all
  | bs b => unfold stepC; repeat' split
            all_goals simp_all [base_line]
  | bscr b => unfold stepC; repeat' split
              all_goals simp_all [base_line]

theorem base_ann (inStr : Bool) (ln : Nat) (c : B) : ∀ x ∈ (base inStr ln c).1, ln ≤ x.2 ∧ x.2 ≤ ln + (if c = 10 then 1 else 0) := by
  unfold base
  repeat' split
  all_goals simp_all

/-- every character delivered at a step carries the line of the source character it is (a character held
back, `/` or a backslash, carries the line it stood on) -/
theorem stepC_ann (s : RS) (ln : Nat) (c : B) : ∀ x ∈ (stepC s ln c).1, ln ≤ x.2 ∧ x.2 ≤ ln + (if c = 10 then 1 else 0) := by
  cases s with
  | code => exact base_ann false ln c
  | str => exact base_ann true ln c
  | block => unfold stepC; repeat' split
             all_goals simp_all
  | line => unfold stepC; repeat' split
            all_goals simp_all
  | star => unfold stepC; repeat' split
            all_goals simp_all
  | slash =>
    intro x hx
    unfold stepC at hx
    simp only at hx
    split at hx
    · simp at hx
    · split at hx
      · simp at hx
      · simp only [List.mem_cons] at hx
        cases hx with
        | inl h => subst h; exact ⟨Nat.le_refl _, Nat.le_add_right _ _⟩
        | inr h => exact base_ann false ln c x h
  | bs b =>
    intro x hx
    unfold stepC at hx
    simp only at hx
    split at hx
    · simp at hx
    · split at hx
      · simp at hx
      · simp only [List.mem_cons] at hx
        cases hx with
        | inl h => subst h; exact ⟨Nat.le_refl _, Nat.le_add_right _ _⟩
        | inr h => exact base_ann b ln c x h
  | bscr b =>
    intro x hx
    unfold stepC at hx
    simp only at hx
    split at hx
    · simp at hx
    · simp only [List.mem_cons] at hx
      cases hx with
      | inl h => subst h; exact ⟨Nat.le_refl _, Nat.le_add_right _ _⟩
      | inr h => exact base_ann b ln c x h

/-- the reader over a piece of source: what it delivers, the state and the line counter behind it -/
def runC : RS → Nat → List B → List Ch × RS × Nat
  | s, ln, [] => ([], s, ln)
  | s, ln, c :: rest =>
    let r := runC (stepC s ln c).2.1 (stepC s ln c).2.2 rest
    ((stepC s ln c).1 ++ r.1, r.2)

theorem strip_split (pre : List B) : ∀ (s : RS) (ln : Nat) (post : List B),
    strip s ln (pre ++ post) = (runC s ln pre).1 ++ strip (runC s ln pre).2.1 (runC s ln pre).2.2 post := by
  induction pre with
  | nil => intro s ln post; simp [runC]
  | cons c cs ih =>
    intro s ln post
    rw [List.cons_append, strip, ih]
    simp [runC, List.append_assoc]

/-- **The reader's line counter is the true line**: behind any piece of source it stands at the line it
started with plus the number of newlines in the piece — comments, strings and continuations included -/
theorem C14_reader_counts_lines (pre : List B) : ∀ (s : RS) (ln : Nat), (runC s ln pre).2.2 = ln + newlines pre := by
  induction pre with
  | nil => intro s ln; simp [runC, newlines]
  | cons c cs ih =>
    intro s ln
    simp only [runC]
    rw [ih, stepC_line, newlines_cons]
    omega

theorem runC_ann (pre : List B) : ∀ (s : RS) (ln : Nat), ∀ x ∈ (runC s ln pre).1, ln ≤ x.2 ∧ x.2 ≤ ln + newlines pre := by
  induction pre with
  | nil => intro s ln x hx; simp [runC] at hx
  | cons c cs ih =>
    intro s ln x hx
    simp only [runC, List.mem_append] at hx
    rw [newlines_cons]
    cases hx with
    | inl h => have := stepC_ann s ln c x h; omega
    | inr h =>
      have := ih _ _ x h
      rw [stepC_line] at this
      omega

/-- **Every delivered character carries its true line**: whatever precedes a line of the source (`before`,
with its comments, strings, definitions continued over lines) and whatever follows it, the characters the
reader delivers while it reads that line (a piece without newline) are annotated with exactly the number of
the line: 1 + the newlines before it -/
theorem C14_delivered_line_exact (before lineText after : List B) (hline : ∀ c ∈ lineText, c ≠ 10) :
    ∃ (s : RS) (a b : List Ch), stripAll (before ++ lineText ++ after) = a ++ (runC s (1 + newlines before) lineText).1 ++ b ∧
      ∀ x ∈ (runC s (1 + newlines before) lineText).1, x.2 = 1 + newlines before := by
  refine ⟨(runC .code 1 before).2.1, (runC .code 1 before).1,
    strip (runC (runC .code 1 before).2.1 (1 + newlines before) lineText).2.1 (runC (runC .code 1 before).2.1 (1 + newlines before) lineText).2.2 after, ?_, ?_⟩
  · unfold stripAll
    rw [List.append_assoc, strip_split before, strip_split lineText, C14_reader_counts_lines before]
    simp [List.append_assoc]
  · intro x hx
    have := runC_ann lineText _ _ x hx
    have h0 : newlines lineText = 0 := by
      unfold newlines
      simp only [List.length_eq_zero_iff, List.filter_eq_nil_iff, decide_eq_true_eq]
      exact hline
    omega

/-! ## The output continues at the line of the input -/

/-- **A newline of the input synchronises**: whatever was consumed without output before it (continued
lines, a macro call over several lines, a string in an inactive section), behind the newline the output is at
the line of the input — in active and in inactive sections -/
theorem C14_newline_sync (e : Env) (f : Nat) (stack : List (List B)) (phys : List B) (st : St) (l : Nat) (rest : List Ch) (bol : Bool) (ln : Nat) :
    step e (f + 1) stack phys st (10, l) rest bol ln = .ok (st.sync phys l true, (rest, true, l)) ∧
    (st.sync phys l true).ol = l := by
  refine ⟨?_, sync_ol ..⟩
  rw [step]
  simp [quote, nl]

/-- **A directive synchronises**: behind a directive — a definition continued over any number of lines, an
include, a conditional, in an active or an inactive section — the output is at the line of the input -/
theorem C14_directive_sync (e : Env) (f : Nat) (stack : List (List B)) (phys : List B) (st : St) (rest : List Ch) (ln : Nat) (st' : St) (pos : Pos)
    (h : directive e f stack phys st rest ln = .ok (st', pos)) : st'.ol = pos.2.2 := by
  cases f with
  | zero => simp [directive] at h
  | succ f =>
    rw [directive] at h
    split at h
    · simp only [Except.ok.injEq, Prod.mk.injEq] at h
      rw [← h.1, ← h.2]; exact sync_ol ..
    · simp only [Except.ok.injEq, Prod.mk.injEq] at h
      rw [← h.1, ← h.2]; exact sync_ol ..
    · split at h
      · cases h
      · simp only [Except.ok.injEq, Prod.mk.injEq] at h
        rw [← h.1, ← h.2]; exact sync_ol ..
    · split at h
      · cases h
      · simp only [Except.ok.injEq, Prod.mk.injEq] at h
        rw [← h.1, ← h.2]; exact sync_ol ..
    · split at h
      · simp only [Except.ok.injEq, Prod.mk.injEq] at h
        rw [← h.1, ← h.2]; exact sync_ol ..
      · split at h
        · simp only [Except.ok.injEq, Prod.mk.injEq] at h
          rw [← h.1, ← h.2]; exact sync_ol ..
        · simp only [Except.ok.injEq, Prod.mk.injEq] at h
          rw [← h.1, ← h.2]; exact sync_ol ..
        · simp only [Except.ok.injEq, Prod.mk.injEq] at h
          rw [← h.1, ← h.2]; exact sync_ol ..
        · split at h
          · cases h
          · split at h
            · cases h
            · split at h
              · cases h
              · simp only [Except.ok.injEq, Prod.mk.injEq] at h
                rw [← h.1, ← h.2]
        · cases h

/-- **A macro use synchronises**: behind an expansion — the call may have run over several lines, the
expansion may hold more or fewer newlines than the call — the output is at the line of the input -/
theorem C14_macro_sync (e : Env) (f : Nat) (stack : List (List B)) (phys : List B) (st : St) (c : B) (l : Nat) (rest : List Ch) (bol : Bool) (ln : Nat)
    (st' : St) (pos : Pos) (m : Macro) (hc : isWordChar c = true) (hw : st.writing = true)
    (hm : st.table.find (takeWord (c :: txt rest)).1 = some m)
    (h : step e (f + 1) stack phys st (c, l) rest bol ln = .ok (st', pos)) : st'.ol = pos.2.2 := by
  rw [step] at h
  have h1 : (c == quote) = false := by
    cases hq : c == quote with
    | false => rfl
    | true => simp [quote] at hq; subst hq; simp [isWordChar, isAlpha, isDigit, isLowerAlpha, isUpperAlpha] at hc
  have h2 : (c == nl) = false := by
    cases hq : c == nl with
    | false => rfl
    | true => simp [nl] at hq; subst hq; simp [isWordChar, isAlpha, isDigit, isLowerAlpha, isUpperAlpha] at hc
  have h3 : (c == 35) = false := by
    cases hq : c == 35 with
    | false => rfl
    | true => simp at hq; subst hq; simp [isWordChar, isAlpha, isDigit, isLowerAlpha, isUpperAlpha] at hc
  simp only [h1, h2, h3, hc, hw, hm, Bool.false_and, Bool.false_eq_true, if_false, if_true, Bool.not_true] at h
  split at h
  · cases h
  · simp only [Except.ok.injEq, Prod.mk.injEq] at h
    rw [← h.1, ← h.2]
    exact sync_ol ..

/-! ## The tokenizer reads a marker back as the line and file it names -/

theorem natDigitsGo_value : ∀ (n : Nat) (acc : List B),
    (natDigitsGo n acc).foldl (fun a c => a * 10 + digitVal c) 0 = acc.foldl (fun a c => a * 10 + digitVal c) n := by
  intro n
  induction n using Nat.strongRecOn with
  | _ n ih =>
    intro acc
    rw [natDigitsGo]
    split
    · next h => subst h; rfl
    · next h =>
      rw [ih (n / 10) (by omega)]
      simp only [List.foldl_cons, digitVal]
      congr 1
      omega

theorem natDigitsGo_digits : ∀ (n : Nat) (acc : List B), (∀ c ∈ acc, isDigit c = true) → ∀ c ∈ natDigitsGo n acc, isDigit c = true := by
  intro n
  induction n using Nat.strongRecOn with
  | _ n ih =>
    intro acc hacc
    rw [natDigitsGo]
    split
    · exact hacc
    · next h =>
      apply ih (n / 10) (by omega)
      intro c hc
      simp only [List.mem_cons] at hc
      cases hc with
      | inl e => subst e; simp [isDigit]; omega
      | inr e => exact hacc c e

theorem natDigitsGo_length : ∀ (k n : Nat) (acc : List B), n < 10 ^ k → (natDigitsGo n acc).length ≤ acc.length + k := by
  intro k
  induction k with
  | zero =>
    intro n acc h
    have : n = 0 := by simpa using h
    subst this; rw [natDigitsGo]; simp
  | succ k ih =>
    intro n acc h
    rw [natDigitsGo]
    split
    · simp
    · have := ih (n / 10) ((48 + n % 10) :: acc) (by rw [Nat.pow_succ] at h; omega)
      simp only [List.length_cons] at this
      omega

theorem natDigits_value (n : Nat) : natOfDigits (natDigits n) = n := by
  unfold natDigits natOfDigits
  split
  · next h => subst h; rfl
  · have := natDigitsGo_value n []
    simpa using this

theorem natDigits_digits (n : Nat) : ∀ c ∈ natDigits n, isDigit c = true := by
  unfold natDigits
  split
  · intro c hc; simp at hc; subst hc; decide
  · exact natDigitsGo_digits n [] (by simp)

theorem natDigits_length (n : Nat) (h : n < 10 ^ 18) : (natDigits n).length ≤ 18 := by
  unfold natDigits
  split
  · simp
  · have := natDigitsGo_length 18 n [] h
    simpa using this

theorem natDigits_ne_nil (n : Nat) : natDigits n ≠ [] := by
  unfold natDigits
  split
  · simp
  · next h =>
    rw [natDigitsGo]
    simp only [h, dite_false]
    intro hnil
    have : (48 + n % 10) ∈ natDigitsGo (n / 10) [48 + n % 10] := by
      have : ∀ (m : Nat) (acc : List B) (x : B), x ∈ acc → x ∈ natDigitsGo m acc := by
        intro m
        induction m using Nat.strongRecOn with
        | _ m ih =>
          intro acc x hx
          rw [natDigitsGo]
          split
          · exact hx
          · exact ih (m / 10) (by omega) _ x (by simp [hx])
      exact this _ _ _ (by simp)
    rw [hnil] at this
    cases this

theorem takeWhile_append_stop (p : B → Bool) (a : List B) (c : B) (r : List B) (ha : ∀ x ∈ a, p x = true) (hc : p c = false) :
    (a ++ c :: r).takeWhile p = a := by
  induction a with
  | nil => simp [List.takeWhile, hc]
  | cons x xs ih =>
    simp only [List.cons_append, List.takeWhile, ha x (by simp)]
    rw [ih (fun y hy => ha y (by simp [hy]))]

theorem lenWhile_append_stop (p : B → Bool) (a : List B) (c : B) (r : List B) (ha : ∀ x ∈ a, p x = true) (hc : p c = false) :
    lenWhile p (a ++ c :: r) = a.length := by
  induction a with
  | nil => simp [lenWhile, hc]
  | cons x xs ih =>
    simp only [List.cons_append, lenWhile, ha x (by simp), if_true, List.length_cons]
    rw [ih (fun y hy => ha y (by simp [hy]))]

/-- **The tokenizer reads a `#line` marker back**: met at the start of what is left of the text, the marker
the preprocessor writes for line `n` of file `phys` is one `#line` token, behind which the tokenizer is at
line `n` (the newline that ends the marker makes it `n + 1`: the line of what follows), column 0, file `phys` -/
theorem C14_marker_read_back (n : Nat) (phys r : List B) (st : LState) (hn : n < 10 ^ 18) (hp : ∀ c ∈ phys, c ≠ 10)
    (hr : st.rest = lineMarker n phys ++ r) :
    matchLine st = some { len := (lineMarker n phys).length - 1, line := n, col := 0, file := phys } := by
  have hd := natDigits_digits n
  have hstop : ∀ x ∈ natDigits n, (x != 10 && x != 32) = true := by
    intro x hx
    have := hd x hx
    simp only [isDigit, Bool.and_eq_true, decide_eq_true_eq] at this
    simp only [Bool.and_eq_true, bne_iff_ne, ne_eq]
    constructor <;> (intro h; subst h; exact absurd this.1 (by decide))
  unfold matchLine
  rw [hr]
  have e1 : lineMarker n phys ++ r = 35 :: 108 :: 105 :: 110 :: 101 :: 32 :: (natDigits n ++ (32 :: 34 :: (phys ++ (34 :: 10 :: r)))) := by
    simp [lineMarker, List.append_assoc]
  rw [e1]
  have e2 : lenIdentMatch kwLine (35 :: 108 :: 105 :: 110 :: 101 :: 32 :: (natDigits n ++ (32 :: 34 :: (phys ++ (34 :: 10 :: r))))) 0 = 5 := by
    simp [lenIdentMatch, kwLine, toLower, isUpperAlpha, isLowerAlpha]
  simp only [e2, List.drop_succ_cons, List.drop_zero]
  have e3 : (natDigits n ++ 32 :: 34 :: (phys ++ 34 :: 10 :: r)).takeWhile (fun c => c != 10 && c != 32) = natDigits n :=
    takeWhile_append_stop _ _ 32 _ hstop (by decide)
  have e4 : allDigits (natDigits n) = true := by simp [allDigits, List.all_eq_true]; exact hd
  have e5 : (natDigits n).length ≤ 18 := natDigits_length n hn
  have e6 : (natDigits n).isEmpty = false := by
    cases h : natDigits n with
    | nil => exact absurd h (natDigits_ne_nil n)
    | cons _ _ => rfl
  have e7 : lenWhile (fun c => c != 10) (34 :: (phys ++ 34 :: 10 :: r)) = phys.length + 2 := by
    have := lenWhile_append_stop (fun c => c != 10) (34 :: phys ++ [34]) 10 r
      (by intro x hx
          simp only [List.cons_append, List.mem_cons, List.mem_append, List.mem_singleton] at hx
          rcases hx with h | h | h
          · subst h; decide
          · simpa using hp x h
          · simp at h; subst h; decide)
      (by decide)
    simpa [List.append_assoc] using this
  simp only [e3, e4, e6, natDigits_value, Bool.false_or, Bool.not_true, decide_eq_true_eq, List.drop_left']
  have : ¬ (18 < (natDigits n).length) := by omega
  simp only [this, decide_false, Bool.or_false, Bool.false_eq_true, if_false]
  have e8 : lenWhile (fun c => c == 32 || c == 9) (32 :: 34 :: (phys ++ 34 :: 10 :: r)) = 1 := by
    simp [lenWhile]
  simp only [e8, List.drop_succ_cons, List.drop_zero, e7]
  have e9 : List.drop (phys.length + 2) (34 :: (phys ++ 34 :: 10 :: r)) = 10 :: r := by
    simp [List.drop_succ_cons]
  have e10 : List.drop 1 (List.take (phys.length + 2 - 1) (34 :: (phys ++ 34 :: 10 :: r))) = phys := by
    simp [List.take_succ_cons]
  have e11 : (lineMarker n phys).length - 1 = 5 + 1 + (natDigits n).length + 1 + (phys.length + 2) := by
    simp [lineMarker]; omega
  simp [e9, e10, e11]

/-! ## Non-vacuity -/

-- a definition over three lines, a block comment over two, an inactive section: line 8 stays line 8
example : (strip .code 1 n!"/* a\nb */ x \\\ny").map (·.2) = [2, 2, 2, 2, 3] := by decide +kernel
example : (runC .code 1 n!"#define M a \\\n b \\\n c\n").2.2 = 4 := by decide +kernel
example : (matchLine (LState.init (lineMarker 41 n!"/$R/inc.hpp" ++ n!"x") n!"f")).map (fun m => (m.len, m.line, m.col, m.file)) =
    some (22, 41, 0, n!"/$R/inc.hpp") := by decide +kernel

/-! ## the tokenizer's own position tracking: line and column behind white space, strings, comments and words -/


/-- the position behind a piece of text: a newline starts a line at column 0, every other character is one column -/
def advance (p : Nat × Nat) (text : List B) : Nat × Nat :=
  text.foldl (fun q c => if c = 10 then (q.1 + 1, 0) else (q.1, q.2 + 1)) p

theorem advance_cons (p : Nat × Nat) (c : B) (t : List B) :
    advance p (c :: t) = advance (if c = 10 then (p.1 + 1, 0) else (p.1, p.2 + 1)) t := rfl

theorem advance_append (p : Nat × Nat) (a b : List B) : advance p (a ++ b) = advance (advance p a) b := by
  simp [advance, List.foldl_append]

/-! ### white space -/

theorem scanWs_tracks (ws : List B) : ∀ (rest : List B) (n l k : Nat), (∀ c ∈ ws, isWs c = true) →
    (∀ c r', rest = c :: r' → isWs c = false) →
    scanWs (ws ++ rest) n l k = (n + ws.length, (advance (l, k) ws).1, (advance (l, k) ws).2) := by
  induction ws with
  | nil =>
    intro rest n l k _ hr
    cases rest with
    | nil => simp [scanWs, advance]
    | cons c r' => simp [scanWs, hr c r' rfl, advance]
  | cons c cs ih =>
    intro rest n l k hws hr
    have hc := hws c (by simp)
    rw [List.cons_append, scanWs]
    simp only [hc, if_true]
    by_cases h10 : c = 10
    · subst h10
      simp only [beq_self_eq_true, if_true]
      rw [ih rest (n + 1) (l + 1) 0 (fun x hx => hws x (by simp [hx])) hr, advance_cons]
      simp; omega
    · have : (c == 10) = false := by simpa using h10
      simp only [this, Bool.false_eq_true, if_false]
      rw [ih rest (n + 1) l (k + 1) (fun x hx => hws x (by simp [hx])) hr, advance_cons]
      simp [h10]; omega

/-! ### strings -/

/-- the inside of a string literal delimited by `q`: any characters, the delimiter only doubled -/
inductive StrBody (q : B) : List B → Prop where
  | nil : StrBody q []
  | char {c : B} {t : List B} : c ≠ q → StrBody q t → StrBody q (c :: t)
  | doubled {t : List B} : StrBody q t → StrBody q (q :: q :: t)

/-- **a string literal moves the position by exactly its characters** — newlines inside it start lines, a
doubled delimiter is two columns -/
theorem scanStr_tracks (q : B) (hq : q ≠ 10) (body : List B) (hb : StrBody q body) : ∀ (rest : List B) (n l k : Nat),
    (∀ r', rest ≠ q :: r') →
    scanStr q false (body ++ q :: rest) n l k =
      (n + body.length + 1, (advance (l, k) (body ++ [q])).1, (advance (l, k) (body ++ [q])).2) := by
  induction hb with
  | nil =>
    intro rest n l k hr
    simp only [List.nil_append, scanStr, beq_self_eq_true, if_true]
    cases rest with
    | nil => simp [scanStr, advance, hq]
    | cons c r' =>
      have : (c == q) = false := by
        cases h : c == q with
        | false => rfl
        | true => simp at h; subst h; exact absurd rfl (hr r')
      simp [scanStr, this, advance, hq]
  | @char c t hc hb ih =>
    intro rest n l k hr
    have hcq : (c == q) = false := by simpa using hc
    rw [List.cons_append, scanStr]
    simp only [hcq, Bool.false_eq_true, if_false]
    by_cases h10 : c = 10
    · subst h10
      simp only [beq_self_eq_true, if_true]
      rw [ih rest (n + 1) (l + 1) 0 hr, List.cons_append, advance_cons]
      simp; omega
    · have : (c == 10) = false := by simpa using h10
      simp only [this, Bool.false_eq_true, if_false]
      rw [ih rest (n + 1) l (k + 1) hr, List.cons_append, advance_cons]
      simp [h10]; omega
  | @doubled t hb ih =>
    intro rest n l k hr
    rw [List.cons_append, List.cons_append, scanStr]
    simp only [beq_self_eq_true, if_true]
    rw [scanStr]
    simp only [beq_self_eq_true, if_true]
    rw [ih rest (n + 2) l (k + 2) hr, List.cons_append, List.cons_append, advance_cons, advance_cons]
    simp [hq]; omega

/-! ### block comments -/

/-- no `*/` inside -/
def noClose : List B → Prop
  | [] => True
  | [_] => True
  | c :: c' :: cs => ¬ (c = 42 ∧ c' = 47) ∧ noClose (c' :: cs)

theorem scanBlock_tracks (body : List B) : ∀ (rest : List B) (n l k : Nat), noClose (body ++ [42]) →
    scanBlock (body ++ 42 :: 47 :: rest) n l k =
      (n + body.length + 2, (advance (l, k) (body ++ [42, 47])).1, (advance (l, k) (body ++ [42, 47])).2) := by
  induction body with
  | nil =>
    intro rest n l k _
    simp [scanBlock, advance]
  | cons c cs ih =>
    intro rest n l k hnc
    -- the next character exists: cs ++ [42, 47, …] is not empty
    obtain ⟨c', tl, htl⟩ : ∃ c' tl, cs ++ 42 :: 47 :: rest = c' :: tl := by
      cases cs with
      | nil => exact ⟨42, 47 :: rest, rfl⟩
      | cons d ds => exact ⟨d, ds ++ 42 :: 47 :: rest, rfl⟩
    have hnot : ¬ (c = 42 ∧ c' = 47) := by
      cases cs with
      | nil =>
        simp only [List.nil_append, List.cons.injEq] at htl
        intro h; rw [← htl.1] at h; exact absurd h.2 (by decide)
      | cons d ds =>
        simp only [List.cons_append, List.cons.injEq] at htl
        have := hnc
        simp only [List.cons_append, noClose] at this
        rw [← htl.1]; exact this.1
    have hrest : noClose (cs ++ [42]) := by
      cases cs with
      | nil => simp [noClose]
      | cons d ds =>
        have := hnc
        simp only [List.cons_append, noClose] at this
        exact this.2
    rw [List.cons_append, htl, scanBlock]
    have hcond : (c == 42 && c' == 47) = false := by
      cases h1 : c == 42 <;> cases h2 : c' == 47 <;> simp_all
    simp only [hcond, Bool.false_eq_true, if_false]
    rw [← htl]
    by_cases h10 : c = 10
    · subst h10
      simp only [beq_self_eq_true, if_true]
      rw [ih rest (n + 1) (l + 1) 0 hrest, List.cons_append, advance_cons]
      simp; omega
    · have : (c == 10) = false := by simpa using h10
      simp only [this, Bool.false_eq_true, if_false]
      rw [ih rest (n + 1) l (k + 1) hrest, List.cons_append, advance_cons]
      simp [h10]; omega

/-! ### the tokenizer's position is the position of the characters it has read -/

theorem advance_plain (p : Nat × Nat) (t : List B) (h : ∀ c ∈ t, c ≠ 10) : advance p t = (p.1, p.2 + t.length) := by
  induction t generalizing p with
  | nil => rfl
  | cons c cs ih =>
    rw [advance_cons, if_neg (h c (by simp)), ih _ (fun x hx => h x (by simp [hx]))]
    simp; omega

/-- **White space, string literals and block comments — the tokens that can run over line ends — move the
tokenizer's line and column by exactly the characters they consist of**; identifiers move the column by their length.
With `C14_marker_read_back` for `#line` markers this is the tokenizer's half of "the reported position is the
position in the text the tokenizer was given". -/
theorem C14_tokenizer_tracks (st : LState) (rest : List B) :
    (∀ ws, ws ≠ [] → (∀ c ∈ ws, isWs c = true) → (∀ c r', rest = c :: r' → isWs c = false) → st.rest = ws ++ rest →
      matchKind st .whitespace = some (Match.mk (ws.length) ((advance (st.line, st.col) ws)).1 ((advance (st.line, st.col) ws)).2 st.file)) ∧
    (∀ body, StrBody 34 body → (∀ r', rest ≠ 34 :: r') → st.rest = 34 :: (body ++ 34 :: rest) →
      matchKind st .stringDouble = some (Match.mk (body.length + 2) ((advance (st.line, st.col) (34 :: (body ++ [34])))).1 ((advance (st.line, st.col) (34 :: (body ++ [34])))).2 st.file)) ∧
    (∀ body, StrBody 39 body → (∀ r', rest ≠ 39 :: r') → st.rest = 39 :: (body ++ 39 :: rest) →
      matchKind st .stringSingle = some (Match.mk (body.length + 2) ((advance (st.line, st.col) (39 :: (body ++ [39])))).1 ((advance (st.line, st.col) (39 :: (body ++ [39])))).2 st.file)) ∧
    (∀ body, noClose (body ++ [42]) → st.rest = 47 :: 42 :: (body ++ 42 :: 47 :: rest) →
      matchKind st .commentBlock = some (Match.mk (body.length + 4) ((advance (st.line, st.col) (47 :: 42 :: (body ++ [42, 47])))).1 ((advance (st.line, st.col) (47 :: 42 :: (body ++ [42, 47])))).2 st.file)) := by
  refine ⟨?_, ?_, ?_, ?_⟩
  · intro ws hne hws hr hst
    unfold matchKind
    rw [hst, scanWs_tracks ws rest 0 st.line st.col hws hr]
    have : ws.length ≠ 0 := by intro h; exact hne (List.length_eq_zero_iff.mp h)
    simp [this]
  · intro body hb hr hst
    unfold matchKind
    rw [hst]
    simp only [List.drop_succ_cons, List.drop_zero]
    rw [scanStr_tracks 34 (by decide) body hb rest 1 st.line (st.col + 1) hr, advance_cons]
    simp; omega
  · intro body hb hr hst
    unfold matchKind
    rw [hst]
    simp only [List.drop_succ_cons, List.drop_zero]
    rw [scanStr_tracks 39 (by decide) body hb rest 1 st.line (st.col + 1) hr, advance_cons]
    simp; omega
  · intro body hnc hst
    unfold matchKind
    rw [hst]
    simp only []
    rw [scanBlock_tracks body rest 2 st.line (st.col + 2) hnc, advance_cons, advance_cons]
    simp; omega

/-- an identifier holds no newline: it moves the column by its length -/
theorem C14_ident_tracks (st : LState) (m : Match) (h : matchKind st .ident = some m) :
    (m.line, m.col) = advance (st.line, st.col) (st.rest.take m.len) := by
  unfold matchKind at h
  simp only [] at h
  split at h
  · cases h
  · simp only [Option.some.injEq] at h
    subst h
    simp only []
    rw [advance_plain]
    · have : (st.rest.take (lenWhile isIdentChar st.rest)).length = lenWhile isIdentChar st.rest := by
        have hle : ∀ (l : List B), lenWhile isIdentChar l ≤ l.length := by
          intro l; induction l with
          | nil => simp [lenWhile]
          | cons a t ih => simp only [lenWhile]; split <;> simp <;> omega
        simp [List.length_take, Nat.min_eq_left (hle _)]
      rw [this]
    · have hall : ∀ (l : List B) c, c ∈ l.take (lenWhile isIdentChar l) → isIdentChar c = true := by
        intro l
        induction l with
        | nil => intro c hc; simp [lenWhile] at hc
        | cons a t ih =>
          intro c hc
          simp only [lenWhile] at hc
          split at hc
          · next ha =>
            simp only [List.take_succ_cons, List.mem_cons] at hc
            cases hc with
            | inl e => rw [e]; exact ha
            | inr e => exact ih c e
          · simp at hc
      intro c hc hc10
      have := hall st.rest c hc
      subst hc10
      simp [isIdentChar, isAlpha, isDigit, isLowerAlpha, isUpperAlpha] at this

end Sqf.Props.C14
