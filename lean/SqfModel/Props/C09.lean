import SqfModel.VM.Step
import SqfModel.SortKey
/-!
# C09 — every operator is total and memory-safe on all type-correct arguments

What is proved here is about the operators of the executable model whose arguments decide what memory is
touched — the ones the property's mechanisms name (index and size conversions, range arithmetic, the
`format` placeholder parser, the `sort` predicate, iteration over an array the code may change). For these
the model is tied to the implementation value for value by the correspondence on boundary values; for all
other registered signatures (about 2600, most of them stubs) the check explores, it does not prove.

* conversions: `C09_saturation_unobservable` — limiting a whole number to the range of `int` (what
  `util::float_to_int` does instead of the undefined cast) changes none of the comparisons the operators make;
* `select`: `C09_select_total`, `C09_select_in_bounds`, `C09_select_range_is_a_piece`;
* `deleteRange`: `C09_deleteRange_total`, `C09_deleteRange_shape`;
* `resize`, `set`, `deleteAt`: `C09_resize_total`, `C09_set_total`, `C09_deleteAt_total` (bounds in C08);
* `format`: `C09_format_total`, `C09_placeholder_bounded`, `C09_placeholder_exact`, `C09_placeholder_saturates`;
* `sort`: `C09_sort_total`, `C09_sort_permutation`, `C09_sort_strict_weak` (from `SortKey.lean`);
* iteration: `C09_iteration_never_escapes` — `count`, `forEach`, `select`, `apply`, `findIf` never read behind
  the end of the array, whatever the code did to it.
-/
set_option linter.unusedSimpArgs false
set_option linter.unusedVariables false
namespace Sqf.Props.C09
open Sqf Sqf.VM

/-! ## Conversions -/

/-- what `util::float_to_int` does to a whole number that does not fit an `int` -/
def sat (i : Int) : Int := if i < -2147483648 then -2147483648 else if i > 2147483647 then 2147483647 else i

/-- **Saturation cannot be observed**: for every array size `n` the limit allows, the tests the operators
make on an index or size — negative, beyond the size, equal to the size, beyond the limit — come out the same
for the exact whole number and for the one limited to the range of `int` -/
theorem C09_saturation_unobservable (i : Int) (n : Nat) (hn : n ≤ maxArraySize) :
    (sat i < 0 ↔ i < 0) ∧ (sat i ≥ n ↔ i ≥ n) ∧ (sat i > n ↔ i > n) ∧ (sat i = n ↔ i = n) ∧
    ((sat i).toNat > maxArraySize ↔ i.toNat > maxArraySize) ∧ ((sat i).toNat ≥ maxArraySize ↔ i.toNat ≥ maxArraySize) := by
  unfold sat maxArraySize at *
  split
  · omega
  · split <;> omega

/-! ## select -/

theorem C09_select_total (id : Nat) (m : M) :
    (∀ d, (bop_select (.ref id) (.num d) m).isSome) ∧ (bop_select (.ref id) .nan m).isSome ∧ (∀ p, (bop_select (.ref id) (.ref p) m).isSome) := by
  refine ⟨?_, rfl, ?_⟩
  · intro d; unfold bop_select; simp only [pure']; repeat' split
    all_goals rfl
  · intro p
    unfold bop_select
    simp only [pure']
    repeat' split
    all_goals simp

/-- **`select` with a number stays inside the array**: it returns the element at the rounded index, which is
below the length, or it reports the index and returns nil; the heap is never touched -/
theorem C09_select_in_bounds (id : Nat) (d : Dec) (m : M) :
    (0 ≤ roundIdx d ∧ (roundIdx d).toNat < (m.arr id).length ∧
      bop_select (.ref id) (.num d) m = some (m, [], nth (m.arr id) (roundIdx d).toNat)) ∨
    bop_select (.ref id) (.num d) m = some (m.log Diag.runtime_IndexOutOfRange, [], .nil) ∨
    bop_select (.ref id) (.num d) m = some (m.log Diag.runtime_IndexEqualsRange, [], .nil) := by
  unfold bop_select
  simp only [pure']
  by_cases h1 : ((m.arr id).length : Int) < roundIdx d ∨ roundIdx d < 0
  · right; left
    have : (decide (((m.arr id).length : Int) < roundIdx d) || decide (roundIdx d < 0)) = true := by simpa using h1
    simp [this]
  · have h1' : (decide (((m.arr id).length : Int) < roundIdx d) || decide (roundIdx d < 0)) = false := by simpa using h1
    by_cases h2 : ((m.arr id).length : Int) = roundIdx d
    · right; right
      have hnn : ¬ roundIdx d < 0 := by omega
      simp [h1', h2, hnn]
    · left
      have : (((m.arr id).length : Int) == roundIdx d) = false := by simpa using h2
      refine ⟨by omega, by omega, by simp [h1', this]⟩

/-- **`select [start, length]` returns a piece of the array**: the elements it copies — `length` elements
from `start` on, as many as there are — are a contiguous piece of the source, for every pair of whole numbers
(the model takes them with `List.drop`/`List.take`, which cannot leave the list; the implementation compares
`length` with what is left behind `start` instead of adding the two) -/
theorem C09_select_range_is_a_piece (vec : List Val) (start len : Nat) :
    ∃ pre post, vec = pre ++ (vec.drop start).take len ++ post ∧ ((vec.drop start).take len).length ≤ vec.length - start := by
  refine ⟨vec.take start, (vec.drop start).drop len, ?_, ?_⟩
  · rw [List.append_assoc, List.take_append_drop, List.take_append_drop]
  · simp [List.length_take]; omega

/-! ## deleteRange, resize, set, deleteAt -/

theorem C09_deleteRange_total (id p : Nat) (m : M) : (bop_deleterange (.ref id) (.ref p) m).isSome := by
  unfold bop_deleterange
  simp only [pure']
  repeat' split
  all_goals simp

/-- **`deleteRange` removes a range that lies inside the array, or nothing**: with `to` pulled up to `from`
and down to the last index as the operator does, the range it erases — when it erases — satisfies
`0 ≤ from ≤ to < length`, for every pair of whole numbers and every length -/
theorem C09_deleteRange_shape (n : Nat) (f t0 : Int) (hneg : ¬ f < 0)
    (hrun : ¬ f > (if (if f > t0 then f else t0) ≥ (n : Int) then (n : Int) - 1 else (if f > t0 then f else t0))) :
    f.toNat ≤ (if (if f > t0 then f else t0) ≥ (n : Int) then (n : Int) - 1 else (if f > t0 then f else t0)).toNat ∧
    (if (if f > t0 then f else t0) ≥ (n : Int) then (n : Int) - 1 else (if f > t0 then f else t0)).toNat < n := by
  split at hrun <;> (split <;> (try split at hrun) <;> omega)

theorem C09_resize_total (id : Nat) (m : M) : (∀ d, (bop_resize (.ref id) (.num d) m).isSome) ∧ (bop_resize (.ref id) .nan m).isSome := by
  refine ⟨?_, rfl⟩
  intro d; unfold bop_resize; simp only [pure']; repeat' split
  all_goals rfl

theorem C09_deleteAt_total (id : Nat) (m : M) : (∀ d, (bop_deleteat (.ref id) (.num d) m).isSome) ∧ (bop_deleteat (.ref id) .nan m).isSome := by
  refine ⟨?_, rfl⟩
  intro d; unfold bop_deleteat; simp only [pure']; repeat' split
  all_goals rfl

theorem C09_set_total (id p : Nat) (m : M) : (bop_set (.ref id) (.ref p) m).isSome := by
  unfold bop_set
  simp only [pure']
  repeat' split
  all_goals simp

/-! ## format -/

theorem C09_format_total (id : Nat) (m : M) : (uop_format (.ref id) m).isSome := by
  unfold uop_format
  simp only [pure']
  repeat' split
  all_goals simp

/-- **The placeholder number never overflows**: however many digits follow the `%`, the number the parser
holds stays below ten times the argument count plus ten -/
theorem C09_placeholder_bounded (limit : Nat) : ∀ (ds : List B) (acc : Nat), (∀ c ∈ ds, isDigit c = true) → acc ≤ 10 * limit + 9 →
    placeholderNum limit ds acc ≤ 10 * limit + 9 := by
  intro ds
  induction ds with
  | nil => intro acc _ h; simpa [placeholderNum] using h
  | cons c cs ih =>
    intro acc hd h
    have hc := hd c (by simp)
    simp only [isDigit, Bool.and_eq_true, decide_eq_true_eq] at hc
    rw [placeholderNum]
    split
    · next hle => exact ih _ (fun x hx => hd x (by simp [hx])) (by omega)
    · exact ih _ (fun x hx => hd x (by simp [hx])) h

/-- once above the argument count the number stays above it: a placeholder that is out of range is reported
as out of range however it goes on -/
theorem C09_placeholder_saturates (limit : Nat) : ∀ (ds : List B) (acc : Nat), limit < acc → limit < placeholderNum limit ds acc := by
  intro ds
  induction ds with
  | nil => intro acc h; simpa [placeholderNum] using h
  | cons c cs ih =>
    intro acc h
    rw [placeholderNum]
    have : ¬ acc ≤ limit := by omega
    simp only [this, if_false]
    exact ih acc h

/-- as long as the digits read so far stay within the argument count the number is exact -/
theorem C09_placeholder_exact (limit : Nat) : ∀ (ds : List B) (acc : Nat),
    placeholderNum limit ds acc = ds.foldl (fun a c => a * 10 + digitVal c) acc ∨ limit < placeholderNum limit ds acc := by
  intro ds
  induction ds with
  | nil => intro acc; left; rfl
  | cons c cs ih =>
    intro acc
    rw [placeholderNum]
    split
    · cases ih (acc * 10 + (c - 48)) with
      | inl h => left; rw [h]; rfl
      | inr h => right; exact h
    · next hgt => right; exact C09_placeholder_saturates limit cs acc (by omega)

/-! ## sort -/

theorem C09_sort_total (id : Nat) (b : Bool) (m : M) : (bop_sort (.ref id) (.bool b) m).isSome := by
  unfold bop_sort
  simp only [pure']
  repeat' split
  all_goals simp

/-- **`sort` hands the sorting routine a strict weak ordering** (the comparison of `SortKey.lean`, which the
implementation's `sort_compare` is written after): irreflexive, transitive, with transitive incomparability —
ascending and descending, for numbers with NaN, strings, and arrays of them of one shape -/
theorem C09_sort_strict_weak (asc : Bool) :
    SortKey.StrictWeak (fun a b : List SortKey.Atom => SortKey.kinds a = SortKey.kinds b)
      (fun a b => if asc then SortKey.cmpKeys a b < 0 else SortKey.cmpKeys a b > 0) :=
  SortKey.C09_sort_predicate_strict_weak asc

/-- **`sort` neither loses nor invents elements**: when it reorders, the new content is a permutation of the old -/
theorem C09_sort_permutation (id : Nat) (b : Bool) (m : M) (res : OpRes) (h : bop_sort (.ref id) (.bool b) m = some res)
    (hid : id < m.heap.length) : (res.1.arr id).Perm (m.arr id) := by
  have logarr : ∀ (mm : M) c j, (mm.log c).arr j = mm.arr j := by
    intro mm c j; unfold M.log M.arr; simp only; split <;> rfl
  have foldarr : ∀ (l : List Val) (mm : M), (l.foldl (fun acc _ => acc.log Diag.runtime_ExpectedArrayTypeMissmatch) mm).arr id = mm.arr id := by
    intro l; induction l with
    | nil => intro mm; rfl
    | cons a as ih => intro mm; simp only [List.foldl_cons]; rw [ih, logarr]
  have foldarr2 : ∀ (l : List Nat) (mm : M), (l.foldl (fun acc _ => acc.log Diag.runtime_ExpectedArrayTypeMissmatch) mm).arr id = mm.arr id := by
    intro l; induction l with
    | nil => intro mm; rfl
    | cons a as ih => intro mm; simp only [List.foldl_cons]; rw [ih, logarr]
  have sorted : ∀ le, ((m.setArr id ((m.arr id).mergeSort le)).arr id).Perm (m.arr id) := by
    intro le
    have : (m.setArr id ((m.arr id).mergeSort le)).arr id = (m.arr id).mergeSort le := by
      simp [M.setArr, M.arr, List.getD_eq_getElem?_getD, hid]
    rw [this]
    exact List.mergeSort_perm _ _
  unfold bop_sort at h
  simp only [pure'] at h
  repeat' split at h
  all_goals (simp only [Option.some.injEq] at h; subst h)
  all_goals first
    | exact List.Perm.refl _
    | (rw [logarr])
    | (rw [foldarr])
    | (rw [foldarr2])
    | exact sorted _

/-! ## Iteration over an array the code may change -/

/-- **`count`, `forEach`, `select`, `apply` and `findIf` never read behind the end of the array**: whatever
the code did to the array (the size is re-read after every iteration), deciding the next step never lets
`vector::at` throw — the fourth component of the decision, "an exception escaped", is always false -/
theorem C09_iteration_never_escapes (m : M) (res : Option Val) (arr idx size : Nat) :
    (∀ cnt, (behDecide (.count arr idx size cnt) res m).2.2.2 = false) ∧
    (behDecide (.forEach arr idx size) res m).2.2.2 = false ∧
    (∀ out, (behDecide (.select arr out idx size) res m).2.2.2 = false) ∧
    (∀ out, (behDecide (.apply arr out idx size) res m).2.2.2 = false) ∧
    (behDecide (.findIf arr idx size) res m).2.2.2 = false := by
  obtain ⟨a2, ha2⟩ : ∃ a, resizeActs m arr size = (a, (m.arr arr).length) := by
    unfold resizeActs
    by_cases h : size = (m.arr arr).length
    · exact ⟨[], by simp [h]⟩
    · exact ⟨[.log Diag.runtime_ArraySizeChanged], by simp [h]⟩
  by_cases hlast : idx + 1 ≥ (m.arr arr).length
  · refine ⟨?_, ?_, ?_, ?_, ?_⟩
    · intro cnt; simp only [behDecide, ha2, hlast, if_true]
    · simp only [behDecide, ha2, hlast, if_true]
    · intro out
      simp only [behDecide, ha2, hlast, if_true]
      repeat' split
      all_goals rfl
    · intro out; simp only [behDecide, ha2, hlast, if_true]
    · simp only [behDecide, ha2, hlast, if_true]
      repeat' split
      all_goals rfl
  · have hn : ¬ (m.arr arr).length ≤ idx + 1 := by omega
    refine ⟨?_, ?_, ?_, ?_, ?_⟩
    · intro cnt; simp only [behDecide, ha2, hlast, if_false, iterNext, hn]
    · simp only [behDecide, ha2, hlast, if_false, iterNext, hn]
    · intro out
      simp only [behDecide, ha2, hlast, if_false, iterNext, hn]
      repeat' split
      all_goals rfl
    · intro out; simp only [behDecide, ha2, hlast, if_false, iterNext, hn]
    · simp only [behDecide, ha2, hlast, if_false, iterNext, hn]
      repeat' split
      all_goals rfl

end Sqf.Props.C09
