import SqfModel.Preproc
/-!
# C13 — preprocessor output equals the reference expansion; strings are inviolate

The reference expander is `SqfModel/Preproc.lean` (`Sqf.Pp.run`). The check compares the implementation
with it byte for byte on generated sources; the theorems below are what the reference guarantees for
*every* source, so that agreement with the reference carries them over to the implementation's output.

Reader (`strip`, the model of `preprocessorfileinfo::next`):
* `C13_reader_string_inviolate` — a double-quoted string is delivered unaltered, whatever it holds;
* `C13_reader_line_comment`, `C13_reader_block_comment` — comments are removed, newlines kept;
* `C13_reader_continuation` — backslash-newline joins lines (in strings too, with CR LF too);
* `strip_plain` — text without `\r`, `\` and `/` is delivered as it is.

Main loop (`step`, `loop`, `runFile`, the model of `parse_file` / `parse_ppinstruction`):
* `C13_step_string` — a string in active text reaches the output unaltered, the macro table untouched;
* `C13_step_inactive`, `C13_inactive_silent` — in an inactive section nothing but newlines reaches the output
  and no directive has an effect other than on the conditions;
* `C13_directives_obeyed`, `find_define_*`, `find_undef_*`, `C13_nested_inactive` — what the directives do;
* `C13_plain_passthrough` — text without directive, macro name or comment passes through byte for byte
  (identifiers are looked up as maximal runs only: `idents`).

Expansion (`expandCall`, `scanBody`, the model of `handle_macro` / `replace`):
* `C13_expand_object_inert` — an object-like macro whose text holds nothing to substitute expands to that text;
* `C13_scanBody_substitutes` — a body of literal text and parameter names expands to the text with every
  parameter replaced by its argument;
* `C13_stringify`, `C13_concat` — `#p` gives the argument in double quotes, `a##b` the two arguments side by side.
-/
set_option linter.unusedSimpArgs false
set_option linter.unusedVariables false
namespace Sqf.Props.C13
open Sqf Sqf.Pp

/-! ## The reader -/

theorem base_plain (inStr : Bool) (ln : Nat) (c : B) (h1 : c ≠ 13) (h2 : c ≠ 92) (h3 : c ≠ 34) (h4 : c ≠ 47 ∨ inStr = true) :
    base inStr ln c = ([(c, if c = 10 then ln + 1 else ln)], RS.base inStr, if c = 10 then ln + 1 else ln) := by
  unfold base
  rw [if_neg h1, if_neg h2, if_neg (by intro h; cases h4 with | inl h' => exact h' h.1 | inr h' => rw [h'] at h; exact absurd h.2 (by simp)), if_neg h3]
  split <;> simp_all

theorem newlines_cons (c : B) (cs : List B) : newlines (c :: cs) = (if c = 10 then 1 else 0) + newlines cs := by
  unfold newlines
  by_cases h : c = 10 <;> simp [h, List.filter_cons] <;> omega

/-- inside a string every character other than the quote, the backslash and the carriage return is delivered as it is -/
theorem strip_str_body (body : List B) : ∀ (ln : Nat) (rest : List B),
    (∀ c ∈ body, c ≠ 34 ∧ c ≠ 92 ∧ c ≠ 13) →
    txt (strip .str ln (body ++ rest)) = body ++ txt (strip .str (ln + newlines body) rest) := by
  induction body with
  | nil => intro ln rest _; simp [newlines]
  | cons c cs ih =>
    intro ln rest h
    have hc := h c (by simp)
    have hcs : ∀ x ∈ cs, x ≠ 34 ∧ x ≠ 92 ∧ x ≠ 13 := fun x hx => h x (by simp [hx])
    rw [List.cons_append, strip]
    have hb : stepC .str ln c = ([(c, if c = 10 then ln + 1 else ln)], RS.str, if c = 10 then ln + 1 else ln) := by
      show base true ln c = _
      rw [base_plain true ln c hc.2.2 hc.2.1 hc.1 (Or.inr rfl)]; rfl
    rw [hb]
    simp only [txt, List.map_append, List.map_cons, List.map_nil, List.singleton_append, List.cons.injEq, true_and]
    have := ih (if c = 10 then ln + 1 else ln) rest hcs
    simp only [txt] at this
    rw [this, newlines_cons]
    have e : (if c = 10 then ln + 1 else ln) + newlines cs = ln + ((if c = 10 then 1 else 0) + newlines cs) := by
      split <;> omega
    rw [e]
    rfl

/-- **Strings are inviolate (reader)**: a double-quoted string met in code is delivered unaltered — comment
markers, `#`, macro names inside it mean nothing — and the reader is back in code behind it. (A backslash is
excluded because a backslash-newline pair is a line continuation inside strings too; a carriage return
because line ends are normalised.) -/
theorem C13_reader_string_inviolate (body rest : List B) (ln : Nat) (h : ∀ c ∈ body, c ≠ 34 ∧ c ≠ 92 ∧ c ≠ 13) :
    txt (strip .code ln (34 :: body ++ 34 :: rest)) = 34 :: body ++ 34 :: txt (strip .code (ln + newlines body) rest) := by
  rw [List.cons_append, strip]
  have h1 : stepC .code ln 34 = ([(34, ln)], RS.str, ln) := by simp [stepC, base, RS.base]
  rw [h1]
  simp only [txt, List.map_append, List.map_cons, List.map_nil, List.singleton_append]
  have := strip_str_body body ln (34 :: rest) h
  simp only [txt] at this
  rw [this, strip]
  have h2 : stepC .str (ln + newlines body) 34 = ([(34, ln + newlines body)], RS.code, ln + newlines body) := by
    simp [stepC, base, RS.base]
  rw [h2]
  simp

/-- in a line comment everything up to the newline is dropped -/
theorem strip_line_body (body : List B) : ∀ (ln : Nat) (rest : List B), (∀ c ∈ body, c ≠ 10) →
    strip .line ln (body ++ rest) = strip .line ln rest := by
  induction body with
  | nil => intro ln rest _; rfl
  | cons c cs ih =>
    intro ln rest h
    rw [List.cons_append, strip]
    have hc : c ≠ 10 := h c (by simp)
    have : stepC .line ln c = ([], RS.line, ln) := by simp [stepC, hc]
    rw [this]
    simpa using ih ln rest (fun x hx => h x (by simp [hx]))

/-- **`//` comments are removed**, the newline that ends them stays -/
theorem C13_reader_line_comment (body rest : List B) (ln : Nat) (h : ∀ c ∈ body, c ≠ 10) :
    txt (strip .code ln (47 :: 47 :: body ++ 10 :: rest)) = 10 :: txt (strip .code (ln + 1) rest) := by
  rw [List.cons_append, List.cons_append, strip]
  have h1 : stepC .code ln 47 = ([], RS.slash, ln) := by simp [stepC, base]
  rw [h1]
  simp only [List.nil_append]
  rw [strip]
  have h2 : stepC .slash ln 47 = ([], RS.line, ln) := by simp [stepC]
  rw [h2]
  simp only [List.nil_append]
  rw [strip_line_body body ln (10 :: rest) h, strip]
  have h3 : stepC .line ln 10 = ([(10, ln + 1)], RS.code, ln + 1) := by simp [stepC]
  rw [h3]
  simp [txt]

/-- in a block comment everything but the newlines is dropped -/
theorem strip_block_body (body : List B) : ∀ (ln : Nat) (rest : List B), (∀ c ∈ body, c ≠ 42) →
    txt (strip .block ln (body ++ rest)) = body.filter (· = 10) ++ txt (strip .block (ln + newlines body) rest) := by
  induction body with
  | nil => intro ln rest _; simp [newlines]
  | cons c cs ih =>
    intro ln rest h
    have hc : c ≠ 42 := h c (by simp)
    have hcs : ∀ x ∈ cs, x ≠ 42 := fun x hx => h x (by simp [hx])
    rw [List.cons_append, strip]
    by_cases hn : c = 10
    · subst hn
      have : stepC .block ln 10 = ([(10, ln + 1)], RS.block, ln + 1) := by simp [stepC]
      rw [this]
      have ih' := ih (ln + 1) rest hcs
      simp only [txt] at ih' ⊢
      simp only [List.map_append, List.map_cons, List.map_nil, List.singleton_append, ih', newlines_cons, if_true]
      simp [List.filter_cons]
      congr 2; omega
    · have : stepC .block ln c = ([], RS.block, ln) := by simp [stepC, hn, hc]
      rw [this]
      have ih' := ih ln rest hcs
      simp only [List.nil_append, ih', newlines_cons, if_neg hn]
      simp [List.filter_cons, hn]

/-- **`/* */` comments are removed**; the newlines inside them stay (so that lines keep their numbers) -/
theorem C13_reader_block_comment (body rest : List B) (ln : Nat) (h : ∀ c ∈ body, c ≠ 42) :
    txt (strip .code ln (47 :: 42 :: body ++ 42 :: 47 :: rest)) =
      body.filter (· = 10) ++ txt (strip .code (ln + newlines body) rest) := by
  rw [List.cons_append, List.cons_append, strip]
  have h1 : stepC .code ln 47 = ([], RS.slash, ln) := by simp [stepC, base]
  rw [h1]
  simp only [List.nil_append]
  rw [strip]
  have h2 : stepC .slash ln 42 = ([], RS.block, ln) := by simp [stepC]
  rw [h2]
  simp only [List.nil_append]
  rw [strip_block_body body ln (42 :: 47 :: rest) h, strip]
  have h3 : ∀ l, stepC .block l 42 = ([], RS.star, l) := by intro l; simp [stepC]
  rw [h3]
  simp only [List.nil_append]
  rw [strip]
  have h4 : ∀ l, stepC .star l 47 = ([], RS.code, l) := by intro l; simp [stepC]
  rw [h4]
  simp

/-- **backslash-newline joins lines**, in code and inside strings, with and without a carriage return -/
theorem C13_reader_continuation (rest : List B) (ln : Nat) (inStr : Bool) :
    strip (RS.base inStr) ln (92 :: 10 :: rest) = strip (RS.base inStr) (ln + 1) rest ∧
    strip (RS.base inStr) ln (92 :: 13 :: 10 :: rest) = strip (RS.base inStr) (ln + 1) rest := by
  cases inStr <;> simp [strip, stepC, base, RS.base]

/-- text without carriage returns, backslashes and slashes is delivered as it is, whatever it holds -/
theorem strip_plain (text : List B) : ∀ (inStr : Bool) (ln : Nat), (∀ c ∈ text, c ≠ 13 ∧ c ≠ 92 ∧ c ≠ 47) →
    txt (strip (RS.base inStr) ln text) = text := by
  induction text with
  | nil => intro inStr ln _; cases inStr <;> rfl
  | cons c cs ih =>
    intro inStr ln h
    have hc := h c (by simp)
    have hcs : ∀ x ∈ cs, x ≠ 13 ∧ x ≠ 92 ∧ x ≠ 47 := fun x hx => h x (by simp [hx])
    rw [strip]
    have hs : stepC (RS.base inStr) ln c = base inStr ln c := by cases inStr <;> rfl
    rw [hs]
    by_cases hq : c = 34
    · subst hq
      have : base inStr ln 34 = ([(34, ln)], RS.base (!inStr), ln) := by simp [base]
      rw [this]
      have := ih (!inStr) ln hcs
      simp only [txt] at this ⊢
      simp [this]
    · rw [base_plain inStr ln c hc.1 hc.2.1 hq (Or.inl hc.2.2)]
      have := ih inStr (if c = 10 then ln + 1 else ln) hcs
      simp only [txt] at this ⊢
      simp [this]

/-! ## The main loop -/

theorem emit_inactive (st : St) (x : List B) (h : st.writing = false) : st.emit x = st := by
  simp [St.emit, h]

/-! ### `sync`: the line count of the output follows the line of the input -/

theorem sync_table (st : St) (phys : List B) (ln : Nat) (a : Bool) : (st.sync phys ln a).table = st.table := by
  unfold St.sync
  split
  · rfl
  · split <;> rfl

theorem sync_conds (st : St) (phys : List B) (ln : Nat) (a : Bool) : (st.sync phys ln a).conds = st.conds := by
  unfold St.sync
  split
  · rfl
  · split <;> rfl

theorem sync_writing (st : St) (phys : List B) (ln : Nat) (a : Bool) : (st.sync phys ln a).writing = st.writing := by
  simp [St.writing, sync_conds]

/-- what `sync` may add to the output: newlines, or a newline and a `#line` marker -/
def SyncOut (phys : List B) (o o' : List B) : Prop :=
  (∃ k, o' = o ++ List.replicate k nl) ∨ (∃ n, o' = o ++ [nl] ++ lineMarker n phys)

theorem sync_out (st : St) (phys : List B) (ln : Nat) (a : Bool) : SyncOut phys st.out (st.sync phys ln a).out := by
  unfold St.sync
  split
  · exact Or.inl ⟨_, rfl⟩
  · split
    · exact Or.inr ⟨_, rfl⟩
    · exact Or.inl ⟨0, by simp⟩

/-- **Every `sync` leaves the output at the line of the input** -/
theorem sync_ol (st : St) (phys : List B) (ln : Nat) (a : Bool) : (st.sync phys ln a).ol = ln := by
  unfold St.sync
  split
  · rfl
  · next h1 =>
    split
    · rfl
    · next h2 =>
      simp only [Bool.or_eq_true, decide_eq_true_eq, not_or] at h2
      show st.ol = ln
      omega

/-- the usual case: one line was consumed, one newline is written -/
theorem sync_one (st : St) (phys : List B) (ln : Nat) (h : st.ol + 1 = ln) :
    st.sync phys ln true = { st with out := st.out ++ [nl], ol := ln } := by
  unfold St.sync
  have : st.ol < ln := by omega
  simp only [this, if_true]
  have : ln - st.ol = 1 := by omega
  rw [this]; rfl

/-- what a step may do to the conditions of the file -/
def CondsStep (c c' : List Bool) : Prop :=
  c' = c ∨ (∃ b, c' = b :: c) ∨ (∃ b cs, c = b :: cs ∧ (c' = (!b) :: cs ∨ c' = cs))

/-- **Inactive sections are silent (one step)**: while the conditionals of the file do not allow writing, a
token or a directive — whatever it is: a macro use, a `#define`, an `#undef`, an `#include`, an unknown
directive — leaves the macro table as it is and adds nothing to the output but what keeps its line count
right (newlines, or a newline and a `#line` marker); only the conditions change (an `#ifdef` opens one,
`#else` flips, `#endif` closes the innermost) -/
theorem C13_step_inactive (e : Env) (f : Nat) (stack : List (List B)) (phys : List B) (st : St) (ch : Ch) (rest : List Ch)
    (bol : Bool) (ln : Nat) (st' : St) (pos : Pos) (hw : st.writing = false)
    (h : step e f stack phys st ch rest bol ln = .ok (st', pos)) :
    st'.table = st.table ∧ SyncOut phys st.out st'.out ∧ CondsStep st.conds st'.conds := by
  have same : SyncOut phys st.out st.out := Or.inl ⟨0, by simp⟩
  cases f with
  | zero => simp [step] at h
  | succ f =>
    obtain ⟨c, l⟩ := ch
    rw [step] at h
    simp only [] at h
    split at h
    · simp only [emit_inactive st _ hw, Except.ok.injEq, Prod.mk.injEq] at h
      rw [← h.1]; exact ⟨rfl, same, Or.inl rfl⟩
    · split at h
      · simp only [Except.ok.injEq, Prod.mk.injEq] at h
        rw [← h.1]; exact ⟨sync_table .., sync_out .., Or.inl (sync_conds ..)⟩
      · split at h
        · -- a directive
          cases f with
          | zero => simp [directive] at h
          | succ f =>
            rw [directive] at h
            split at h
            · simp only [Except.ok.injEq, Prod.mk.injEq] at h
              rw [← h.1]; exact ⟨sync_table .., sync_out .., Or.inr (Or.inl ⟨_, rfl⟩)⟩
            · simp only [Except.ok.injEq, Prod.mk.injEq] at h
              rw [← h.1]; exact ⟨sync_table .., sync_out .., Or.inr (Or.inl ⟨_, rfl⟩)⟩
            · split at h
              · cases h
              · next b cs hc =>
                simp only [Except.ok.injEq, Prod.mk.injEq] at h
                rw [← h.1]; exact ⟨sync_table .., sync_out .., Or.inr (Or.inr ⟨b, cs, hc, Or.inl rfl⟩)⟩
            · split at h
              · cases h
              · next b cs hc =>
                simp only [Except.ok.injEq, Prod.mk.injEq] at h
                rw [← h.1]; exact ⟨sync_table .., sync_out .., Or.inr (Or.inr ⟨b, cs, hc, Or.inr rfl⟩)⟩
            · simp only [hw, Bool.not_false, if_true, Except.ok.injEq, Prod.mk.injEq] at h
              rw [← h.1]; exact ⟨sync_table .., sync_out .., Or.inl (sync_conds ..)⟩
        · split at h
          · simp only [hw, Bool.not_false, if_true, Except.ok.injEq, Prod.mk.injEq] at h
            rw [← h.1]; exact ⟨rfl, same, Or.inl rfl⟩
          · simp only [emit_inactive st _ hw, Except.ok.injEq, Prod.mk.injEq] at h
            rw [← h.1]; exact ⟨rfl, same, Or.inl rfl⟩

/-- a run of the main loop of one file: zero or more steps (each with whatever fuel it was given) -/
inductive Steps (e : Env) (stack : List (List B)) (phys : List B) : St × Pos → St × Pos → Prop where
  | refl (x : St × Pos) : Steps e stack phys x x
  | next {f : Nat} {st : St} {ch : Ch} {rest : List Ch} {b : Bool} {l : Nat} {y z : St × Pos} :
      step e f stack phys st ch rest b l = .ok y → Steps e stack phys y z → Steps e stack phys (st, (ch :: rest, b, l)) z

/-- the loop is such a run, to the end of the text -/
theorem loop_steps (e : Env) (stack : List (List B)) (phys : List B) : ∀ (f : Nat) (st : St) (t : List Ch) (b : Bool) (l : Nat) (st' : St),
    loop e f stack phys st t b l = .ok st' → ∃ b' l', Steps e stack phys (st, (t, b, l)) (st', ([], b', l')) := by
  intro f
  induction f with
  | zero => intro st t b l st' h; simp [loop] at h
  | succ f ih =>
    intro st t b l st' h
    cases t with
    | nil =>
      simp only [loop, Except.ok.injEq] at h
      subst h
      exact ⟨b, l, Steps.refl _⟩
    | cons ch rest =>
      rw [loop] at h
      split at h
      · cases h
      · next st1 rest1 b1 l1 hs =>
        obtain ⟨b', l', hr⟩ := ih st1 rest1 b1 l1 st' h
        exact ⟨b', l', Steps.next hs hr⟩

/-- a run all of whose steps start while writing is not allowed -/
inductive QuietSteps (e : Env) (stack : List (List B)) (phys : List B) : St × Pos → St × Pos → Prop where
  | refl (x : St × Pos) : QuietSteps e stack phys x x
  | next {f : Nat} {st : St} {ch : Ch} {rest : List Ch} {b : Bool} {l : Nat} {y z : St × Pos} :
      st.writing = false → step e f stack phys st ch rest b l = .ok y → QuietSteps e stack phys y z →
      QuietSteps e stack phys (st, (ch :: rest, b, l)) z

/-- text that consists of newlines and `#line` markers of the file only -/
inductive Fill (phys : List B) : List B → Prop where
  | nil : Fill phys []
  | nls (k : Nat) {rest : List B} : Fill phys rest → Fill phys (List.replicate k nl ++ rest)
  | marker (n : Nat) {rest : List B} : Fill phys rest → Fill phys ([nl] ++ lineMarker n phys ++ rest)

/-- **Text in an inactive conditional branch never reaches the output and directives there have no
effect**: over any stretch of a file during which the conditionals do not allow writing, the macro table
stays as it was and the output grows by newlines and `#line` markers only (they keep the line numbers of
what follows) -/
theorem C13_inactive_silent (e : Env) (stack : List (List B)) (phys : List B) (x y : St × Pos)
    (h : QuietSteps e stack phys x y) :
    y.1.table = x.1.table ∧ ∃ fill, Fill phys fill ∧ y.1.out = x.1.out ++ fill := by
  induction h with
  | refl x => exact ⟨rfl, [], Fill.nil, by simp⟩
  | @next f st ch rest b l y z hw hs _ ih =>
    obtain ⟨st1, pos1⟩ := y
    obtain ⟨ht, ho, _⟩ := C13_step_inactive e f stack phys st ch rest b l st1 pos1 hw hs
    obtain ⟨iht, fill, hf, ihk⟩ := ih
    refine ⟨by simpa [ht] using iht, ?_⟩
    cases ho with
    | inl ho =>
      obtain ⟨k, hk⟩ := ho
      exact ⟨List.replicate k nl ++ fill, Fill.nls k hf, by simp only [] at ihk hk ⊢; rw [ihk, hk, List.append_assoc]⟩
    | inr ho =>
      obtain ⟨n, hn⟩ := ho
      exact ⟨[nl] ++ lineMarker n phys ++ fill, Fill.marker n hf, by simp only [] at ihk hn ⊢; rw [ihk, hn]; simp [List.append_assoc]⟩

theorem emit_active (st : St) (x : List B) (h : st.writing = true) : st.emit x = st.write x := by
  simp [St.emit, h]

theorem takeString_spec (body : List Ch) (q : Ch) (rest : List Ch) (hq : q.1 = 34) (h : ∀ c ∈ body, c.1 ≠ 34) :
    takeString (body ++ q :: rest) = (txt body ++ [34], rest) := by
  induction body with
  | nil => obtain ⟨c, l⟩ := q; simp only [] at hq; subst hq; simp [takeString, quote, txt]
  | cons c cs ih =>
    obtain ⟨c0, l0⟩ := c
    have hc : c0 ≠ 34 := h (c0, l0) (by simp)
    have := ih (fun x hx => h x (by simp [hx]))
    simp [takeString, quote, hc, this, txt]

/-- **Strings are inviolate (main loop)**: a string in active text is written to the output exactly as the
reader delivered it; neither macro names nor `#` inside it are looked at, the macro table is untouched -/
theorem C13_step_string (e : Env) (f : Nat) (stack : List (List B)) (phys : List B) (st : St) (l : Nat) (body : List Ch) (q : Ch)
    (rest : List Ch) (bol : Bool) (ln : Nat) (hq : q.1 = 34) (h : ∀ c ∈ body, c.1 ≠ 34) (hw : st.writing = true) :
    ∃ l', step e (f + 1) stack phys st (34, l) (body ++ q :: rest) bol ln =
      .ok (st.write (34 :: txt body ++ [34]), (rest, false, l')) := by
  refine ⟨lastLine ((34, l) :: List.take ((txt body).length + 1) (body ++ q :: rest)) l, ?_⟩
  rw [step]
  simp [quote, takeString_spec body q rest hq h, emit_active _ _ hw]

/-- the identifiers of a text: its maximal runs of letters, digits and underscores -/
def idents : List B → List B → List (List B)
  | [], cur => if cur.isEmpty then [] else [cur.reverse]
  | c :: cs, cur => if isWordChar c then idents cs (c :: cur) else (if cur.isEmpty then [] else [cur.reverse]) ++ idents cs []

theorem idents_nonword (c : B) (t : List B) (h : isWordChar c = false) : idents (c :: t) [] = idents t [] := by
  simp [idents, h]

/-- a run of identifier characters followed by the end of the text or by another character is one identifier -/
theorem idents_word (wd : List B) : ∀ (cur r : List B), (∀ c ∈ wd, isWordChar c = true) →
    (∀ c r', r = c :: r' → isWordChar c = false) →
    idents (wd ++ r) cur = (if (cur.reverse ++ wd).isEmpty then [] else [cur.reverse ++ wd]) ++ idents r [] := by
  induction wd with
  | nil =>
    intro cur r _ hr
    cases r with
    | nil => simp [idents]
    | cons c r' => simp [idents, hr c r' rfl]
  | cons c cs ih =>
    intro cur r hwd hr
    have hc := hwd c (by simp)
    rw [List.cons_append, idents]
    simp only [hc, if_true]
    rw [ih (c :: cur) r (fun x hx => hwd x (by simp [hx])) hr]
    simp

theorem dropWhile_eq_drop (p : B → Bool) (l : List B) : l.dropWhile p = l.drop (l.takeWhile p).length := by
  induction l with
  | nil => rfl
  | cons a t ih => by_cases h : p a <;> simp [List.dropWhile, List.takeWhile, h, ih]

theorem dropWhile_head (p : B → Bool) (l : List B) : ∀ c r', l.dropWhile p = c :: r' → p c = false := by
  induction l with
  | nil => intro c r' h; simp at h
  | cons a t ih =>
    intro c r' h
    by_cases ha : p a
    · simp [List.dropWhile, ha] at h; exact ih c r' h
    · simp [List.dropWhile, ha] at h; rw [← h.1]; simpa using ha

theorem txt_drop (k : Nat) (l : List Ch) : txt (l.drop k) = (txt l).drop k := by
  simp [txt, List.map_drop]

theorem takeString_txt : ∀ (rest : List Ch), ∃ k, takeString rest = (txt (rest.take k), rest.drop k) ∧ k ≤ rest.length ∧
    (rest.drop k = [] ∨ (txt (rest.take k)).getLast? = some 34) := by
  intro rest
  induction rest with
  | nil => exact ⟨0, by simp [takeString, txt], by simp, Or.inl rfl⟩
  | cons c t ih =>
    obtain ⟨c0, l0⟩ := c
    by_cases hq : c0 = 34
    · subst hq
      exact ⟨1, by simp [takeString, quote, txt], by simp, Or.inr (by simp [txt])⟩
    · obtain ⟨k, hk, hle, hend⟩ := ih
      refine ⟨k + 1, by simp [takeString, quote, hq, hk, txt], by simp; omega, ?_⟩
      cases hend with
      | inl h => exact Or.inl (by simpa using h)
      | inr h =>
        right
        simp only [List.take_succ_cons, txt, List.map_cons] at h ⊢
        cases hm : List.map (fun x => x.1) (List.take k t) with
        | nil => rw [hm] at h; simp at h
        | cons a as => rw [hm] at h; simpa [List.getLast?_cons_cons] using h

/-- the identifiers behind a prefix that does not end in an identifier character are identifiers of the whole -/
theorem idents_suffix (a : List B) : ∀ (b cur : List B), (a = [] → cur = []) → (∀ c, a.getLast? = some c → isWordChar c = false) →
    ∀ w ∈ idents b [], w ∈ idents (a ++ b) cur := by
  induction a with
  | nil => intro b cur hc _ w hw; simpa [hc rfl] using hw
  | cons c cs ih =>
    intro b cur _ hl w hw
    rw [List.cons_append, idents]
    by_cases hcw : isWordChar c = true
    · simp only [hcw, if_true]
      have hne : cs ≠ [] := by
        intro h; subst h
        have := hl c (by simp)
        rw [this] at hcw; cases hcw
      exact ih b (c :: cur) (fun h => absurd h hne) (fun x hx => hl x (by
        cases cs with
        | nil => exact absurd rfl hne
        | cons d ds => simpa [List.getLast?_cons_cons] using hx)) w hw
    · simp only [hcw, Bool.false_eq_true, if_false]
      apply List.mem_append_right
      cases cs with
      | nil => simpa using hw
      | cons d ds =>
        exact ih b [] (fun h => by cases h) (fun x hx => hl x (by simpa [List.getLast?_cons_cons] using hx)) w hw

theorem takeWhile_eq_take (p : B → Bool) (l : List B) : l.takeWhile p = l.take (l.takeWhile p).length := by
  induction l with
  | nil => rfl
  | cons a t ih => by_cases h : p a <;> simp [List.takeWhile, h]; exact ih

theorem mem_takeWhile_p (p : B → Bool) (l : List B) : ∀ x ∈ l.takeWhile p, p x = true := by
  induction l with
  | nil => intro x hx; simp at hx
  | cons a t ih =>
    intro x hx
    by_cases h : p a
    · simp only [List.takeWhile, h, List.mem_cons] at hx
      cases hx with
      | inl e => rw [e]; exact h
      | inr e => exact ih x e
    · simp [List.takeWhile, h] at hx

theorem length_takeWhile_le_len (p : B → Bool) (l : List B) : (l.takeWhile p).length ≤ l.length := by
  induction l with
  | nil => simp
  | cons a t ih => by_cases h : p a <;> simp [List.takeWhile, h]; omega

theorem txt_take (k : Nat) (l : List Ch) : txt (l.take k) = (txt l).take k := by
  simp [txt, List.map_take]

theorem txt_length (l : List Ch) : (txt l).length = l.length := by simp [txt]

/-- the line annotations of delivered characters count exactly the newlines among them (no line was joined
    and no comment removed in between) -/
def Consistent : Nat → List Ch → Prop
  | _, [] => True
  | ln, (c, l) :: rest => l = (if c = 10 then ln + 1 else ln) ∧ Consistent l rest

theorem lastLine_cons (c : B) (l : Nat) (t : List Ch) (d : Nat) : lastLine ((c, l) :: t) d = lastLine t l := by
  cases t <;> simp [lastLine, List.getLast?, List.getLast?_cons_cons]

theorem consistent_take_drop : ∀ (t : List Ch) (ln k : Nat), Consistent ln t →
    lastLine (t.take k) ln = ln + newlines (txt (t.take k)) ∧ Consistent (ln + newlines (txt (t.take k))) (t.drop k) := by
  intro t
  induction t with
  | nil => intro ln k _; simp [lastLine, txt, newlines, Consistent]
  | cons ch rest ih =>
    intro ln k h
    obtain ⟨c, l⟩ := ch
    cases k with
    | zero => simpa [lastLine, txt, newlines] using h
    | succ k =>
      obtain ⟨hl, hr⟩ := h
      obtain ⟨h1, h2⟩ := ih l k hr
      have e : l + newlines (txt (rest.take k)) = ln + newlines (txt (((c, l) :: rest).take (k + 1))) := by
        simp only [List.take_succ_cons, txt, List.map_cons]
        have := newlines_cons c (List.map (fun x => x.1) (rest.take k))
        simp only [txt] at *
        rw [this, hl]; split <;> omega
      refine ⟨?_, by simpa [e] using h2⟩
      rw [← e, ← h1, List.take_succ_cons, lastLine_cons]

theorem strip_plain_consistent (text : List B) : ∀ (inStr : Bool) (ln : Nat), (∀ c ∈ text, c ≠ 13 ∧ c ≠ 92 ∧ c ≠ 47) →
    Consistent ln (strip (RS.base inStr) ln text) := by
  induction text with
  | nil => intro inStr ln _; cases inStr <;> simp [strip, flush, RS.base, Consistent]
  | cons c cs ih =>
    intro inStr ln h
    have hc := h c (by simp)
    have hcs : ∀ x ∈ cs, x ≠ 13 ∧ x ≠ 92 ∧ x ≠ 47 := fun x hx => h x (by simp [hx])
    rw [strip]
    have hs : stepC (RS.base inStr) ln c = base inStr ln c := by cases inStr <;> rfl
    rw [hs]
    by_cases hq : c = 34
    · subst hq
      have : base inStr ln 34 = ([(34, ln)], RS.base (!inStr), ln) := by simp [base]
      rw [this]
      exact ⟨by simp, ih (!inStr) ln hcs⟩
    · rw [base_plain inStr ln c hc.1 hc.2.1 hq (Or.inl hc.2.2)]
      exact ⟨rfl, ih inStr _ hcs⟩

/-- one step over text that holds no `#` and no macro name: what was consumed is what is written, and the
    line count of the output moves with the line of the input -/
theorem step_plain (e : Env) (f : Nat) (stack : List (List B)) (phys : List B) (st : St) (c : B) (l : Nat) (rest : List Ch) (bol : Bool) (ln : Nat)
    (hw : st.writing = true) (hc : c ≠ 35) (hol : st.ol = ln) (hcons : Consistent ln ((c, l) :: rest))
    (hid : ∀ w ∈ idents (c :: txt rest) [], st.table.find w = none) :
    ∃ k, k ≤ rest.length ∧
      (step e (f + 1) stack phys st (c, l) rest bol ln).map (fun r => (r.1, r.2.1, r.2.2.2)) =
        .ok (st.write (c :: txt (rest.take k)), rest.drop k, ln + newlines (c :: txt (rest.take k))) ∧
      ∀ w ∈ idents (txt (rest.drop k)) [], st.table.find w = none := by
  have hline : ∀ k, lastLine (((c, l) :: rest).take (k + 1)) ln = ln + newlines (c :: txt (rest.take k)) := by
    intro k
    have := (consistent_take_drop ((c, l) :: rest) ln (k + 1) hcons).1
    simpa [txt] using this
  have hl : l = ln + newlines [c] := by
    have := hline 0
    simpa [lastLine, txt] using this
  rw [step]
  by_cases hq : c = 34
  · subst hq
    obtain ⟨k, hk, hle, hend⟩ := takeString_txt rest
    refine ⟨k, hle, ?_, ?_⟩
    · have hlen : (txt (rest.take k)).length = k := by simp [txt, Nat.min_eq_left hle]
      have h2 := hline k
      simp only [List.take_succ_cons] at h2
      have hd : lastLine ((34, l) :: rest.take k) l = lastLine ((34, l) :: rest.take k) ln := by rw [lastLine_cons, lastLine_cons]
      simp [quote, hk, emit_active _ _ hw, Except.map, hlen, hd, h2]
    · intro w hw'
      apply hid
      have hsplit : (34 : B) :: txt rest = (34 :: txt (rest.take k)) ++ txt (rest.drop k) := by
        simp [txt, ← List.map_append]
      rw [hsplit]
      cases hend with
      | inl h => rw [h] at hw'; simp [txt, idents] at hw'
      | inr h =>
        apply idents_suffix _ _ _ (by simp) _ w hw'
        intro x hx
        have : x = 34 := by
          cases hm : txt (rest.take k) with
          | nil => rw [hm] at h; simp at h
          | cons a as => rw [hm] at h hx; simp only [List.getLast?_cons_cons] at hx; rw [h] at hx; simpa using hx.symm
        subst this; decide
  · have hq' : (c == quote) = false := by simpa [quote] using hq
    simp only [hq', Bool.false_eq_true, if_false]
    by_cases hn : c = 10
    · subst hn
      have hl1 : l = ln + 1 := by simpa [newlines] using hl
      refine ⟨0, by simp, ?_, ?_⟩
      · simp only [nl, beq_self_eq_true, if_true, Except.map, List.take_zero, txt, List.map_nil, List.drop_zero]
        rw [sync_one st phys l (by omega)]
        simp [St.write, newlines, hl1, hol, nl]
      · intro w hw'
        exact hid w (by rw [idents_nonword 10 _ (by decide)]; simpa using hw')
    · have hn' : (c == nl) = false := by simpa [nl] using hn
      have h35 : (c == 35) = false := by simpa using hc
      simp only [hn', h35, Bool.false_and, Bool.false_eq_true, if_false]
      by_cases hwc : isWordChar c = true
      · simp only [hwc, if_true, hw, Bool.not_true, Bool.false_eq_true, if_false]
        have htw : takeWord (c :: txt rest) = (c :: (txt rest).takeWhile isWordChar, (txt rest).dropWhile isWordChar) := by
          simp [takeWord, List.takeWhile, List.dropWhile, hwc]
        have hids : idents (c :: txt rest) [] = [c :: (txt rest).takeWhile isWordChar] ++ idents ((txt rest).dropWhile isWordChar) [] := by
          have := idents_word (c :: (txt rest).takeWhile isWordChar) [] ((txt rest).dropWhile isWordChar)
            (by intro x hx
                simp only [List.mem_cons] at hx
                cases hx with
                | inl h => rw [h]; exact hwc
                | inr h => exact mem_takeWhile_p _ _ _ h)
            (dropWhile_head isWordChar (txt rest))
          simpa [List.takeWhile_append_dropWhile] using this
        have hnone : st.table.find (c :: (txt rest).takeWhile isWordChar) = none := hid _ (by rw [hids]; simp)
        refine ⟨((txt rest).takeWhile isWordChar).length, ?_, ?_, ?_⟩
        · have := length_takeWhile_le_len isWordChar (txt rest); simpa [txt_length] using this
        · have h2 := hline ((txt rest).takeWhile isWordChar).length
          have hd : ∀ t : List Ch, lastLine ((c, l) :: t) l = lastLine ((c, l) :: t) ln := by
            intro t; rw [lastLine_cons, lastLine_cons]
          simp only [List.take_succ_cons] at h2
          simp only [htw, hnone, List.length_cons, Nat.add_sub_cancel, emit_active _ _ hw, Except.map, List.take_succ_cons, hd, h2]
          rw [txt_take, ← takeWhile_eq_take]
        · intro w hw'
          apply hid
          rw [hids]
          apply List.mem_append_right
          rw [txt_drop, ← dropWhile_eq_drop] at hw'
          exact hw'
      · have hwc' : isWordChar c = false := by simpa using hwc
        simp only [hwc', Bool.false_eq_true, if_false]
        refine ⟨0, by simp, ?_, ?_⟩
        · simp [emit_active _ _ hw, txt, Except.map, hl]
        · intro w hw'
          exact hid w (by rw [idents_nonword c _ hwc']; simpa using hw')

theorem map_ok_inv {α β : Type} (f : α → β) (x : Except Nat α) (y : β) (h : x.map f = .ok y) : ∃ z, x = .ok z ∧ f z = y := by
  cases x with
  | error c => simp [Except.map] at h
  | ok z => exact ⟨z, rfl, by simpa [Except.map] using h⟩

theorem write_write (st : St) (a b : List B) : (st.write a).write b = st.write (a ++ b) := by
  simp [St.write, newlines, List.filter_append, Nat.add_assoc]

/-- the loop over text without `#` and without macro names writes exactly the text -/
theorem loop_plain (e : Env) (stack : List (List B)) (phys : List B) : ∀ (n : Nat) (text : List Ch) (st : St) (bol : Bool) (ln : Nat),
    text.length ≤ n → st.writing = true → st.ol = ln → Consistent ln text → (∀ c ∈ text, c.1 ≠ 35) →
    (∀ w ∈ idents (txt text) [], st.table.find w = none) →
    loop e (n + 2) stack phys st text bol ln = .ok (st.write (txt text)) := by
  intro n
  induction n with
  | zero =>
    intro text st bol ln hlen _ _ _ _ _
    have : text = [] := by cases text with | nil => rfl | cons _ _ => simp at hlen
    subst this
    simp [loop, txt, St.write, newlines]
  | succ n ih =>
    intro text st bol ln hlen hw hol hcons h35 hid
    cases text with
    | nil => simp [loop, txt, St.write, newlines]
    | cons ch rest =>
      obtain ⟨c, l⟩ := ch
      have hc : c ≠ 35 := h35 (c, l) (by simp)
      obtain ⟨k, hk, hstep, hid'⟩ := step_plain e (n + 1) stack phys st c l rest bol ln hw hc hol hcons (by simpa [txt] using hid)
      obtain ⟨z, hz, hproj⟩ := map_ok_inv _ _ _ hstep
      obtain ⟨st1, rest1, b1, l1⟩ := z
      simp only [Prod.mk.injEq] at hproj
      rw [loop, hz]
      simp only []
      obtain ⟨h1, h2, h3⟩ := hproj
      subst h1 h2 h3
      have hcd := (consistent_take_drop ((c, l) :: rest) ln (k + 1) hcons).2
      rw [ih (rest.drop k) (st.write (c :: txt (rest.take k))) b1 _
        (by simp at hlen ⊢; omega) (by simpa [St.write, St.writing] using hw) (by simp [St.write, hol])
        (by simpa [txt] using hcd) (fun x hx => h35 x (by simp [List.mem_of_mem_drop hx])) hid']
      rw [write_write]
      congr 2
      simp only [txt, List.map_cons, List.cons_append]
      rw [← List.map_append, List.take_append_drop]

/-- **Text containing no directive, macro name or comment passes through byte for byte**: a file without
carriage returns, backslashes, slashes and `#` in which no identifier is a macro name is written to the
output unchanged behind the `#line 0` marker of the file, and the macro table stays as it was -/
theorem C13_plain_passthrough (e : Env) (stack : List (List B)) (table : Table) (virt text : List B)
    (h1 : ∀ c ∈ text, c ≠ 13 ∧ c ≠ 92 ∧ c ≠ 47) (h2 : ∀ c ∈ text, c ≠ 35)
    (h3 : ∀ w ∈ idents text [], table.find w = none) :
    runFile e (text.length + 3) stack table virt text = .ok (table, lineMarker 0 (e.root ++ virt) ++ text) := by
  rw [runFile]
  have hs : txt (stripAll text) = text := strip_plain text false 1 h1
  have hl : (stripAll text).length = text.length := by rw [← txt_length, hs]
  have := loop_plain e ((e.root ++ virt) :: stack) (e.root ++ virt) text.length (stripAll text)
    { table := table, out := lineMarker 0 (e.root ++ virt), ol := 1 } true 1 (by omega) rfl rfl
    (strip_plain_consistent text false 1 h1)
    (by intro c hc hc35
        have : c.1 ∈ txt (stripAll text) := List.mem_map_of_mem (f := fun x : Ch => x.1) hc
        rw [hs] at this
        exact h2 c.1 this hc35)
    (by rw [hs]; exact h3)
  rw [this]
  simp [hs, St.write]

/-! ## Directives -/

theorem find_define_same (t : Table) (m : Macro) : (t.define m).find m.name = some m := by
  simp [Table.define, Table.find, List.find?]

theorem find_define_other (t : Table) (m : Macro) (n : List B) (h : n ≠ m.name) : (t.define m).find n = t.find n := by
  have hm : (m.name == n) = false := by simpa using fun e => h e.symm
  simp only [Table.define, Table.find, List.find?, hm]
  induction t with
  | nil => rfl
  | cons a as ih =>
    by_cases ha : a.name = m.name
    · have : (a.name == n) = false := by rw [ha]; exact hm
      simp [List.filter, ha, List.find?, ih, hm]
    · have hne : (a.name != m.name) = true := by simpa using ha
      simp only [List.filter, hne, List.find?]
      cases (a.name == n) <;> simp [ih]

theorem find_undef_same (t : Table) (n : List B) : (t.undef n).find n = none := by
  simp only [Table.undef, Table.find]
  induction t with
  | nil => rfl
  | cons a as ih =>
    by_cases ha : a.name = n
    · simp [List.filter, ha, ih]
    · have hne : (a.name != n) = true := by simpa using ha
      have : (a.name == n) = false := by simpa using ha
      simp [List.filter, hne, List.find?, this, ih]

theorem find_undef_other (t : Table) (n k : List B) (h : k ≠ n) : (t.undef n).find k = t.find k := by
  simp only [Table.undef, Table.find]
  induction t with
  | nil => rfl
  | cons a as ih =>
    by_cases ha : a.name = n
    · have : (n == k) = false := by simpa using fun e => h e.symm
      simp [List.filter, ha, List.find?, this, ih]
    · have hne : (a.name != n) = true := by simpa using ha
      simp only [List.filter, hne, List.find?]
      cases (a.name == k) <;> simp [ih]

/-- the line a directive consists of (behind its name), as the directive sees it -/
def dirLine (rest : List Ch) (ln : Nat) : List B :=
  trim (getLine (rest.drop (upper ((txt rest).takeWhile isWordChar)).length) false [] ln).1

/-- the line of the input behind a directive (and the lines that continued it) -/
def dirEnd (rest : List Ch) (ln : Nat) : Nat :=
  (getLine (rest.drop (upper ((txt rest).takeWhile isWordChar)).length) false [] ln).2.2

/-- the state behind a directive without output: the output continues at the line of the input -/
def afterDir (st : St) (phys : List B) (rest : List Ch) (ln : Nat) : St :=
  st.sync phys (dirEnd rest ln) (dirEnd rest ln != ln)

/-- **The directives are obeyed** (in an active section): `#define` enters the macro its line declares —
replacing an earlier one of that name —, `#undef` removes the name, `#ifdef`/`#ifndef` open a section that
writes exactly when the name is (not) defined, `#else` flips the innermost section, `#endif` closes it; in
place of its line(s) each leaves what brings the output to the line of the input (`sync`) -/
theorem C13_directives_obeyed (e : Env) (f : Nat) (stack : List (List B)) (phys : List B) (st : St) (rest : List Ch) (ln : Nat)
    (hw : st.writing = true) (d : Dir) (hd : classify (upper ((txt rest).takeWhile isWordChar)) = d) :
    (d = .define → ∃ pos, directive e (f + 1) stack phys st rest ln =
        .ok ({ afterDir st phys rest ln with table := st.table.define (parseDefine (dirLine rest ln)) }, pos)) ∧
    (d = .undef → ∃ pos, directive e (f + 1) stack phys st rest ln =
        .ok ({ afterDir st phys rest ln with table := st.table.undef (dirLine rest ln) }, pos)) ∧
    (d = .ifdef → ∃ pos, directive e (f + 1) stack phys st rest ln =
        .ok ({ afterDir st phys rest ln with conds := (st.table.find (dirLine rest ln)).isSome :: st.conds }, pos)) ∧
    (d = .ifndef → ∃ pos, directive e (f + 1) stack phys st rest ln =
        .ok ({ afterDir st phys rest ln with conds := (st.table.find (dirLine rest ln)).isNone :: st.conds }, pos)) ∧
    (d = .else_ → ∀ b cs, st.conds = b :: cs → ∃ pos, directive e (f + 1) stack phys st rest ln =
        .ok ({ afterDir st phys rest ln with conds := (!b) :: cs }, pos)) ∧
    (d = .endif → ∀ b cs, st.conds = b :: cs → ∃ pos, directive e (f + 1) stack phys st rest ln =
        .ok ({ afterDir st phys rest ln with conds := cs }, pos)) := by
  refine ⟨?_, ?_, ?_, ?_, ?_, ?_⟩ <;> intro hd'
  all_goals subst hd'
  all_goals rw [directive]
  all_goals simp only [hd, hw, dirLine, dirEnd, afterDir, Bool.not_true, Bool.false_eq_true, if_false]
  · exact ⟨_, rfl⟩
  · exact ⟨_, rfl⟩
  · exact ⟨_, rfl⟩
  · exact ⟨_, rfl⟩
  · intro b cs hc; rw [hc]; exact ⟨_, rfl⟩
  · intro b cs hc; rw [hc]; exact ⟨_, rfl⟩

/-- writing is allowed exactly when every open conditional of the file holds: a section nested in an
inactive one is inactive whatever its own condition says -/
theorem C13_nested_inactive (st : St) (b : Bool) (h : st.writing = false) : ({ st with conds := b :: st.conds } : St).writing = false := by
  simp only [St.writing, List.all_cons] at h ⊢
  simp [h]

/-! ## Expansion: what a macro use is replaced by -/

/-- a character `replace_skip` copies and that starts nothing: no identifier character, no newline, no
backslash, no `#`, no quote -/
def inert (c : B) : Bool := !isWordChar c && c != nl && c != 92 && c != 35 && c != quote

theorem skip_inert : ∀ (body : List B), (∀ c ∈ body, inert c = true) → skip false body = (body, []) := by
  intro body
  induction body with
  | nil => intro _; rfl
  | cons c cs ih =>
    intro h
    have hc := h c (by simp)
    simp only [inert, Bool.and_eq_true, Bool.not_eq_true', bne_iff_ne, ne_eq] at hc
    obtain ⟨⟨⟨⟨h1, h2⟩, h3⟩, h4⟩, h5⟩ := hc
    have hq : (c == quote) = false := by simpa using h5
    rw [skip]
    simp only [h1, Bool.false_or]
    have e2 : (c == nl) = false := by simpa using h2
    have e3 : (c == 92) = false := by simpa using h3
    have e4 : (c == 35) = false := by simpa using h4
    simp only [e2, e3, e4, Bool.or_false, Bool.false_eq_true, if_false, hq]
    rw [ih (fun x hx => h x (by simp [hx]))]

/-- **An object-like macro whose text holds nothing to substitute expands to exactly its text** -/
theorem C13_expand_object_inert (t : Table) (cx : Ctx) (f : Nat) (stack : List (List B)) (m : Macro) (rest : List B) (pm : PMap)
    (hc : m.callable = false) (hp : m.params = []) (hk : m.kind = .text) (hs : stack.contains m.name = false)
    (hb : ∀ c ∈ m.body, inert c = true) :
    expandCall t cx (f + 3) stack m rest pm = .ok (m.body, rest) := by
  unfold expandCall
  simp only [hc, Bool.not_false, if_true]
  unfold expandBody
  simp only [hp, List.length_nil, bne_self_eq_false, Bool.false_eq_true, if_false, hk, hs]
  unfold scanBody
  simp [skip_inert m.body hb]

/-! ### argument substitution -/

/-- the text of a body `l0 n1 l1 n2 l2 … nk lk` behind `l0`: parameter names `n` each followed by literal text `l` -/
def segsText (segs : List (List B × List B)) : List B := segs.flatMap (fun s => s.1 ++ s.2)

/-- what the property says the body expands to: every parameter name replaced by its argument -/
def segsSubst (pm : PMap) (segs : List (List B × List B)) : List B :=
  segs.flatMap (fun s => (pm.get s.1).getD s.1 ++ s.2)

/-- names are identifiers bound in `pm`; the literal pieces hold nothing to substitute; only the last one may be
empty (two names side by side would read as one identifier) -/
def WfSegs (pm : PMap) : List (List B × List B) → Prop
  | [] => True
  | (n, l) :: rest => n ≠ [] ∧ (∀ c ∈ n, isWordChar c = true) ∧ (pm.get n).isSome ∧ (∀ c ∈ l, inert c = true) ∧
      (l = [] → rest = []) ∧ WfSegs pm rest

theorem skip_lit (s rest : List B) (hs : ∀ c ∈ s, inert c = true) (hr : ∀ c r', rest = c :: r' → isWordChar c = true) :
    skip false (s ++ rest) = (s, rest) := by
  induction s with
  | nil =>
    cases rest with
    | nil => rfl
    | cons c r' => simp [skip, hr c r' rfl]
  | cons c cs ih =>
    have hc := hs c (by simp)
    simp only [inert, Bool.and_eq_true, Bool.not_eq_true', bne_iff_ne, ne_eq] at hc
    obtain ⟨⟨⟨⟨h1, h2⟩, h3⟩, h4⟩, h5⟩ := hc
    have hq : (c == quote) = false := by simpa using h5
    have e2 : (c == nl) = false := by simpa using h2
    have e3 : (c == 92) = false := by simpa using h3
    have e4 : (c == 35) = false := by simpa using h4
    rw [List.cons_append, skip]
    simp only [h1, Bool.false_or, e2, e3, e4, Bool.or_false, Bool.false_eq_true, if_false, hq]
    rw [ih (fun x hx => hs x (by simp [hx]))]

theorem takeWord_name (n rest : List B) (hn : ∀ c ∈ n, isWordChar c = true) (hr : ∀ c r', rest = c :: r' → isWordChar c = false) :
    takeWord (n ++ rest) = (n, rest) := by
  unfold takeWord
  induction n with
  | nil =>
    cases rest with
    | nil => rfl
    | cons c r' => simp [List.takeWhile, List.dropWhile, hr c r' rfl]
  | cons c cs ih =>
    have hc := hn c (by simp)
    have := ih (fun x hx => hn x (by simp [hx]))
    simp only [Prod.mk.injEq] at this
    simp [List.takeWhile, List.dropWhile, hc, this.1, this.2]

theorem inert_not_word (c : B) (h : inert c = true) : isWordChar c = false := by
  simp only [inert, Bool.and_eq_true, Bool.not_eq_true'] at h
  exact h.1.1.1.1

/-- **Argument substitution**: a macro body made of literal text and parameter names expands to that text with
every parameter name replaced by its argument — nothing else changes, nothing is looked up in the macro table -/
theorem C13_scanBody_substitutes (t : Table) (cx : Ctx) (stack : List (List B)) (pm : PMap) :
    ∀ (segs : List (List B × List B)) (l0 : List B) (f : Nat) (out : List B), (∀ c ∈ l0, inert c = true) → WfSegs pm segs →
      2 * segs.length + 1 ≤ f →
      scanBody t cx f stack pm (l0 ++ segsText segs) out = .ok (out ++ l0 ++ segsSubst pm segs) := by
  intro segs
  induction segs with
  | nil =>
    intro l0 f out hl0 _ hf
    obtain ⟨f', rfl⟩ : ∃ f', f = f' + 1 := ⟨f - 1, by omega⟩
    unfold scanBody
    simp [segsText, segsSubst, skip_inert l0 hl0]
  | cons sg rest ih =>
    intro l0 f out hl0 hwf hf
    obtain ⟨n, l⟩ := sg
    obtain ⟨hne, hnw, hbound, hl, hlast, hrest⟩ := hwf
    obtain ⟨f', rfl⟩ : ∃ f', f = f' + 2 := ⟨f - 2, by simp at hf; omega⟩
    obtain ⟨a, as, hna⟩ : ∃ a as, n = a :: as := by
      cases n with
      | nil => exact absurd rfl hne
      | cons a as => exact ⟨a, as, rfl⟩
    have haw : isWordChar a = true := hnw a (by simp [hna])
    -- what follows the name: the literal piece (not an identifier character) or the end
    have hafter : ∀ c r', l ++ segsText rest = c :: r' → isWordChar c = false := by
      intro c r' e
      cases l with
      | nil =>
        have := hlast rfl; subst this
        simp [segsText] at e
      | cons b bs =>
        simp only [List.cons_append, List.cons.injEq] at e
        rw [← e.1]; exact inert_not_word b (hl b (by simp))
    have htext : l0 ++ segsText ((n, l) :: rest) = l0 ++ (n ++ (l ++ segsText rest)) := by
      simp [segsText, List.append_assoc]
    have hskip : skip false (l0 ++ (n ++ (l ++ segsText rest))) = (l0, n ++ (l ++ segsText rest)) :=
      skip_lit l0 _ hl0 (by intro c r' e; rw [hna] at e; simp only [List.cons_append, List.cons.injEq] at e; rw [← e.1]; exact haw)
    obtain ⟨v, hv⟩ : ∃ v, pm.get n = some v := Option.isSome_iff_exists.mp hbound
    unfold scanBody
    rw [htext, hskip]
    have hnl : (a == nl) = false := by
      cases hq : a == nl with
      | false => rfl
      | true => simp [nl] at hq; subst hq; simp [isWordChar, isAlpha, isDigit, isLowerAlpha, isUpperAlpha] at haw
    have h35 : (a == 35) = false := by
      cases hq : a == 35 with
      | false => rfl
      | true => simp at hq; subst hq; simp [isWordChar, isAlpha, isDigit, isLowerAlpha, isUpperAlpha] at haw
    have htw : takeWord (a :: (as ++ (l ++ segsText rest))) = (a :: as, l ++ segsText rest) := by
      have := takeWord_name n (l ++ segsText rest) hnw hafter
      rw [hna] at this; simpa using this
    simp only [hna, List.cons_append, hnl, h35, haw, Bool.false_eq_true, if_false, if_true, htw]
    unfold resolveWord
    simp only [if_true, ← hna, hv]
    have := ih l (f' + 1) (out ++ l0 ++ v) hl hrest (by simp at hf ⊢; omega)
    rw [this]
    simp [segsSubst, hv, List.append_assoc]

theorem word_head (n : List B) (hne : n ≠ []) (hnw : ∀ c ∈ n, isWordChar c = true) : ∃ a as, n = a :: as ∧ isWordChar a = true := by
  cases n with
  | nil => exact absurd rfl hne
  | cons a as => exact ⟨a, as, rfl, hnw a (by simp)⟩

theorem word_not_special (a : B) (h : isWordChar a = true) : (a == nl) = false ∧ (a == 35) = false ∧ (a == 92) = false ∧ (a == quote) = false := by
  refine ⟨?_, ?_, ?_, ?_⟩
  all_goals
    cases hq : (a == _) with
    | false => rfl
    | true =>
      simp only [beq_iff_eq] at hq
      subst hq
      simp [isWordChar, isAlpha, isDigit, isLowerAlpha, isUpperAlpha, nl, quote] at h

theorem skip_word (n rest : List B) (a : B) (as : List B) (hna : n = a :: as) (haw : isWordChar a = true) : skip false (n ++ rest) = ([], n ++ rest) := by
  subst hna
  simp [skip, haw]

theorem scanBody_end (t : Table) (cx : Ctx) (stack : List (List B)) (pm : PMap) (out : List B) (f : Nat) :
    scanBody t cx (f + 1) stack pm [] out = .ok out := by
  unfold scanBody; simp [skip]

/-- one parameter name: replaced by its argument -/
theorem scanBody_param (t : Table) (cx : Ctx) (stack : List (List B)) (pm : PMap) (n v rest out : List B) (f : Nat)
    (hne : n ≠ []) (hnw : ∀ c ∈ n, isWordChar c = true) (hv : pm.get n = some v)
    (hafter : ∀ c r', rest = c :: r' → isWordChar c = false) :
    scanBody t cx (f + 2) stack pm (n ++ rest) out = scanBody t cx (f + 1) stack pm rest (out ++ v) := by
  obtain ⟨a, as, hna, haw⟩ := word_head n hne hnw
  have hsp := word_not_special a haw
  have htw : takeWord (a :: (as ++ rest)) = (a :: as, rest) := by
    have := takeWord_name n rest hnw hafter
    rw [hna] at this; simpa using this
  have hsk : skip false (a :: (as ++ rest)) = ([], a :: (as ++ rest)) := by simp [skip, haw]
  conv => lhs; unfold scanBody
  rw [hna, List.cons_append, hsk]
  simp only [hsp.1, hsp.2.1, haw, Bool.false_eq_true, if_false, if_true, List.append_nil, htw]
  unfold resolveWord
  simp only [if_true, ← hna, hv]

/-- `#name`: the argument between double quotes -/
theorem scanBody_stringify (t : Table) (cx : Ctx) (stack : List (List B)) (pm : PMap) (n v rest out : List B) (f : Nat)
    (hne : n ≠ []) (hnw : ∀ c ∈ n, isWordChar c = true) (hv : pm.get n = some v)
    (hafter : ∀ c r', rest = c :: r' → isWordChar c = false) :
    scanBody t cx (f + 2) stack pm (35 :: (n ++ rest)) out = scanBody t cx (f + 1) stack pm rest (out ++ quoted v) := by
  obtain ⟨a, as, hna, haw⟩ := word_head n hne hnw
  have htw : takeWord (a :: (as ++ rest)) = (a :: as, rest) := by
    have := takeWord_name n rest hnw hafter
    rw [hna] at this; simpa using this
  have hsk : skip false (a :: (as ++ rest)) = ([], a :: (as ++ rest)) := by simp [skip, haw]
  have hsk0 : skip false (35 :: (a :: (as ++ rest))) = ([], 35 :: (a :: (as ++ rest))) := by simp [skip]
  have hsp := word_not_special a haw
  conv => lhs; unfold scanBody
  rw [hna, List.cons_append, hsk0]
  simp only [show ((35 : B) == nl) = false by decide, Bool.false_eq_true, if_false, beq_self_eq_true, if_true, hsk, List.append_nil]
  split
  · next r3 heq =>
    simp only [List.cons.injEq] at heq
    have := hsp.2.1
    rw [heq.1] at this
    simp at this
  · unfold resolveWord
    simp only [if_true, htw, ← hna, hv]

/-- `##name`: the argument, the `##` gone -/
theorem scanBody_concat (t : Table) (cx : Ctx) (stack : List (List B)) (pm : PMap) (n v rest out : List B) (f : Nat)
    (hne : n ≠ []) (hnw : ∀ c ∈ n, isWordChar c = true) (hv : pm.get n = some v)
    (hafter : ∀ c r', rest = c :: r' → isWordChar c = false) :
    scanBody t cx (f + 2) stack pm (35 :: 35 :: (n ++ rest)) out = scanBody t cx (f + 1) stack pm rest (out ++ v) := by
  obtain ⟨a, as, hna, haw⟩ := word_head n hne hnw
  have htw : takeWord (a :: (as ++ rest)) = (a :: as, rest) := by
    have := takeWord_name n rest hnw hafter
    rw [hna] at this; simpa using this
  have hsk : skip false (a :: (as ++ rest)) = ([], a :: (as ++ rest)) := by simp [skip, haw]
  have hsk0 : ∀ x, skip false (35 :: x) = ([], 35 :: x) := by intro x; simp [skip]
  conv => lhs; unfold scanBody
  rw [hna, List.cons_append, hsk0]
  simp only [show ((35 : B) == nl) = false by decide, Bool.false_eq_true, if_false, beq_self_eq_true, if_true, hsk0, hsk, List.append_nil, htw]
  unfold resolveWord
  simp only [if_true, ← hna, hv]

/-- **`#param` stringifies**: the argument between double quotes -/
theorem C13_stringify (t : Table) (cx : Ctx) (stack : List (List B)) (pm : PMap) (n v out : List B) (f : Nat)
    (hne : n ≠ []) (hnw : ∀ c ∈ n, isWordChar c = true) (hv : pm.get n = some v) :
    scanBody t cx (f + 2) stack pm (35 :: n) out = .ok (out ++ quoted v) := by
  have := scanBody_stringify t cx stack pm n v [] out f hne hnw hv (by intro c r' e; cases e)
  simp only [List.append_nil] at this
  rw [this, scanBody_end]

/-- **`a##b` concatenates**: the two arguments side by side, the `##` gone -/
theorem C13_concat (t : Table) (cx : Ctx) (stack : List (List B)) (pm : PMap) (n1 n2 v1 v2 out : List B) (f : Nat)
    (hne1 : n1 ≠ []) (hnw1 : ∀ c ∈ n1, isWordChar c = true) (hv1 : pm.get n1 = some v1)
    (hne2 : n2 ≠ []) (hnw2 : ∀ c ∈ n2, isWordChar c = true) (hv2 : pm.get n2 = some v2) :
    scanBody t cx (f + 3) stack pm (n1 ++ 35 :: 35 :: n2) out = .ok (out ++ v1 ++ v2) := by
  rw [scanBody_param t cx stack pm n1 v1 (35 :: 35 :: n2) out (f + 1) hne1 hnw1 hv1
    (by intro c r' e; simp only [List.cons.injEq] at e; rw [← e.1]; decide)]
  have := scanBody_concat t cx stack pm n2 v2 [] (out ++ v1) f hne2 hnw2 hv2 (by intro c r' e; cases e)
  simp only [List.append_nil] at this
  rw [this, scanBody_end]

/-! ## Non-vacuity: the reference on concrete sources (these are tests of the model, not the unbounded claims) -/

def env0 : Env := { files := [(n!"/a.h", n!"#define Q 5\nin Q\n")], root := n!"/$R" }
def out (text : List B) : Option (List B) := (run env0 builtins text).toOption
def err (text : List B) : Option Nat := match run env0 builtins text with | .error c => some c | .ok _ => none
def hdr : List B := n!"#line 0 \"/$R/main.sqf\"\n"

-- comments go, strings stay, continuation joins
example : out n!"a // c\nb /* x\ny */ c \"// /* M\" d\\\ne" = some (hdr ++ n!"a \nb \n c \"// /* M\" de") := by decide +kernel
-- object-like and function-like macros, stringify, concatenate, whole identifiers only
example : out n!"#define M 1\nM MM M1 _M xM M" = some (hdr ++ n!"\n1 MM M1 _M xM 1") := by decide +kernel
example : out n!"#define F(A,B) A+#B##A\nF(1,x y)" = some (hdr ++ n!"\n1+\"x y\"1") := by decide +kernel
example : out n!"#define Q(a) #a\n#define D(a,b) a##_##b\n#define G(v) D(ace,v)\n#define QG(v) Q(G(v))\nQG(x)" = some (hdr ++ n!"\n\n\n\n\"ace_x\"") := by decide +kernel
-- brackets and strings inside arguments, a macro inside an argument, an empty argument
example : out n!"#define P(a,b) <a|b>\n#define K 7\nP([1,2],\"x,y)\") P(K,) P((3,4),{5,6})" = some (hdr ++ n!"\n\n<[1,2]|\"x,y)\"> <7|> <(3,4)|{5,6}>") := by decide +kernel
-- a parameter name inside a string or a longer identifier is not a parameter
example : out n!"#define S(a) \"a\" a ab a_\nS(1)" = some (hdr ++ n!"\n\"a\" 1 ab a_") := by decide +kernel
-- conditionals, nesting, undef
example : out n!"#define X\n#ifdef X\nyes\n#else\nno\n#endif\n#undef X\n#ifdef X\nyes2\n#endif" = some (hdr ++ n!"\n\nyes\n\n\n\n\n\n\n") := by decide +kernel
example : out n!"#ifdef NO\n#ifdef _SQFVM\nh1\n#else\nh2\n#endif\n#define Z 1\n#foo\n#else\nshown Z\n#endif" = some (hdr ++ n!"\n\n\n\n\n\n\n\n\nshown Z\n") := by decide +kernel
-- a definition over three lines leaves three newlines: what follows keeps its line
example : out n!"#define M(a,b) a \\\n + \\\n b\nx = M(1,\n2); y\nz" = some (hdr ++ n!"\n\n\nx = 1  +  \n2; y\nz") := by decide +kernel
-- include
example : out n!"#include \"\\a.h\"\nQ" = some (hdr ++ n!"#line 1 \"/$R/a.h\"\n#line 0 \"/$R/a.h\"\n\nin 5\n\n#line 1 \"/$R/main.sqf\"\n5") := by decide +kernel
-- errors
example : err n!"#define A A\nA" = some errRecursiveMacro := by decide +kernel
example : err n!"#define F(a,b) a\nF(1)" = some errArgCount := by decide +kernel
example : err n!"#else" = some errUnexpectedElse := by decide +kernel
example : err n!"#ifdef A\n" = some errMissingEndif := by decide +kernel
example : err n!"x\n#bar\n" = some errUnknownInstruction := by decide +kernel
-- the premises of the theorems are met by non-trivial inputs
example : ∀ c ∈ n!"x = \"#define // /* M\" + y;", c ≠ 13 ∧ c ≠ 92 ∧ (c ≠ 47 ∨ True) := by decide
example : idents n!"ab+c1 _d" [] = [n!"ab", n!"c1", n!"_d"] := by decide

end Sqf.Props.C13
