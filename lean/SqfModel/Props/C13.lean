import SqfModel.Preproc
/-!
# C13 — preprocessor output equals the reference expansion; strings are inviolate
-/
namespace Sqf.Props.C13
open Sqf Sqf.Pp

example : (run { files := [], root := n!"/$R" } builtins n!"a").toOption = some n!"#line 0 \"/$R/main.sqf\"\na" := by decide +kernel

end Sqf.Props.C13
