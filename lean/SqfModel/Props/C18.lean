import SqfModel.Api
/-!
# C18 — C API contract: truthful return codes, complete logging, reusable instances

Theorems about the model of `src/export/sqfvm.cpp` (`SqfModel/Api.lean`) on top of the scheduler model
(`VM/Sched.lean`). They hold for every environment (front ends, preprocessor), every instance state that
`call` accepts, every program and every fuel.
-/
set_option linter.unusedSimpArgs false
set_option linter.unusedVariables false
namespace Sqf.Props.C18
open Sqf Sqf.VM Sqf.Api

/-! ## 1. How `execute(start)` can end -/

/-- what `finishStart` guarantees -/
theorem finishStart_outcome (ctxs : List Ctx) (m : M) (res : StepRes)
    (h : res = .empty → ctxs = []) (hok : res ≠ .ok ∨ m.exitReq = true) :
    ((finishStart ctxs m res).state = .empty → (finishStart ctxs m res).rt.ctxs = []) ∧
    (((finishStart ctxs m res).res = .ok ∨ (finishStart ctxs m res).res = .empty) → (finishStart ctxs m res).state = .empty) := by
  unfold finishStart
  by_cases he : m.exitReq = true
  · simp [he]
  · simp only [he, Bool.false_eq_true, if_false]
    cases res with
    | ok => rcases hok with h1 | h1
            · exact absurd rfl h1
            · exact absurd h1 he
    | empty => simp [h rfl]
    | runtimeError => simp
    | hang => simp
    | crash => simp

/-- **the scheduler ends in `empty` with no context left, or in `halted_error` with an error result**
(or the model runs out of fuel, which stands for a run that never returns): started with at least one
context it never reports `ok`/`empty` while contexts remain, and never leaves the state `halted` -/
theorem sched_outcome (sl : Nat) : ∀ (fuel : Nat) (ctxs : List Ctx) (i : Nat) (m : M) (res : StepRes), ctxs ≠ [] →
    ((sched sl fuel ctxs i m res).state = .empty → (sched sl fuel ctxs i m res).rt.ctxs = []) ∧
    (((sched sl fuel ctxs i m res).res = .ok ∨ (sched sl fuel ctxs i m res).res = .empty) →
      (sched sl fuel ctxs i m res).state = .empty) := by
  intro fuel
  induction fuel with
  | zero =>
    intro ctxs i m res hne
    rw [sched]
    refine ⟨fun h => ?_, fun h => ?_⟩
    · cases h
    · rcases h with h | h <;> cases h
  | succ fuel ih =>
    intro ctxs i m res hne
    rw [sched]
    have hemp : ctxs.isEmpty = false := by cases ctxs with
      | nil => exact absurd rfl hne
      | cons _ _ => rfl
    simp only [hemp, Bool.false_eq_true, if_false]
    split
    · exact ih ctxs 0 m res hne
    · next c hc =>
      split
      · -- terminated
        split
        · next hd =>
          refine finishStart_outcome _ _ _ (fun _ => ?_) (Or.inl (by simp))
          exact List.isEmpty_iff.mp hd
        · next hd =>
          exact ih _ i _ .empty (by intro e; rw [e] at hd; exact hd rfl)
      · split
        · exact finishStart_outcome [] _ _ (fun _ => rfl) (Or.inr (by assumption))
        · next hex =>
          have hne1 : ctxs.set i (schedOne sl c m).1.ctx ++ (schedOne sl c m).1.spawned ≠ [] := by
            intro e
            have : (ctxs.set i (schedOne sl c m).1.ctx ++ (schedOne sl c m).1.spawned).length = 0 := by rw [e]; rfl
            simp only [List.length_append, List.length_set] at this
            cases ctxs with
            | nil => exact hne rfl
            | cons _ _ => simp at this
          split
          · split
            · next hd =>
              refine finishStart_outcome _ _ _ (fun _ => List.isEmpty_iff.mp hd) (Or.inl (by simp))
            · next hd =>
              exact ih _ i _ .empty (by intro e; rw [e] at hd; exact hd rfl)
          · exact ih _ (i + 1) _ .ok hne1
          · next hr1 hr2 =>
            exact finishStart_outcome _ _ _ (fun e => absurd e hr1) (Or.inl hr2)

/-! ## 2. The cases of `sqfvm_call` -/

/-- case analysis of `call`: to show something of every call it suffices to show it in each of the cases
of the state machine -/
theorem call_elim (P : Inst × Int → Prop) (env : Env) (i : Inst) (cd ty : Nat) (code : List B) (fuel : Nat)
    (hInvalid : i.valid = false → P (i, rcInvalidInstance))
    (hRunning : i.valid = true → i.state ≠ .empty → P (i, rcRunning))
    (hPp : i.valid = true → i.state = .empty → env.pp code = none → P (oneError i cd, rcPreprocess))
    (hParse : ∀ text, i.valid = true → i.state = .empty → env.pp code = some text → (ty = 115 ∨ ty = 49) →
      env.parse text = none → P (oneError i cd, rcParse))
    (hRun : ∀ text prog, i.valid = true → i.state = .empty → env.pp code = some text → ty = 115 →
      env.parse text = some prog → P (runScript (withCall i cd) prog fuel))
    (hPre : ∀ text, i.valid = true → i.state = .empty → env.pp code = some text → ty = 112 → P (preOnly i cd, rcOk))
    (hTrans : ∀ text prog, i.valid = true → i.state = .empty → env.pp code = some text → ty = 49 →
      env.parse text = some prog → P (withCall i cd, rcOk))
    (hType : ∀ text, i.valid = true → i.state = .empty → env.pp code = some text → ty ≠ 115 → ty ≠ 112 → ty ≠ 49 → ty ≠ 97 →
      P (withCall i cd, rcType))
    (hParseA : ∀ text, i.valid = true → i.state = .empty → env.pp code = some text → ty = 97 →
      env.parseAsm text = none → P (oneError i cd, rcParse))
    (hRunA : ∀ text prog, i.valid = true → i.state = .empty → env.pp code = some text → ty = 97 →
      env.parseAsm text = some prog → P (runScript (withCall i cd) prog fuel)) :
    P (call env i cd ty code fuel) := by
  unfold call
  split
  · next hv => exact hInvalid hv
  · next hv =>
    have hv' : i.valid = true := by simpa using hv
    split
    · next hs => exact hRunning hv' hs
    · next hs =>
      have hs' : i.state = .empty := by simpa using hs
      split
      · next hpp => exact hPp hv' hs' hpp
      · next text hpp =>
        unfold callBody
        split
        · next h115 =>
          split
          · next hparse => exact hParse text hv' hs' hpp (Or.inl h115) hparse
          · next prog hparse => exact hRun text prog hv' hs' hpp h115 hparse
        · next h115 =>
          split
          · next h112 => exact hPre text hv' hs' hpp h112
          · next h112 =>
            split
            · next h49 =>
              split
              · next hparse => exact hParse text hv' hs' hpp (Or.inr h49) hparse
              · next prog hparse => exact hTrans text prog hv' hs' hpp h49 hparse
            · next h49 =>
              split
              · next h97 =>
                split
                · next hparse => exact hParseA text hv' hs' hpp h97 hparse
                · next prog hparse => exact hRunA text prog hv' hs' hpp h97 hparse
              · next h97 => exact hType text hv' hs' hpp h115 h112 h49 h97

/-! ## 3. After any call the instance is idle and holds no pending script -/

/-- `abort` always leaves the state `empty` -/
theorem abort_idle (ctxs : List Ctx) (m : M) (st : RunState) : (abort ctxs m st).2.2 = .empty := by
  cases st <;> rfl

theorem startOf_outcome (i : Inst) (prog : List Instr) (fuel : Nat) :
    ((startOf i prog fuel).state = .empty → (startOf i prog fuel).rt.ctxs = []) ∧
    (succeeded (startOf i prog fuel) = true → (startOf i prog fuel).state = .empty) := by
  have hne : i.rt.ctxs ++ [({ frames := [{ code := prog }], id := i.rt.m.nextCtx } : Ctx)] ≠ [] := by simp
  unfold startOf start
  have ho := sched_outcome 150 fuel (i.rt.ctxs ++ [{ frames := [{ code := prog }], id := i.rt.m.nextCtx }]) 0
    { { i.rt.m with nextCtx := i.rt.m.nextCtx + 1, alive := i.rt.m.alive ++ [i.rt.m.nextCtx] }.readClock.2 with
      runStart := { i.rt.m with nextCtx := i.rt.m.nextCtx + 1, alive := i.rt.m.alive ++ [i.rt.m.nextCtx] }.readClock.1, exitReq := false } .ok hne
  refine ⟨ho.1, ?_⟩
  intro hs
  unfold succeeded at hs
  simp only [Bool.or_eq_true, beq_iff_eq] at hs
  exact ho.2 hs

theorem runScript_idle (i : Inst) (prog : List Instr) (fuel : Nat) :
    (runScript i prog fuel).1.state = .empty ∧
      ((runScript i prog fuel).2 = rcOk → (runScript i prog fuel).1.rt.ctxs = []) := by
  have ho := startOf_outcome i prog fuel
  unfold runScript finishRun
  by_cases hs : succeeded (startOf i prog fuel) = true
  · simp only [hs, if_true]
    exact ⟨ho.2 hs, fun _ => ho.1 (ho.2 hs)⟩
  · simp only [hs, Bool.false_eq_true, if_false]
    exact ⟨abort_idle _ _ _, fun h => by simp [rcFailed, rcOk] at h⟩

/-- **After any call returns the instance is idle** (status 0): whatever the text was — accepted,
rejected by the preprocessor or the parser, failing at run time, of an unknown type -/
theorem C18_call_leaves_idle (env : Env) (i : Inst) (cd ty : Nat) (code : List B) (fuel : Nat)
    (hidle : i.state = .empty) : (call env i cd ty code fuel).1.state = .empty := by
  apply call_elim (fun r => r.1.state = .empty)
  · intro _; exact hidle
  · intro _ _; exact hidle
  · intro _ _ _; exact hidle
  · intro _ _ _ _ _ _; exact hidle
  · intro text prog _ _ _ _ _; exact (runScript_idle _ _ _).1
  · intro _ _ _ _ _; exact hidle
  · intro _ _ _ _ _ _ _; exact hidle
  · intro _ _ _ _ _ _ _ _; exact hidle
  · intro _ _ _ _ _ _; exact hidle
  · intro text prog _ _ _ _ _; exact (runScript_idle _ _ _).1

theorem runScript_valid (i : Inst) (prog : List Instr) (fuel : Nat) : (runScript i prog fuel).1.valid = i.valid := by
  unfold runScript finishRun; split <;> rfl

/-- hence `sqfvm_status` reports 0 after every call on a valid, idle instance -/
theorem C18_status_zero_after_call (env : Env) (i : Inst) (cd ty : Nat) (code : List B) (fuel : Nat)
    (hv : i.valid = true) (hidle : i.state = .empty) : status (call env i cd ty code fuel).1 = 0 := by
  have hs := C18_call_leaves_idle env i cd ty code fuel hidle
  have hvalid : (call env i cd ty code fuel).1.valid = true := by
    apply call_elim (fun r => r.1.valid = true)
    · intro h; rw [hv] at h; cases h
    · intro _ _; exact hv
    · intro _ _ _; exact hv
    · intro _ _ _ _ _ _; exact hv
    · intro text prog _ _ _ _ _; rw [runScript_valid]; exact hv
    · intro _ _ _ _ _; exact hv
    · intro _ _ _ _ _ _ _; exact hv
    · intro _ _ _ _ _ _ _ _; exact hv
    · intro _ _ _ _ _ _; exact hv
    · intro text prog _ _ _ _ _; rw [runScript_valid]; exact hv
  unfold status
  simp [hvalid, hs, stateCode]

/-- a successful SQF call leaves no pending script behind -/
theorem C18_success_no_pending (env : Env) (i : Inst) (cd : Nat) (code : List B) (fuel : Nat)
    (hpend : i.rt.ctxs = []) (hrc : (call env i cd 115 code fuel).2 = rcOk) : (call env i cd 115 code fuel).1.rt.ctxs = [] := by
  revert hrc
  apply call_elim (fun r => r.2 = rcOk → r.1.rt.ctxs = [])
  · intro _ _; exact hpend
  · intro _ _ _; exact hpend
  · intro _ _ _ _; exact hpend
  · intro _ _ _ _ _ _ _; exact hpend
  · intro text prog _ _ _ _ _ h; exact (runScript_idle _ _ _).2 h
  · intro _ _ _ _ h; cases h
  · intro _ _ _ _ _ h; cases h
  · intro _ _ _ _ _ _ _ _ _; exact hpend
  · intro _ _ _ _ h; cases h
  · intro _ _ _ _ _ h; cases h

/-! ## 4. Return codes say what happened -/

theorem C18_invalid_handle (env : Env) (i : Inst) (cd ty : Nat) (code : List B) (fuel : Nat) (hv : i.valid = false) :
    (call env i cd ty code fuel).2 = -1 ∧ (loadConfig env i code).2 = -1 ∧ status i = -1 := by
  unfold call loadConfig status
  simp [hv, rcInvalidInstance]

theorem C18_preprocess_failure (env : Env) (i : Inst) (cd ty : Nat) (code : List B) (fuel : Nat)
    (hv : i.valid = true) (hidle : i.state = .empty) (hpp : env.pp code = none) :
    (call env i cd ty code fuel).2 = -2 := by
  unfold call
  simp [hv, hidle, hpp, rcPreprocess]

theorem C18_parse_failure (env : Env) (i : Inst) (cd : Nat) (code text : List B) (fuel : Nat)
    (hv : i.valid = true) (hidle : i.state = .empty) (hpp : env.pp code = some text) (hparse : env.parse text = none) :
    (call env i cd 115 code fuel).2 = -3 := by
  unfold call callBody
  simp [hv, hidle, hpp, hparse, rcParse]

theorem C18_unknown_type (env : Env) (i : Inst) (cd ty : Nat) (code text : List B) (fuel : Nat)
    (hv : i.valid = true) (hidle : i.state = .empty) (hpp : env.pp code = some text)
    (h1 : ty ≠ 115) (h2 : ty ≠ 112) (h3 : ty ≠ 49) (h4 : ty ≠ 97) : (call env i cd ty code fuel).2 = -5 := by
  unfold call callBody
  simp [hv, hidle, hpp, h1, h2, h3, h4, rcType]

/-- an assembly text the assembly parser rejects: -3, like an SQF text the parser rejects -/
theorem C18_assembly_parse_failure (env : Env) (i : Inst) (cd : Nat) (code text : List B) (fuel : Nat)
    (hv : i.valid = true) (hidle : i.state = .empty) (hpp : env.pp code = some text) (hparse : env.parseAsm text = none) :
    (call env i cd 97 code fuel).2 = -3 := by
  unfold call callBody
  simp [hv, hidle, hpp, hparse, rcParse]

/-- **0 exactly when the script ran to completion**: an SQF call that was preprocessed and parsed returns 0
when `execute(start)` ended with `empty` (or `ok` after an exit request) and -6 otherwise -/
theorem C18_run_code (env : Env) (i : Inst) (cd : Nat) (code text : List B) (prog : List Instr) (fuel : Nat)
    (hv : i.valid = true) (hidle : i.state = .empty) (hpp : env.pp code = some text) (hparse : env.parse text = some prog) :
    (call env i cd 115 code fuel).2 = if succeeded (startOf (withCall i cd) prog fuel) then 0 else -6 := by
  unfold call callBody
  simp only [hv, hidle, hpp, hparse, Bool.true_eq_false, if_false, ne_eq, not_true_eq_false, if_true]
  unfold runScript finishRun
  split <;> rfl

/-- the same for an assembly text the assembly front end accepts: the code of the run -/
theorem C18_run_assembly (env : Env) (i : Inst) (cd : Nat) (code text : List B) (prog : List Instr) (fuel : Nat)
    (hv : i.valid = true) (hidle : i.state = .empty) (hpp : env.pp code = some text) (hparse : env.parseAsm text = some prog) :
    (call env i cd 97 code fuel).2 = if succeeded (startOf (withCall i cd) prog fuel) then 0 else -6 := by
  unfold call callBody
  simp only [hv, hidle, hpp, hparse, Bool.true_eq_false, if_false, ne_eq, not_true_eq_false, if_true,
    show (97 : Nat) ≠ 115 by decide, show (97 : Nat) ≠ 112 by decide, show (97 : Nat) ≠ 49 by decide]
  unfold runScript finishRun
  split <;> rfl

/-- the code 0 is never returned for a text the preprocessor or the parser rejected, nor for a failed run:
every call that returns 0 was preprocessed, (for `'s'`) parsed, and ended without an error result -/
theorem C18_zero_truthful (env : Env) (i : Inst) (cd : Nat) (code : List B) (fuel : Nat)
    (h0 : (call env i cd 115 code fuel).2 = 0) :
    ∃ text prog, env.pp code = some text ∧ env.parse text = some prog ∧ succeeded (startOf (withCall i cd) prog fuel) = true := by
  revert h0
  apply call_elim (fun r => r.2 = 0 → ∃ text prog, env.pp code = some text ∧ env.parse text = some prog ∧
    succeeded (startOf (withCall i cd) prog fuel) = true)
  · intro _ h; cases h
  · intro _ _ h; cases h
  · intro _ _ _ h; cases h
  · intro _ _ _ _ _ _ h; cases h
  · intro text prog _ _ hpp _ hparse h
    refine ⟨text, prog, hpp, hparse, ?_⟩
    unfold runScript finishRun at h
    by_cases hs : succeeded (startOf (withCall i cd) prog fuel) = true
    · exact hs
    · simp only [hs, Bool.false_eq_true, if_false] at h; cases h
  · intro _ _ _ _ h115; cases h115
  · intro _ _ _ _ _ h115; cases h115
  · intro _ _ _ _ h115; exact absurd rfl h115
  · intro _ _ _ _ h97; cases h97
  · intro _ _ _ _ _ h97; cases h97

/-! ## 5. Logging: every diagnostic of the call, tagged with the instance's user data and the call's data -/

theorem runScript_tags (i : Inst) (prog : List Instr) (fuel : Nat) :
    ∃ new, (runScript i prog fuel).1.delivered = i.delivered ++ new ∧ ∀ d, d ∈ new → d.user = i.user ∧ d.call = i.callData := by
  unfold runScript finishRun
  have htag : ∀ (m : M) d, d ∈ deliverNew i i.rt.m.diags.length m → d.user = i.user ∧ d.call = i.callData := by
    intro m d hd
    unfold deliverNew at hd
    simp only [List.mem_map] at hd
    obtain ⟨e, _, he⟩ := hd
    rw [← he]; exact ⟨rfl, rfl⟩
  split <;> exact ⟨_, rfl, htag _⟩

theorem C18_call_tags (env : Env) (i : Inst) (cd ty : Nat) (code : List B) (fuel : Nat) :
    ∃ new, (call env i cd ty code fuel).1.delivered = i.delivered ++ new ∧
      ∀ d, d ∈ new → d.user = i.user ∧ d.call = cd := by
  apply call_elim (fun r => ∃ new, r.1.delivered = i.delivered ++ new ∧ ∀ d, d ∈ new → d.user = i.user ∧ d.call = cd)
  · intro _; exact ⟨[], by simp, by simp⟩
  · intro _ _; exact ⟨[], by simp, by simp⟩
  · intro _ _ _; exact ⟨_, rfl, by simp⟩
  · intro _ _ _ _ _ _; exact ⟨_, rfl, by simp⟩
  · intro text prog _ _ _ _ _; exact runScript_tags (withCall i cd) prog fuel
  · intro _ _ _ _ _; exact ⟨_, rfl, by simp⟩
  · intro _ _ _ _ _ _ _; exact ⟨[], by simp [withCall], by simp⟩
  · intro _ _ _ _ _ _ _ _; exact ⟨[], by simp [withCall], by simp⟩
  · intro _ _ _ _ _ _; exact ⟨_, rfl, by simp⟩
  · intro text prog _ _ _ _ _; exact runScript_tags (withCall i cd) prog fuel

/-- completeness: a run delivers one callback per diagnostic the runtime logged during it -/
theorem C18_run_delivers_all (i : Inst) (prog : List Instr) (fuel : Nat) :
    (runScript i prog fuel).1.delivered = i.delivered ++ deliverNew i i.rt.m.diags.length (startOf i prog fuel).rt.m ∧
      (deliverNew i i.rt.m.diags.length (startOf i prog fuel).rt.m).length =
        ((startOf i prog fuel).rt.m.diags.drop i.rt.m.diags.length).length := by
  unfold runScript finishRun
  split <;> exact ⟨rfl, by simp [deliverNew]⟩

/-! ## 6. What persists and what does not -/

theorem runScript_cfg (i : Inst) (prog : List Instr) (fuel : Nat) : (runScript i prog fuel).1.cfg = i.cfg := by
  unfold runScript finishRun; split <;> rfl

/-- a call never touches the loaded config; loading config never touches the runtime -/
theorem C18_config_persists (env : Env) (i : Inst) (cd ty : Nat) (code : List B) (fuel : Nat) :
    (call env i cd ty code fuel).1.cfg = i.cfg := by
  apply call_elim (fun r => r.1.cfg = i.cfg)
  · intro _; rfl
  · intro _ _; rfl
  · intro _ _ _; rfl
  · intro _ _ _ _ _ _; rfl
  · intro text prog _ _ _ _ _; rw [runScript_cfg]; rfl
  · intro _ _ _ _ _; rfl
  · intro _ _ _ _ _ _ _; rfl
  · intro _ _ _ _ _ _ _ _; rfl
  · intro _ _ _ _ _ _; rfl
  · intro text prog _ _ _ _ _; rw [runScript_cfg]; rfl

theorem C18_loadConfig_keeps_runtime (env : Env) (i : Inst) (text : List B) :
    (loadConfig env i text).1.rt.m.nss = i.rt.m.nss ∧ (loadConfig env i text).1.state = i.state := by
  unfold loadConfig
  split
  · exact ⟨rfl, rfl⟩
  · simp only []
    split
    · exact ⟨rfl, rfl⟩
    · split <;> exact ⟨rfl, rfl⟩

/-- the time budget of a call starts when the call starts: the deadline of `execute(start)` is measured
from the clock value read at its own beginning, whatever earlier calls consumed -/
theorem C18_budget_per_call (sl fuel : Nat) (rt : RT) :
    ∃ ctxs i m res, start sl fuel rt = sched sl fuel ctxs i m res ∧ m.runStart = rt.m.now := by
  exact ⟨_, _, _, _, rfl, rfl⟩

/-! ## Non-vacuity -/

-- an environment whose front ends accept everything and compile to the empty program
def envTrivial : Env := { parse := fun _ => some [], pp := fun t => some t, parseCfg := fun _ => some [] }

example : (call envTrivial (create envTrivial 7 0) 3 115 [] 100).2 = 0 := by decide
example : (call envTrivial (create envTrivial 7 0) 3 120 [] 100).2 = -5 := by decide
example : (call envTrivial (destroy (create envTrivial 7 0)) 3 115 [] 100).2 = -1 := by decide

end Sqf.Props.C18
