import SqfModel.Lemmas.ParseRender
import SqfModel.Compile
import SqfModel.Generated.Registry
import SqfModel.GrammarTie
import SqfModel.Lemmas.LexRound
/-!
# C01 — expressions group by precedence, left-assoc, unary tightest, operands in order

Property theorems only (helper lemmas live in `SqfModel/Lemmas`).
-/
namespace Sqf.Props.C01
open Sqf D

/-! ## 1. The parser reads every well-parenthesised spelling as the documented tree -/

/-- **Main theorem.** For every program as written (`Program`: statement sequence over expression
trees with all ten levels, the seven operator classes, literals, variables, arrays, code blocks,
assignments, minimal *or* redundant parentheses, arbitrary separators), the parser model returns
exactly the documented reading `erase`, for all sufficiently large fuel. No bound on size or depth. -/
theorem C01_parse_render (p : Program) (h : p.WP) :
    ∃ f, ∀ f', f ≤ f' → pStatements f' (skipSeps p.toks) = some (p.erase, [.eof]) := by
  obtain ⟨hlead, hss⟩ := h
  have hm := (main_all (sizeList p.stmts)).stmts p.stmts (Nat.le_refl _) hss [.eof] stmtEnd_eof
  obtain ⟨f, hf⟩ := hm
  have hsk : skipSeps p.toks = toksSeq p.stmts ++ [.eof] := by
    unfold Program.toks
    rw [List.append_assoc, skipSeps_append hlead]
    exact skipSeps_seq p.stmts hss [.eof] stmtEnd_eof
  refine ⟨f, fun f' hle => ?_⟩
  rw [hsk]
  exact (mono hle).stmts _ _ hf

/-- The driver's fixed fuel can only produce the documented reading. -/
theorem C01_parse_render_driver (p : Program) (h : p.WP) (x : List Ast) :
    parseToks p.toks = some x → x = p.erase := by
  intro hx
  obtain ⟨f, hf⟩ := C01_parse_render p h
  unfold parseToks at hx
  split at hx
  · next ss heq =>
    have h1 := (mono (Nat.le_max_left (16 * p.toks.length + 64) f)).stmts _ _ heq
    have h2 := hf (max (16 * p.toks.length + 64) f) (Nat.le_max_right _ _)
    rw [h1] at h2
    simp only [Option.some.injEq, Prod.mk.injEq] at h2 hx
    rw [← hx]; exact h2.1
  · simp at hx

/-- An expression alone (any context level `k` not above its own level, any admissible continuation). -/
theorem C01_expression (d : D) (he : d.isExpr = true) (hw : d.WP) (k : Nat) (hk : k ≤ d.lvl)
    (rest : List PTok) (hf : Follow k rest) : Exp k (d.toks ++ rest) d.erase rest :=
  (main_all d.size).exp d (Nat.le_refl _) he hw k hk rest hf

/-! ### The property's clauses as corollaries -/

section Clauses
variable (x y z : PTok) (lx ly lz : Leaf)
variable (hx : leafOfTok x = some lx) (hy : leafOfTok y = some ly) (hz : leafOfTok z = some lz)
include hx hy hz

/-- left associativity within a level: `x o1 y o2 z` (same level) is `(x o1 y) o2 z` -/
theorem C01_left_assoc (o1 o2 : PTok) (l : Nat) (n1 n2 : Name)
    (h1 : binOfTok o1 = some (l, n1)) (h2 : binOfTok o2 = some (l, n2)) (hl : 1 ≤ l ∧ l < top) :
    Exp 1 ([x, o1, y, o2, z] ++ [.eof]) (.binary l n2 (.binary l n1 (.leaf lx) (.leaf ly)) (.leaf lz)) [.eof] := by
  have := C01_expression (.binary o2 l n2 (.binary o1 l n1 (.leaf x lx) (.leaf y ly)) (.leaf z lz)) rfl
    (by simp only [top] at hl; simp [WP, isExpr, lvl, top, *] ; omega) 1 (by simp [lvl]; omega) [.eof] (Follow.ofNoBinOp noBinOp_eof)
  simpa [toks, erase] using this

/-- a tighter operator on the right groups first: `x o1 y o2 z` with level o1 < level o2 is `x o1 (y o2 z)` -/
theorem C01_tighter_right (o1 o2 : PTok) (l1 l2 : Nat) (n1 n2 : Name)
    (h1 : binOfTok o1 = some (l1, n1)) (h2 : binOfTok o2 = some (l2, n2))
    (hl : 1 ≤ l1 ∧ l1 < l2 ∧ l2 < top) :
    Exp 1 ([x, o1, y, o2, z] ++ [.eof]) (.binary l1 n1 (.leaf lx) (.binary l2 n2 (.leaf ly) (.leaf lz))) [.eof] := by
  have := C01_expression (.binary o1 l1 n1 (.leaf x lx) (.binary o2 l2 n2 (.leaf y ly) (.leaf z lz))) rfl
    (by simp only [top] at hl; simp [WP, isExpr, lvl, top, *] ; omega) 1 (by simp [lvl]; omega) [.eof] (Follow.ofNoBinOp noBinOp_eof)
  simpa [toks, erase] using this

/-- a tighter operator on the left groups first: level o1 > level o2 gives `(x o1 y) o2 z` -/
theorem C01_tighter_left (o1 o2 : PTok) (l1 l2 : Nat) (n1 n2 : Name)
    (h1 : binOfTok o1 = some (l1, n1)) (h2 : binOfTok o2 = some (l2, n2))
    (hl : 1 ≤ l2 ∧ l2 < l1 ∧ l1 < top) :
    Exp 1 ([x, o1, y, o2, z] ++ [.eof]) (.binary l2 n2 (.binary l1 n1 (.leaf lx) (.leaf ly)) (.leaf lz)) [.eof] := by
  have := C01_expression (.binary o2 l2 n2 (.binary o1 l1 n1 (.leaf x lx) (.leaf y ly)) (.leaf z lz)) rfl
    (by simp only [top] at hl; simp [WP, isExpr, lvl, top, *] ; omega) 1 (by simp [lvl]; omega) [.eof] (Follow.ofNoBinOp noBinOp_eof)
  simpa [toks, erase] using this

/-- parentheses override: `x o1 (y o2 z)` is `x o1 (y o2 z)` whatever the levels -/
theorem C01_parens_override (o1 o2 : PTok) (l1 l2 : Nat) (n1 n2 : Name)
    (h1 : binOfTok o1 = some (l1, n1)) (h2 : binOfTok o2 = some (l2, n2))
    (hl : 1 ≤ l1 ∧ l1 < top ∧ 1 ≤ l2 ∧ l2 < top) :
    Exp 1 ([x, o1, .roundO, y, o2, z, .roundC] ++ [.eof])
      (.binary l1 n1 (.leaf lx) (.binary l2 n2 (.leaf ly) (.leaf lz))) [.eof] := by
  have := C01_expression (.binary o1 l1 n1 (.leaf x lx) (.paren (.binary o2 l2 n2 (.leaf y ly) (.leaf z lz)))) rfl
    (by simp only [top] at hl; simp [WP, isExpr, lvl, top, *] ; omega) 1 (by simp [lvl]; omega) [.eof] (Follow.ofNoBinOp noBinOp_eof)
  simpa [toks, erase] using this

omit hz in
/-- a unary operator binds tighter than any binary operator: `u x o y` is `(u x) o y` -/
theorem C01_unary_tightest (u o : PTok) (nu : Name) (l : Nat) (n : Name)
    (hu : unOfTok u = some nu) (ho : binOfTok o = some (l, n)) (hl : 1 ≤ l ∧ l < top) :
    Exp 1 ([u, x, o, y] ++ [.eof]) (.binary l n (.unary nu (.leaf lx)) (.leaf ly)) [.eof] := by
  have := C01_expression (.binary o l n (.unary u nu (.leaf x lx)) (.leaf y ly)) rfl
    (by simp only [top] at hl; simp [WP, isExpr, lvl, top, *] ; omega) 1 (by simp [lvl]; omega) [.eof] (Follow.ofNoBinOp noBinOp_eof)
  simpa [toks, erase] using this

omit hz in
/-- … also on the right: `x o u y` is `x o (u y)` -/
theorem C01_unary_tightest_right (u o : PTok) (nu : Name) (l : Nat) (n : Name)
    (hu : unOfTok u = some nu) (ho : binOfTok o = some (l, n)) (hl : 1 ≤ l ∧ l < top) :
    Exp 1 ([x, o, u, y] ++ [.eof]) (.binary l n (.leaf lx) (.unary nu (.leaf ly))) [.eof] := by
  have := C01_expression (.binary o l n (.leaf x lx) (.unary u nu (.leaf y ly))) rfl
    (by simp only [top] at hl; simp [WP, isExpr, lvl, top, *] ; omega) 1 (by simp [lvl]; omega) [.eof] (Follow.ofNoBinOp noBinOp_eof)
  simpa [toks, erase] using this
end Clauses

/-! ## 2. Token classification (`yylex`) -/

/-- A name with a registered binary overload of precedence `p ∈ 1..10` becomes the operator token of
exactly that level; the class only records which other arities exist. The result does not depend on
anything but the registry entry of the (lower-cased) name. -/
theorem C01_classify_binary (reg : Registry) (isIdent : Bool) (text : Name) (nu un : Bool) (p : Nat)
    (h : reg (lower text) = { nular := nu, unary := un, binary := some p }) (hp : 1 ≤ p ∧ p ≤ 10) :
    ∃ cls, classify reg isIdent text = .op cls p text ∧ binOfTok (classify reg isIdent text) = some (p, text) := by
  unfold classify
  simp only [h]
  have : (decide (1 ≤ p) && decide (p ≤ 10)) = true := by simp [hp.1, hp.2]
  simp only [this, if_true]
  cases un <;> cases nu <;> exact ⟨_, rfl, rfl⟩

/-- Letter case of an operator name never matters for its classification. -/
theorem C01_classify_case_insensitive (reg : Registry) (isIdent : Bool) (t1 t2 : Name) (h : lower t1 = lower t2) :
    (classify reg isIdent t1 = .op .b 0 [] → False) →
    ∀ cls p, classify reg isIdent t1 = .op cls p t1 → classify reg isIdent t2 = .op cls p t2 := by
  intro _ cls p h1
  unfold classify at h1 ⊢
  rw [← h]
  cases hb : (reg (lower t1)).binary with
  | none =>
    simp only [hb] at h1
    cases hu : (reg (lower t1)).unary <;> cases hn : (reg (lower t1)).nular <;> simp [hu, hn] at h1 <;>
      (cases isIdent <;> simp at h1)
  | some q =>
    simp only [hb] at h1 ⊢
    by_cases hq : (decide (1 ≤ q) && decide (q ≤ 10)) = true
    · simp only [hq, if_true] at h1 ⊢
      cases hu : (reg (lower t1)).unary <;> cases hn : (reg (lower t1)).nular <;> simp [hu, hn] at h1 ⊢ <;>
        (obtain ⟨rfl, rfl⟩ := h1; exact ⟨rfl, rfl⟩)
    · simp only [hq] at h1
      cases isIdent <;> simp at h1

/-! ## 3. Obligations over the live registry (regenerated from the source tree on every run) -/

def entryOk (e : Generated.RegEntry) : Bool :=
  match e.precs with
  | [] => e.first == 0
  | [p] => e.first == p && decide (1 ≤ p) && decide (p ≤ 10)
  | _ => false

/-- All overloads of one operator name share a single precedence, and it is one of the ten levels —
checked by kernel evaluation over the table generated from the current tree. -/
theorem C01_registry_single_precedence :
    ∀ e ∈ Generated.regTable, entryOk e = true := by
  have h : Generated.regChunks.all (fun c => c.all entryOk) = true := by decide +kernel
  intro e he
  unfold Generated.regTable at he
  rw [List.mem_flatten] at he
  obtain ⟨c, hc, hec⟩ := he
  exact List.all_eq_true.mp (List.all_eq_true.mp h c hc) e hec

/-- registered names are stored lower-case (the key `yylex` looks up is lower-cased) -/
theorem C01_registry_names_lower :
    ∀ e ∈ Generated.regTable, lower e.name = e.name := by
  have h : Generated.regChunks.all (fun c => c.all (fun e => lower e.name == e.name)) = true := by decide +kernel
  intro e he
  unfold Generated.regTable at he
  rw [List.mem_flatten] at he
  obtain ⟨c, hc, hec⟩ := he
  simpa using List.all_eq_true.mp (List.all_eq_true.mp h c hc) e hec

/-! ## 4. Code generation: post-order -/

/-- left operand, right operand, operator -/
theorem C01_postorder_binary (k : Nat) (n : Name) (l r : Ast) :
    compile (.binary k n l r) = compile l ++ compile r ++ [.callBinary (lower n) k] := by
  rw [compile]

/-- array elements left to right, then `makeArray n` -/
theorem C01_postorder_array (es : List Ast) :
    compile (.array es) = compileList es ++ [.makeArray es.length] := by
  rw [compile]

theorem C01_postorder_array_elems (a : Ast) (as : List Ast) :
    compileList (a :: as) = compile a ++ compileList as := by
  rw [compileList]

/-! ## Non-vacuity: a concrete non-trivial program meets the hypotheses -/

/-- `a b3 (b b2 c) b3 bu5 d ; x = [7, u y]` -/
def sample : Program :=
  { lead := [.semicolon]
    stmts := [
      .seq (.binary (.op .b 3 [98, 51]) 3 [98, 51]
              (.binary (.op .b 3 [98, 51]) 3 [98, 51] (.leaf (.ident [97]) (.ident [97]))
                 (.paren (.binary (.op .b 2 [98, 50]) 2 [98, 50] (.leaf (.ident [98]) (.ident [98])) (.leaf (.ident [99]) (.ident [99])))))
              (.unary (.op .bu 5 [98, 117, 53]) [98, 117, 53] (.leaf (.ident [100]) (.ident [100]))))
           [.semicolon],
      .seq (.assign (.leaf (.ident [120]) (.ident [120]))
              (.array [.leaf (.number [55]) (.num [55]), .unary (.opU [117]) [117] (.leaf (.ident [121]) (.ident [121]))]))
           [] ] }

example : sample.WP := by
  simp [sample, Program.WP, WPSeq, WP, WPArr, isSeq, isStmt, isExpr, isValue, hasSeps, lvl, top, isSep,
    leafOfTok, unOfTok, binOfTok]

example : parseToks sample.toks = some sample.erase := by rfl

/-! ## 1b. The same at text level: tokenizer, `yylex` classification and parser read the canonical text back

`renderPToks ts` spells every token and puts one blank behind it.  For every program as written whose tokens are
`lexable` under the registry — punctuation and keywords; names (identifier-like, or one of the eighteen symbolic
operators) that the registry classifies as the token says; numbers with an optional fraction; hexadecimal numbers;
strings in either quote character with doubled quotes — the character-level tokenizer of `Lex.lean` and the
classification of `yylex` return exactly the token sequence, and therefore the parser returns the documented reading.
Other spellings (more white space, comments, exponents, letter case of keywords) are covered by the correspondence
check only. -/

open Sqf.LexRound in
/-- the text of a program as written -/
def progText (p : Program) : List B := renderPToks (p.lead ++ toksSeq p.stmts)

open Sqf.LexRound in
/-- **the token stream of the text is the token stream the program was written from** (any length, any nesting) -/
theorem C01_text_tokens (reg : Registry) (p : Program)
    (hl : ∀ t ∈ p.lead ++ toksSeq p.stmts, lexable reg t = true) : ptoks reg (progText p) = p.toks := by
  unfold progText Program.toks
  rw [ptoks_render reg _ hl]

open Sqf.LexRound in
/-- **parse ∘ print = id at text level**: tokenizing, classifying and parsing the text of a well-parenthesised
program gives the documented reading, for all sufficiently large fuel -/
theorem C01_parse_render_text (reg : Registry) (p : Program) (h : p.WP)
    (hl : ∀ t ∈ p.lead ++ toksSeq p.stmts, lexable reg t = true) :
    ∃ f, ∀ f', f ≤ f' → pStatements f' (skipSeps (ptoks reg (progText p))) = some (p.erase, [.eof]) := by
  rw [C01_text_tokens reg p hl]
  exact C01_parse_render p h

/-- a registry for the sample program: `b3`, `b2` binary, `bu5` binary and unary, `u` unary -/
def sampleReg : Registry := fun n =>
  if n == [98, 51] then { nular := false, unary := false, binary := some 3 }
  else if n == [98, 50] then { nular := false, unary := false, binary := some 2 }
  else if n == [98, 117, 53] then { nular := false, unary := true, binary := some 5 }
  else if n == [117] then { nular := false, unary := true, binary := none }
  else { nular := false, unary := false, binary := none }

open Sqf.LexRound in
example : ∀ t ∈ sample.lead ++ toksSeq sample.stmts, lexable sampleReg t = true := by decide +kernel

open Sqf.LexRound in
example : progText sample = n!"; a b3 ( b b2 c ) b3 bu5 d ; x = [ 7 , u y ] " := by decide +kernel

-- the text as a whole, evaluated by the kernel: tokenizer + classification give the tokens it was written from
example : ptoks sampleReg (progText sample) = sample.toks := by decide +kernel

/-! ## The grammar of the current tree (translated from `parser.tab.cc` on every run)

`translators/lalr.py` reads the LALR tables, the semantic action of every rule, the symbol names, the `astkind`
numbering and the `yylex` classification out of the checked-in `parser.tab.cc` (the file that is compiled — `parser.y`
is not regenerated by the build).  The statements below are evaluated by the kernel over that generated data
(`SqfModel/GrammarTie.lean`), so they are re-established against the current source on every run. -/

open Sqf.Generated.SqfGrammar Sqf.GrammarTie in
/-- `yylex` hands a registered name to the grammar as the operator class the model's `classify` computes — for every
combination of binary / unary / nular and every precedence.  `classify` is what the parse theorem above is about. -/
theorem C01_yylex_class_agrees :
    yylexClass.all (fun e => modelClass e.1 e.2.1 e.2.2.1 e.2.2.2.1 true == e.2.2.2.2) = true :=
  yylex_class_agrees

open Sqf.Generated.SqfGrammar Sqf.GrammarTie in
/-- the class switch of `yylex` is complete: all four binary classes at all ten levels, and U, N, UN -/
theorem C01_yylex_class_complete :
    ([1, 2, 3, 4, 5, 6, 7, 8, 9, 10].all (fun p => [(false, false), (false, true), (true, false), (true, true)].all (fun un =>
      yylexClass.any (fun e => e.1 == true && e.2.1 == un.1 && e.2.2.1 == un.2 && e.2.2.2.1 == p)))) = true ∧
    ([(false, true), (true, false), (true, true)].all (fun un =>
      yylexClass.any (fun e => e.1 == false && e.2.1 == un.1 && e.2.2.1 == un.2))) = true ∧ yylexClass.length = 43 :=
  yylex_class_complete

open Sqf.Generated.SqfGrammar Sqf.GrammarTie in
/-- every tokenizer kind that is not looked up in the registry becomes the parser token the model gives it, and an
unregistered name falls back to IDENT / INVALID as in the model -/
theorem C01_yylex_tokens_agree :
    (yylexSimple.all (fun e => match tkOfName e.1 with | some k => modelSimple k == e.2 | none => false) = true ∧
      yylexSimple.length = 22) ∧
    (yylexFallback = (modelClass false false false 0 true, modelClass false false false 0 false) ∧ yylexDefault = "INVALID") :=
  ⟨yylex_simple_agrees, yylex_fallback_agrees⟩

open Sqf.Generated.SqfGrammar in
/-- the LALR tables of the current tree are the tables the hand-written parser model was validated against -/
theorem C01_grammar_tables_canonical :
    complete = true ∧ yypact = Canon.SqfGrammar.yypact ∧ yydefact = Canon.SqfGrammar.yydefact ∧
    yypgoto = Canon.SqfGrammar.yypgoto ∧ yydefgoto = Canon.SqfGrammar.yydefgoto ∧ yytable = Canon.SqfGrammar.yytable ∧
    yycheck = Canon.SqfGrammar.yycheck ∧ yyr1 = Canon.SqfGrammar.yyr1 ∧ yyr2 = Canon.SqfGrammar.yyr2 ∧
    yypact_ninf = Canon.SqfGrammar.yypact_ninf ∧ yytable_ninf = Canon.SqfGrammar.yytable_ninf ∧
    yylast = Canon.SqfGrammar.yylast ∧ yyfinal = Canon.SqfGrammar.yyfinal ∧ yyntokens = Canon.SqfGrammar.yyntokens :=
  GrammarTie.sqf_tables_canonical

open Sqf.Generated.SqfGrammar in
/-- … and so are the semantic actions (operands appended left to right under the operator's token), the symbol names
and the numbering of the node kinds -/
theorem C01_grammar_actions_canonical :
    acts = Canon.SqfGrammar.acts ∧ tnames = Canon.SqfGrammar.tnames ∧ kinds = Canon.SqfGrammar.kinds :=
  ⟨GrammarTie.sqf_actions_canonical, GrammarTie.sqf_names_canonical⟩

end Sqf.Props.C01
