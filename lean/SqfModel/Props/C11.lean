import SqfModel.VM.Sched
import SqfModel.Lemmas.StackInv
import SqfModel.Control
/-!
# C11 — execution bounds: maximum runtime per run, loop cap in unscheduled code

Time is adversarial in the model: the clock is a field of the machine that every operator/instruction
may leave at any value; the theorems only use "the deadline test sees a time past the limit".
-/
set_option linter.unusedSimpArgs false
namespace Sqf.Props.C11
open Sqf Sqf.VM

def Logged (m : M) (code : Nat) : Prop := ∃ d ∈ m.diags, d.code = code

/-! ## 1. The deadline: once the limit is exceeded no further instruction executes -/

/-- past the limit the deadline test reports `MaximumRuntimeReached`, requests the exit, lowers the
error flag and fails the step — without executing the instruction it was about to execute -/
theorem C11_deadline (m : M) (hmax : m.maxRuntime ≠ 0) (hpast : m.runStart + m.maxRuntime < m.now) :
    ∃ m', (deadline m).1 = some (m', .runtimeError) ∧ m'.exitReq = true ∧ m'.err = false ∧
      Logged m' Diag.runtime_MaximumRuntimeReached ∧ m'.ctx = m.ctx := by
  unfold deadline
  have h1 : (m.maxRuntime != 0) = true := by simpa using hmax
  simp only [h1, if_true, M.readClock, hpast]
  refine ⟨_, rfl, rfl, rfl, ?_, ?_⟩
  · unfold Logged M.log
    simp only
    split <;> exact ⟨{ code := Diag.runtime_MaximumRuntimeReached, level := levelOf Diag.runtime_MaximumRuntimeReached }, by simp, rfl⟩
  · simp only [log_ctx]

/-- the instruction fetch obeys the deadline: nothing of the script runs past it -/
theorem C11_no_instruction_after_deadline (m : M) (f : Frame) (i : Instr) (htop : m.top? = some f)
    (hi : f.code[f.pc - 1]? = some i) (hmax : m.maxRuntime ≠ 0) (hpast : m.runStart + m.maxRuntime < m.now) :
    (fetchExec m).2 = .runtimeError ∧ (fetchExec m).1.exitReq = true ∧ (fetchExec m).1.ctx = m.ctx := by
  obtain ⟨m', h1, h2, _, _, h5⟩ := C11_deadline m hmax hpast
  unfold fetchExec
  simp only [htop, hi]
  cases hd : deadline m with
  | mk a b =>
    rw [hd] at h1
    simp only at h1
    subst h1
    exact ⟨rfl, h2, h5⟩

/-- a loop that restarts a frame without instructions (`for … step 0 do {}`) is subject to the same
test on every restart -/
theorem C11_empty_loops_obey_deadline (m : M) (hmax : m.maxRuntime ≠ 0) (hpast : m.runStart + m.maxRuntime < m.now) :
    (yieldStep m).2 = .runtimeError ∧ (yieldStep m).1.exitReq = true := by
  obtain ⟨m', h1, h2, _, _, _⟩ := C11_deadline m hmax hpast
  unfold yieldStep
  cases hd : deadline m with
  | mk a b =>
    rw [hd] at h1
    simp only at h1
    subst h1
    exact ⟨rfl, h2⟩

/-- an exit request empties the VM: all scripts are discarded and the state is `empty` -/
theorem C11_exit_leaves_vm_empty (ctxs : List Ctx) (m : M) (res : StepRes) (h : m.exitReq = true) :
    (finishStart ctxs m res).rt.ctxs = [] ∧ (finishStart ctxs m res).state = .empty := by
  simp [finishStart, h]

/-- the scheduler stops as soon as an exit was requested: no other script gets another slice -/
theorem C11_exit_stops_scheduler (sliceLen fuel : Nat) (ctxs : List Ctx) (i : Nat) (c : Ctx) (m : M) (res : StepRes)
    (hne : ctxs.isEmpty = false) (hc : ctxs[i]? = some c) (ht : isTerminated c m = false)
    (hex : (schedOne sliceLen c m).1.exitReq = true) :
    (sched sliceLen (fuel + 1) ctxs i m res).rt.ctxs = [] ∧ (sched sliceLen (fuel + 1) ctxs i m res).state = .empty := by
  rw [sched]
  simp [hne, hc, ht, hex, finishStart]

/-- a run in which the scripts only sleep executes no instruction, and still obeys the limit: when the
scheduler passes over a script that is asleep past the deadline it reports `MaximumRuntimeReached` and
requests the exit (which, by `C11_exit_stops_scheduler`, empties the VM) -/
theorem C11_sleeping_obeys_deadline (sliceLen : Nat) (c : Ctx) (m : M) (hs : c.suspended = true)
    (hw : m.now < c.wakeup) (hmax : m.maxRuntime ≠ 0) (hpast : m.runStart + m.maxRuntime < m.now) :
    (schedOne sliceLen c m).2 = .runtimeError ∧ (schedOne sliceLen c m).1.exitReq = true ∧
      (schedOne sliceLen c m).1.err = false ∧ Logged (schedOne sliceLen c m).1 Diag.runtime_MaximumRuntimeReached := by
  have h1 : (m.maxRuntime != 0) = true := by simpa using hmax
  have h2 : ¬ c.wakeup ≤ m.now := by omega
  unfold schedOne
  simp only [hs, if_true, M.readClock, h2, if_false, h1, Bool.true_and, decide_eq_true_eq, hpast]
  refine ⟨trivial, trivial, trivial, ?_⟩
  unfold Logged M.log
  simp only
  split <;> exact ⟨{ code := Diag.runtime_MaximumRuntimeReached, level := levelOf Diag.runtime_MaximumRuntimeReached }, by simp, rfl⟩

/-- … and a sleeping script is otherwise left alone: before the deadline (or without a limit) nothing of it
executes and nothing is reported -/
theorem C11_sleeping_before_deadline (sliceLen : Nat) (c : Ctx) (m : M) (hs : c.suspended = true)
    (hw : m.now < c.wakeup) (hin : m.maxRuntime = 0 ∨ m.now ≤ m.runStart + m.maxRuntime) :
    (schedOne sliceLen c m).2 = .ok ∧ (schedOne sliceLen c m).1.diags = m.diags ∧
      (schedOne sliceLen c m).1.exitReq = m.exitReq ∧ (schedOne sliceLen c m).1.ctx = c := by
  have h2 : ¬ c.wakeup ≤ m.now := by omega
  unfold schedOne
  simp only [hs, if_true, M.readClock, h2, if_false]
  rcases hin with h | h
  · simp [h]
  · have : ¬ (m.runStart + m.maxRuntime < m.now) := by omega
    simp [this]

/-! ## 2. The budget belongs to the run -/

/-- every `execute(start)` measures the limit from its own start: the age of the VM is irrelevant -/
theorem C11_budget_per_run (sliceLen fuel : Nat) (rt : RT) :
    start sliceLen fuel rt =
      sched sliceLen fuel rt.ctxs 0 { rt.m.readClock.2 with runStart := rt.m.now, exitReq := false } .ok := by
  simp [start, M.readClock]

/-! ## 3. The iteration cap of unscheduled `while` loops -/

/-- in unscheduled code the body-end check ends the loop once the counter reaches the cap … -/
theorem C11_while_cap_body (loops : Nat) (cond code : List Instr) (m : M) (hu : m.ctx.canSuspend = false)
    (hmax : 0 < m.maxLoops) (hcap : m.maxLoops ≤ loops + 1) :
    (behDecide (.whileB true loops cond code) none m).2.2.1 = .ok := by
  simp [behDecide, hu, hmax, hcap]

/-- … and so does the condition check when the body is empty -/
theorem C11_while_cap_empty_body (loops : Nat) (cond : List Instr) (m : M) (hu : m.ctx.canSuspend = false)
    (hmax : 0 < m.maxLoops) (hcap : m.maxLoops ≤ loops + 1) :
    (behDecide (.whileB false loops cond []) (some (.bool true)) m).2.2.1 = .ok := by
  simp [behDecide, hu, hmax, hcap]

/-- every iteration of an unscheduled loop advances the counter by exactly one, with a body … -/
theorem C11_while_counter_body (loops : Nat) (cond code : List Instr) (m : M) (hu : m.ctx.canSuspend = false)
    (h : ¬ (0 < m.maxLoops ∧ m.maxLoops ≤ loops + 1)) :
    (behDecide (.whileB true loops cond code) none m).2.1 = .whileB false (loops + 1) cond code := by
  simp only [behDecide, hu, Bool.not_false, Bool.true_and, if_true, Bool.not_true, Bool.false_eq_true, if_false]
  have : (decide (m.maxLoops > 0) && decide (loops + 1 ≥ m.maxLoops)) = false := by
    simp only [Bool.and_eq_false_iff, decide_eq_false_iff_not]
    by_cases h1 : 0 < m.maxLoops
    · right; intro h2; exact h ⟨h1, h2⟩
    · left; exact h1
  simp [this]

/-- … and without one; so no unscheduled `while` performs more than `maxLoops` iterations -/
theorem C11_while_counter_empty_body (loops : Nat) (cond : List Instr) (m : M) (hu : m.ctx.canSuspend = false)
    (h : ¬ (0 < m.maxLoops ∧ m.maxLoops ≤ loops + 1)) :
    (behDecide (.whileB false loops cond []) (some (.bool true)) m).2.1 = .whileB false (loops + 1) cond [] := by
  simp only [behDecide, hu, Bool.not_false, Bool.true_and, if_true, List.isEmpty_nil]
  have : (decide (m.maxLoops > 0) && decide (loops + 1 ≥ m.maxLoops)) = false := by
    simp only [Bool.and_eq_false_iff, decide_eq_false_iff_not]
    by_cases h1 : 0 < m.maxLoops
    · right; intro h2; exact h ⟨h1, h2⟩
    · left; exact h1
  simp [this]

/-! ## 4. Progress: `frame::next` always hands control back -/

/-- `frameNext` with fuel `f` re-enters itself at most `f` times; with the yield rule every re-entry
on a frame without instructions returns to `execute_do` immediately -/
theorem C11_empty_restart_yields (fuel : Nat) (m m3 : M) (f f3 : Frame) (b : Beh)
    (htop : m.top? = some f) (hend : (advance f).1.pc = (advance f).1.code.length + 1) (hdie : (advance f).1.die = false)
    (hb : (advance f).1.exitB = some b)
    (hs : settle (advance f).2 (enact b (m.setTop (advance f).1)) = (m3, none))
    (h3 : m3.top? = some f3) (hempty : f3.code = []) :
    frameNext (fuel + 1) m = (m3, .yield) := by
  rw [frameNext]
  simp [htop, hend, hdie, hb, hs, h3, hempty]

/-! ## 5. The stepping actions: every action measures the limit from its own start

`execute(assembly_step | line_step | leave_scope)` begin like a start: requests cleared, the time stamp of the run taken
anew (`Ctl.begin`). Whatever time passed since an earlier action — a halted script may wait for minutes — the budget of
the action that executes now counts from its own first clock read. (A seeded change that kept the old time stamp when a
halted VM was started again is what the `ctl` histories with pauses exhibit; this is the model's side of it.) -/

open Sqf.Ctl in
theorem C11_action_starts_its_own_budget (m : M) :
    (begin m).runStart = m.now ∧ (begin m).exitReq = false ∧ (begin m).now = m.now + 1 ∧ (begin m).maxRuntime = m.maxRuntime := by
  simp [begin, M.readClock]

/-- the deadline test right at the start of an action never fires for a positive limit, however late the action starts -/
theorem C11_pause_before_an_action_costs_nothing (m : M) (pause : Nat) (hmax : 1 ≤ m.maxRuntime) :
    (deadline (Sqf.Ctl.begin { m with now := m.now + pause })).1 = none := by
  simp only [deadline, Sqf.Ctl.begin, M.readClock]
  have h1 : (m.maxRuntime != 0) = true := by
    simp; omega
  simp only [h1, if_true]
  have h2 : ¬ (m.now + pause + m.maxRuntime < m.now + pause + 1) := by omega
  simp [h2]

/-- the three stepping actions execute on the machine `begin` prepared -/
theorem C11_stepping_actions_begin (lineOf : Ctx → Option Nat) (r : Sqf.Ctl.Rt) (c : Ctx) (hc : r.ctx = some c) :
    Sqf.Ctl.assemblyStep r = Sqf.Ctl.finish r (some (Sqf.Ctl.doOne c (Sqf.Ctl.begin r.m)).1)
        (Sqf.Ctl.doOne c (Sqf.Ctl.begin r.m)).2.1 (Sqf.Ctl.doOne c (Sqf.Ctl.begin r.m)).2.2 ∧
    Sqf.Ctl.lineStep lineOf r = Sqf.Ctl.finish r (some (Sqf.Ctl.lineLoop lineOf (lineOf c) 100000 c (Sqf.Ctl.begin r.m)).1)
        (Sqf.Ctl.lineLoop lineOf (lineOf c) 100000 c (Sqf.Ctl.begin r.m)).2.1 (Sqf.Ctl.lineLoop lineOf (lineOf c) 100000 c (Sqf.Ctl.begin r.m)).2.2 ∧
    Sqf.Ctl.leaveScope r = Sqf.Ctl.finish r (some (Sqf.Ctl.leaveLoop (c.frames.length - 1) 100000 c (Sqf.Ctl.begin r.m)).1)
        (Sqf.Ctl.leaveLoop (c.frames.length - 1) 100000 c (Sqf.Ctl.begin r.m)).2.1 (Sqf.Ctl.leaveLoop (c.frames.length - 1) 100000 c (Sqf.Ctl.begin r.m)).2.2 := by
  refine ⟨?_, ?_, ?_⟩
  · unfold Sqf.Ctl.assemblyStep; simp [hc]
  · unfold Sqf.Ctl.lineStep; simp [hc]
  · unfold Sqf.Ctl.leaveScope; simp [hc]

/-! ## Non-vacuity -/

example : (deadline { maxRuntime := 10, runStart := 0, now := 11 }).1.isSome = true := by decide

end Sqf.Props.C11
