import SqfModel.Control
/-!
# C19 — execution control (start / step / stop / abort) follows its state machine, thread-safe

Sequential theorems are about `Ctl.exec` (one controlling thread, actions one after another) for every
runtime state, every program and every `lineOf`; concurrent theorems are about every reachable state of the
interleaving system `Ctl.Conc` (two threads that may call `execute(start)`, a controller storing exit
requests), for scripts of any length.
-/
set_option linter.unusedSimpArgs false
set_option linter.unusedVariables false
namespace Sqf.Props.C19
open Sqf Sqf.VM Sqf.Ctl

/-! ## 1. The action table (sequential) -/

/-- the state an executing action leaves is determined by its result — unless an exit was requested, in
which case the VM is emptied -/
theorem finish_table (r : Rt) (c : Option Ctx) (m : M) (res : StepRes) :
    (m.exitReq = true → (finish r c m res).1.state = .empty ∧ (finish r c m res).1.ctx = none) ∧
    (m.exitReq = false → (finish r c m res).1.state = stateOf res ∧ (finish r c m res).1.ctx = c) ∧
    (finish r c m res).2 = resOf res := by
  unfold finish
  by_cases h : m.exitReq = true
  · simp [h]
  · have h' : m.exitReq = false := by simpa using h
    simp [h']

/-- result and state agree: `empty` ⇒ state empty; `ok` ⇒ halted (or emptied by an exit request);
an error result ⇒ halted_error (or emptied) -/
theorem stateOf_table : stateOf .empty = .empty ∧ stateOf .ok = .halted ∧ stateOf .runtimeError = .haltedError := ⟨rfl, rfl, rfl⟩

/-- **stop** issued while nothing executes is refused and changes nothing -/
theorem C19_stop_idle (lineOf : Ctx → Option Nat) (r : Rt) : exec lineOf r .stop = (r, .actionError) := rfl

/-- **abort on a halted VM discards all scripts** and leaves it empty; on an empty VM it is refused -/
theorem C19_abort_table (lineOf : Ctx → Option Nat) (r : Rt) :
    ((r.state = .halted ∨ r.state = .haltedError) →
      (exec lineOf r .abort).2 = .ok ∧ (exec lineOf r .abort).1.state = .empty ∧ (exec lineOf r .abort).1.ctx = none) ∧
    (r.state = .empty → exec lineOf r .abort = (r, .actionError)) := by
  refine ⟨?_, ?_⟩
  · intro h
    show (abortAct r).2 = .ok ∧ (abortAct r).1.state = .empty ∧ (abortAct r).1.ctx = none
    unfold abortAct
    rcases h with h | h <;> simp [h]
  · intro h
    show abortAct r = (r, .actionError)
    unfold abortAct
    simp [h]

/-- every executing action on a VM without a script returns `empty` and leaves the state `empty` -/
theorem C19_no_script (lineOf : Ctx → Option Nat) (r : Rt) (hc : r.ctx = none) (a : Action)
    (ha : a = .start ∨ a = .assemblyStep ∨ a = .lineStep ∨ a = .leaveScope) :
    (exec lineOf r a).2 = .empty ∧ (exec lineOf r a).1.state = .empty := by
  have key : (finish r none (begin r.m) .empty).2 = .empty ∧ (finish r none (begin r.m) .empty).1.state = .empty := by
    unfold finish begin
    simp [resOf, stateOf]
  rcases ha with h | h | h | h <;> subst h
  · show (startAct r).2 = _ ∧ (startAct r).1.state = _
    unfold startAct; simp only [hc]; exact key
  · show (assemblyStep r).2 = _ ∧ (assemblyStep r).1.state = _
    unfold assemblyStep; simp only [hc]; exact key
  · show (lineStep lineOf r).2 = _ ∧ (lineStep lineOf r).1.state = _
    unfold lineStep; simp only [hc]; exact key
  · show (leaveScope r).2 = _ ∧ (leaveScope r).1.state = _
    unfold leaveScope; simp only [hc]; exact key

/-- no action ever leaves the VM in a state outside {empty, halted, halted_error}, and every action returns
(the functions are total): the VM always accepts a further action -/
theorem C19_never_stuck (lineOf : Ctx → Option Nat) (r : Rt) (a : Action) :
    ∃ r' res, exec lineOf r a = (r', res) := ⟨_, _, rfl⟩

/-- **abort on a halted VM discards *all* scripts**: the stepped script and every script it has spawned meanwhile
(they wait in `m.spawned`, the tail of `m_contexts`); a `start` behind the abort finds nothing to run -/
theorem C19_abort_discards_all (lineOf : Ctx → Option Nat) (r : Rt) (h : r.state = .halted ∨ r.state = .haltedError) :
    (exec lineOf r .abort).1.ctx = none ∧ (exec lineOf r .abort).1.m.spawned = [] ∧
    (exec lineOf (exec lineOf r .abort).1 .start).2 = .empty := by
  have e : exec lineOf r .abort = ({ r with ctx := none, m := { r.m with spawned := [] }, state := .empty }, .ok) := by
    show abortAct r = _
    unfold abortAct
    rcases h with h | h <;> simp [h]
  rw [e]
  refine ⟨rfl, rfl, ?_⟩
  show (startAct _).2 = .empty
  simp [startAct, finish, resOf]
  split <;> rfl

/-- from every state two actions suffice to reach the empty state: `abort` (if halted) — so no sequence
of actions leaves the VM unable to start over -/
theorem C19_can_reset (lineOf : Ctx → Option Nat) (r : Rt) :
    r.state = .empty ∨ (exec lineOf r .abort).1.state = .empty := by
  cases h : r.state with
  | empty => exact Or.inl rfl
  | halted => right; exact ((C19_abort_table lineOf r).1 (Or.inl h)).2.1
  | haltedError => right; exact ((C19_abort_table lineOf r).1 (Or.inr h)).2.1

/-! ## 2. Stepping -/

/-- **an assembly step executes exactly one instruction**: it is one `execute_do(runtime, 1)` of the VM
model (any number of frame completions, then one instruction), with the requests cleared before and the
state mapped after -/
theorem C19_assembly_step_one (lineOf : Ctx → Option Nat) (r : Rt) (c : Ctx) (hc : r.ctx = some c) :
    exec lineOf r .assemblyStep =
      finish r (some (step 200000 { begin r.m with ctx := c }).1.ctx) (step 200000 { begin r.m with ctx := c }).1
        (step 200000 { begin r.m with ctx := c }).2 := by
  show assemblyStep r = _
  unfold assemblyStep doOne
  simp only [hc]

/-- **a line step stops at the first instruction of a different line**: when the loop ends with `ok` and
without an exit request, the next instruction is on a line other than the one the step started on; and
it never stops earlier: every stop is one of these reasons -/
theorem lineLoop_stops (lineOf : Ctx → Option Nat) (l : Nat) :
    ∀ (fuel : Nat) (c : Ctx) (m : M) (c' : Ctx) (m' : M),
      lineLoop lineOf (some l) fuel c m = (c', m', .ok) → m'.exitReq = false →
      ∃ l', lineOf c' = some l' ∧ l' ≠ l := by
  intro fuel
  induction fuel with
  | zero => intro c m c' m' h; simp [lineLoop] at h
  | succ fuel ih =>
    intro c m c' m' h hex
    rw [lineLoop] at h
    by_cases h1 : (doOne c m).2.2 ≠ .ok
    · rw [if_pos h1] at h; rw [h] at h1; exact absurd rfl h1
    · rw [if_neg h1] at h
      by_cases h2 : (doOne c m).2.1.exitReq = true
      · rw [if_pos h2] at h; rw [h] at h2; simp only [] at h2; rw [h2] at hex; cases hex
      · rw [if_neg h2] at h
        by_cases h3 : sameLine (some l) (lineOf (doOne c m).1) = true
        · rw [if_pos h3] at h
          simp only [Option.isNone_some, Bool.false_eq_true, if_false] at h
          exact ih _ _ c' m' h hex
        · rw [if_neg h3] at h
          rw [h] at h3
          simp only [] at h3
          cases hl : lineOf c' with
          | none => rw [hl] at h3; simp [sameLine] at h3
          | some l' =>
            rw [hl] at h3
            refine ⟨l', rfl, ?_⟩
            intro e
            subst e
            simp [sameLine] at h3

theorem C19_line_step_new_line (lineOf : Ctx → Option Nat) (r : Rt) (c : Ctx) (l : Nat) (fuel : Nat)
    (hc : r.ctx = some c) (hl : lineOf c = some l)
    (hok : (lineStep lineOf r fuel).2 = .ok) (hst : (lineStep lineOf r fuel).1.state = .halted) :
    ∃ c' l', (lineStep lineOf r fuel).1.ctx = some c' ∧ lineOf c' = some l' ∧ l' ≠ l := by
  unfold lineStep at hok hst ⊢
  simp only [hc, hl] at hok hst ⊢
  unfold finish at hok hst ⊢
  by_cases hex : (lineLoop lineOf (some l) fuel c (begin r.m)).2.1.exitReq = true
  · simp [hex] at hst
  · have hex' : (lineLoop lineOf (some l) fuel c (begin r.m)).2.1.exitReq = false := by simpa using hex
    simp only [hex', Bool.false_eq_true, if_false] at hok hst ⊢
    have hres : (lineLoop lineOf (some l) fuel c (begin r.m)).2.2 = .ok := by
      cases hr : (lineLoop lineOf (some l) fuel c (begin r.m)).2.2 <;> simp [hr, resOf] at hok <;> rfl
    obtain ⟨l', h1, h2⟩ := lineLoop_stops lineOf l fuel c (begin r.m) _ _
      (by rw [← hres]) hex'
    exact ⟨_, l', rfl, h1, h2⟩

/-- **leave scope** stops as soon as the frame stack is at or below the depth of the enclosing scope -/
theorem leaveLoop_stops (depth : Nat) :
    ∀ (fuel : Nat) (c : Ctx) (m : M) (c' : Ctx) (m' : M),
      leaveLoop depth fuel c m = (c', m', .ok) → m'.exitReq = false → c'.frames.length ≤ depth := by
  intro fuel
  induction fuel with
  | zero => intro c m c' m' h; simp [leaveLoop] at h
  | succ fuel ih =>
    intro c m c' m' h hex
    rw [leaveLoop] at h
    by_cases h1 : (doOne c m).2.2 ≠ .ok
    · rw [if_pos h1] at h; rw [h] at h1; exact absurd rfl h1
    · rw [if_neg h1] at h
      by_cases h2 : (doOne c m).2.1.exitReq = true
      · rw [if_pos h2] at h; rw [h] at h2; simp only [] at h2; rw [h2] at hex; cases hex
      · rw [if_neg h2] at h
        by_cases h3 : (doOne c m).1.frames.length ≤ depth
        · rw [if_pos h3] at h; rw [h] at h3; exact h3
        · rw [if_neg h3] at h
          exact ih _ _ c' m' h hex

/-! ## 3b. A stop / abort that arrives while a stepping action executes -/

/-- the instruction at which the controller has its turn leaves the request stored -/
theorem doOneI_fired (inj : Option Nat) (c : Ctx) (m : M) (h : (doOneI true inj c m).2.2 = true) :
    (doOneI true inj c m).1.2.1.exitReq = true := by
  unfold doOneI at h ⊢
  match inj with
  | none => simp at h
  | some 0 =>
    by_cases he : ((doOne c m).2.2 == .empty) = true
    · simp [he] at h
    · simp [he]
  | some (k + 1) =>
    by_cases he : ((doOne c m).2.2 == .empty) = true <;> simp [he] at h

theorem lineLoopI_fired (lineOf : Ctx → Option Nat) :
    ∀ (fuel : Nat) (ln : Option Nat) (inj : Option Nat) (c : Ctx) (m : M),
      (lineLoopI lineOf true ln fuel inj false c m).2.2 = true →
      (lineLoopI lineOf true ln fuel inj false c m).1.2.1.exitReq = true := by
  intro fuel
  induction fuel with
  | zero => intro ln inj c m h; simp [lineLoopI] at h
  | succ fuel ih =>
    intro ln inj c m h
    rw [lineLoopI] at h ⊢
    simp only [Bool.false_or] at h ⊢
    by_cases h1 : (doOneI true inj c m).1.2.2 ≠ .ok
    · rw [if_pos h1] at h ⊢; exact doOneI_fired inj c m h
    · rw [if_neg h1] at h ⊢
      by_cases h2 : (doOneI true inj c m).1.2.1.exitReq = true
      · rw [if_pos h2]; exact h2
      · rw [if_neg h2] at h ⊢
        have hf : (doOneI true inj c m).2.2 = false := by
          cases hf : (doOneI true inj c m).2.2 with
          | false => rfl
          | true => exact absurd (doOneI_fired inj c m hf) h2
        rw [hf] at h ⊢
        by_cases h3 : sameLine ln (lineOf (doOneI true inj c m).1.1) = true
        · rw [if_pos h3] at h ⊢; exact ih _ _ _ _ h
        · rw [if_neg h3] at h; simp at h

theorem leaveLoopI_fired (depth : Nat) :
    ∀ (fuel : Nat) (inj : Option Nat) (c : Ctx) (m : M),
      (leaveLoopI true depth fuel inj false c m).2.2 = true →
      (leaveLoopI true depth fuel inj false c m).1.2.1.exitReq = true := by
  intro fuel
  induction fuel with
  | zero => intro inj c m h; simp [leaveLoopI] at h
  | succ fuel ih =>
    intro inj c m h
    rw [leaveLoopI] at h ⊢
    simp only [Bool.false_or] at h ⊢
    by_cases h1 : (doOneI true inj c m).1.2.2 ≠ .ok
    · rw [if_pos h1] at h ⊢; exact doOneI_fired inj c m h
    · rw [if_neg h1] at h ⊢
      by_cases h2 : (doOneI true inj c m).1.2.1.exitReq = true
      · rw [if_pos h2]; exact h2
      · rw [if_neg h2] at h ⊢
        have hf : (doOneI true inj c m).2.2 = false := by
          cases hf : (doOneI true inj c m).2.2 with
          | false => rfl
          | true => exact absurd (doOneI_fired inj c m hf) h2
        rw [hf] at h ⊢
        by_cases h3 : (doOneI true inj c m).1.1.frames.length ≤ depth
        · rw [if_pos h3] at h; simp at h
        · rw [if_neg h3] at h ⊢; exact ih _ _ _ h

/-- **a stop / abort accepted while an assembly step, a line step or a leave scope executes ends that action with
the VM empty**: whatever the action, the instruction boundary and the program, the action during which the controller
had its turn reports the state `empty` and leaves no script, stepped or spawned. (The seeded change that mapped the
result to a state after discarding the scripts, and the stale active context `leave_scope` left behind, both break the
correspondence with this model; this theorem is what the model then promises.) -/
theorem C19_stop_while_stepping (lineOf : Ctx → Option Nat) (r : Rt) (inj : Option Nat) (fuel : Nat) (a : Action)
    (o : (Rt × Res) × Option Nat × Bool) (h : execI lineOf true r inj fuel a = some o) (hf : o.2.2 = true) :
    o.1.1.state = .empty ∧ o.1.1.ctx = none ∧ o.1.1.m.spawned = [] := by
  cases a with
  | start =>
    unfold execI at h
    cases inj with
    | none => simp at h; rw [← h] at hf; simp at hf
    | some k =>
      cases hc : r.ctx with
      | none => simp [hc] at h; rw [← h] at hf; simp at hf
      | some c =>
        simp only [hc] at h
        split at h
        · cases h
        · split at h
          · simp only [Option.some.injEq] at h; rw [← h] at hf; simp at hf
          · split at h
            · simp only [Option.some.injEq] at h; rw [← h] at hf; simp at hf
            · split at h
              · simp only [Option.some.injEq] at h; subst h; simp [finish]
              · simp only [if_true, Option.some.injEq] at h; subst h; simp
  | stop => simp [execI] at h; rw [← h] at hf; simp at hf
  | abort => simp [execI] at h; rw [← h] at hf; simp at hf
  | assemblyStep =>
    unfold execI at h
    cases hc : r.ctx with
    | none => simp [hc] at h; rw [← h] at hf; simp at hf
    | some c =>
      simp only [hc, Option.some.injEq] at h
      subst h
      have hx := doOneI_fired inj c (begin r.m) hf
      simp [finish, hx]
  | lineStep =>
    unfold execI at h
    cases hc : r.ctx with
    | none => simp [hc] at h; rw [← h] at hf; simp at hf
    | some c =>
      simp only [hc, Option.some.injEq] at h
      subst h
      have hx := lineLoopI_fired lineOf fuel (lineOf c) inj c (begin r.m) hf
      simp [finish, hx]
  | leaveScope =>
    unfold execI at h
    cases hc : r.ctx with
    | none => simp [hc] at h; rw [← h] at hf; simp at hf
    | some c =>
      simp only [hc, Option.some.injEq] at h
      subst h
      have hx := leaveLoopI_fired (c.frames.length - 1) fuel inj c (begin r.m) hf
      simp [finish, hx]

/-- **once an exit is requested nothing executes any more**: `execute_do` returns at once, whatever the script is
(the rule behind stop, abort, `exit__` and the time limit; repo fix `9e5bc7d` made `evaluate_expression` obey it instead of
waiting for a context that can no longer empty) -/
theorem C19_exit_request_executes_nothing (fuel : Nat) (m : M) (h : m.exitReq = true) :
    step (fuel + 1) m = (m, .ok) := by
  rw [step]; simp [h]

/-- `exit__` requests the exit and changes nothing else -/
theorem C19_exit_operator (m : M) :
    nularOp n!"exit__" m = some ({ m with exitReq := true }, [], .nil) := by
  simp [nularOp, pure']

/-- without a controller the injected executor is the plain one -/
theorem doOneI_none (req : Bool) (c : Ctx) (m : M) : doOneI req none c m = (doOne c m, none, false) := rfl

theorem lineLoopI_none (lineOf : Ctx → Option Nat) (req : Bool) :
    ∀ (fuel : Nat) (ln : Option Nat) (c : Ctx) (m : M),
      lineLoopI lineOf req ln fuel none false c m = (lineLoop lineOf ln fuel c m, none, false) := by
  intro fuel
  induction fuel with
  | zero => intro ln c m; simp [lineLoopI, lineLoop]
  | succ fuel ih =>
    intro ln c m
    rw [lineLoopI, lineLoop]
    simp only [doOneI_none, Bool.or_false]
    by_cases h1 : (doOne c m).2.2 ≠ .ok
    · rw [if_pos h1, if_pos h1]
    · rw [if_neg h1, if_neg h1]
      by_cases h2 : (doOne c m).2.1.exitReq = true
      · rw [if_pos h2, if_pos h2]
      · rw [if_neg h2, if_neg h2]
        by_cases h3 : sameLine ln (lineOf (doOne c m).1) = true
        · rw [if_pos h3, if_pos h3]; exact ih _ _ _
        · rw [if_neg h3, if_neg h3]

theorem leaveLoopI_none (req : Bool) (depth : Nat) :
    ∀ (fuel : Nat) (c : Ctx) (m : M),
      leaveLoopI req depth fuel none false c m = (leaveLoop depth fuel c m, none, false) := by
  intro fuel
  induction fuel with
  | zero => intro c m; simp [leaveLoopI, leaveLoop]
  | succ fuel ih =>
    intro c m
    rw [leaveLoopI, leaveLoop]
    simp only [doOneI_none, Bool.or_false]
    by_cases h1 : (doOne c m).2.2 ≠ .ok
    · rw [if_pos h1, if_pos h1]
    · rw [if_neg h1, if_neg h1]
      by_cases h2 : (doOne c m).2.1.exitReq = true
      · rw [if_pos h2, if_pos h2]
      · rw [if_neg h2, if_neg h2]
        by_cases h3 : (doOne c m).1.frames.length ≤ depth
        · rw [if_pos h3, if_pos h3]
        · rw [if_neg h3, if_neg h3]; exact ih _ _

/-- **once the controller has had its turn (or when there is none) the history goes on as the sequential model
says**: `execI` without a pending controller is `exec` -/
theorem C19_injected_refines_exec (lineOf : Ctx → Option Nat) (req : Bool) (r : Rt) (a : Action) :
    execI lineOf req r none 100000 a = some (exec lineOf r a, none, false) := by
  cases a with
  | start => simp [execI, exec]
  | stop => simp [execI, exec]
  | abort => simp [execI, exec]
  | assemblyStep =>
    unfold execI exec assemblyStep
    cases r.ctx <;> simp [doOneI_none]
  | lineStep =>
    unfold execI exec lineStep
    cases r.ctx <;> simp [lineLoopI_none]
  | leaveScope =>
    unfold execI exec leaveScope
    cases r.ctx <;> simp [leaveLoopI_none]

/-- the premises of `C19_stop_while_stepping` are met: a one-instruction history in which the controller has its turn -/
example : ∃ o, execI (fun _ => none) true { ctx := some { frames := [{ code := [.push (.num ⟨false, 1, 0⟩), .push (.num ⟨false, 2, 0⟩)] }], id := 1 } }
    (some 0) 10 .assemblyStep = some o ∧ o.2.2 = true := by
  refine ⟨_, rfl, ?_⟩
  decide

/-! ## 3. Threads: mutual exclusion, bounded effect of stop/abort, progress -/

open Conc

/-- the invariant of the interleaving system -/
structure CInv (s : S) : Prop where
  mutex : s.pc = .idle ∨ s.pc2 = .idle
  flag : s.runAtomic = true ↔ (s.pc ≠ .idle ∨ s.pc2 ≠ .idle)
  run : s.running = s.runAtomic
  lateLe : s.late ≤ 1
  lateExit : s.late = 1 → s.exitReq = true ∧ s.pc ≠ .fetched ∧ s.pc2 ≠ .fetched

theorem cinv_init (n : Nat) : CInv { todo := n } := by
  refine ⟨Or.inl rfl, by simp, rfl, Nat.zero_le _, ?_⟩
  intro h; cases h

theorem cinv_step (s t : S) (hi : CInv s) (hs : Step s t) : CInv t := by
  obtain ⟨hm, hf, hr, hl, hle⟩ := hi
  have hl' : s.late = 0 ∨ s.late = 1 := by omega
  cases hs <;> (refine ⟨?_, ?_, ?_, ?_, ?_⟩) <;> simp_all <;> (try omega) <;> (try (rcases hl' with h | h <;> simp_all)) <;>
    (try (split <;> omega))

theorem cinv_reach (n : Nat) (s : S) (h : Reach { todo := n } s) : CInv s := by
  induction h with
  | refl => exact cinv_init n
  | step s t _ hst ih => exact cinv_step s t ih hst

/-- **At most one executor runs at any time**: in every reachable state of every interleaving, the two
threads are never both between a successful compare-exchange and their release of the flag -/
theorem C19_mutex (n : Nat) (s : S) (h : Reach { todo := n } s) : ¬ (s.pc ≠ .idle ∧ s.pc2 ≠ .idle) := by
  have hm := (cinv_reach n s h).mutex
  intro ⟨h1, h2⟩
  rcases hm with hm | hm
  · exact h1 hm
  · exact h2 hm

/-- the VM reports `running` exactly while an executor is inside -/
theorem C19_running_iff (n : Nat) (s : S) (h : Reach { todo := n } s) :
    s.running = true ↔ (s.pc ≠ .idle ∨ s.pc2 ≠ .idle) := by
  have hi := cinv_reach n s h
  rw [hi.run]; exact hi.flag

/-- **stop / abort take effect within a bounded number of instructions**: after the controller stored the
exit request, the executor executes at most one more instruction (the one it had already decided to
execute) — in every interleaving, for scripts of any length -/
theorem C19_stop_bounded (n : Nat) (s : S) (h : Reach { todo := n } s) : s.late ≤ 1 :=
  (cinv_reach n s h).lateLe

/-- once the request is visible at the loop head, no further instruction is fetched -/
theorem C19_no_fetch_after_request (s t : S) (hs : Step s t) (hpc : s.pc = .looping) (hex : s.exitReq = true)
    (hown : t.pc ≠ s.pc) : t.pc = .finishing := by
  cases hs <;> simp_all

/-- **progress**: an executor that is inside always has an enabled step (it cannot be blocked by the
controller or by a competing caller, whose compare-exchange simply fails) -/
theorem C19_progress (s : S) (hin : s.pc ≠ .idle) : ∃ t, Step s t ∧ t.pc ≠ s.pc := by
  cases hpc : s.pc with
  | idle => exact absurd hpc hin
  | entered => exact ⟨_, Step.toLoop s hpc, by simp [hpc]⟩
  | looping =>
    by_cases hex : s.exitReq = true
    · exact ⟨_, Step.seeExit s hpc hex, by simp [hpc]⟩
    · have hex' : s.exitReq = false := by simpa using hex
      by_cases ht : s.todo = 0
      · exact ⟨_, Step.seeDone s hpc hex' ht, by simp [hpc]⟩
      · exact ⟨_, Step.fetch s hpc hex' ht, by simp [hpc]⟩
  | fetched => exact ⟨_, Step.instr s hpc, by simp [hpc]⟩
  | finishing => exact ⟨_, Step.leave s hpc, by simp [hpc]⟩

/-! ## Non-vacuity -/

-- an interleaving in which the controller's stop lands between the test and the instruction: exactly one
-- late instruction, then the executor leaves
example : ∃ s, Reach { todo := 5 } s ∧ s.late = 1 ∧ s.pc = .finishing := by
  refine ⟨{ todo := 4, runAtomic := true, running := true, exitReq := true, pc := .finishing, late := 1, stops := 1 }, ?_, rfl, rfl⟩
  have s0 : Reach ({ todo := 5 } : S) { todo := 5 } := Reach.refl
  have s1 := Reach.step _ _ s0 (Step.enter _ rfl rfl)
  have s2 := Reach.step _ _ s1 (Step.toLoop _ rfl)
  have s3 := Reach.step _ _ s2 (Step.fetch _ rfl rfl (by decide))
  have s4 := Reach.step _ _ s3 (Step.stopOk _ rfl rfl)
  have s5 := Reach.step _ _ s4 (Step.instr _ rfl)
  have s6 := Reach.step _ _ s5 (Step.seeExit _ rfl rfl)
  exact s6

end Sqf.Props.C19
