import SqfModel.VM.Sched
import SqfModel.Lemmas.StackInv
/-!
# C12 — scheduler: round robin in bounded slices, sleep, scriptDone, terminate, isolation

The scheduler model is `sched` (`SqfModel/VM/Sched.lean`), parametric in the slice length.
-/
set_option linter.unusedSimpArgs false
namespace Sqf.Props.C12
open Sqf Sqf.VM

/-! ## Bounded slices -/

/-- number of `step`s a slice performs (ghost function with the same recursion as `slice`) -/
def sliceSteps : Nat → M → Nat
  | 0, _ => 0
  | n + 1, m =>
    if m.exitReq || m.ctx.suspended then 0
    else if m.ctx.frames.isEmpty then 0
    else match step 200000 m with
      | (m', .ok) => 1 + sliceSteps n m'
      | (_, _) => 1

/-- a slice executes at most `sliceLen` instructions, for every slice length and every script -/
theorem C12_slice_bounded : ∀ (n : Nat) (m : M), sliceSteps n m ≤ n := by
  intro n
  induction n with
  | zero => intro m; simp [sliceSteps]
  | succ n ih =>
    intro m
    unfold sliceSteps
    split
    · omega
    · split
      · omega
      · split
        · next m' _ => have := ih m'; omega
        · omega

/-! ## Sleep: never resumed before the wake-up time -/

/-- a suspended context whose wake-up time has not been reached executes nothing in its turn -/
theorem C12_sleep_not_early (sliceLen : Nat) (c : Ctx) (m : M) (hs : c.suspended = true)
    (ht : m.now < c.wakeup) :
    ((schedOne sliceLen c m).2 = .ok ∨ (schedOne sliceLen c m).1.exitReq = true) ∧
      (schedOne sliceLen c m).1.ctx = c ∧ (schedOne sliceLen c m).1.spawned = [] ∧
      (schedOne sliceLen c m).1.heap = m.heap ∧ (schedOne sliceLen c m).1.nss = m.nss := by
  have hw : ¬ c.wakeup ≤ m.now := by omega
  have hlog : ∀ (x : M) (k : Nat), (x.log k).spawned = x.spawned ∧ (x.log k).heap = x.heap ∧ (x.log k).nss = x.nss := by
    intro x k; unfold M.log; simp only; split <;> exact ⟨rfl, rfl, rfl⟩
  by_cases h1 : m.maxRuntime = 0
  · simp [schedOne, hs, M.readClock, hw, h1]
  · by_cases h2 : m.runStart + m.maxRuntime < m.now
    · simp [schedOne, hs, M.readClock, hw, h1, h2, hlog]
    · simp [schedOne, hs, M.readClock, hw, h1, h2]

/-- … and when it is resumed the clock has reached the wake-up time -/
theorem C12_resume_after_wakeup (sliceLen : Nat) (c : Ctx) (m : M) (hs : c.suspended = true)
    (hrun : (schedOne sliceLen c m).1.ctx ≠ c) : c.wakeup ≤ m.now := by
  by_cases h : c.wakeup ≤ m.now
  · exact h
  · exfalso
    exact hrun (C12_sleep_not_early sliceLen c m hs (by omega)).2.1

/-! ## scriptDone is exact -/

/-- `scriptDone h` is true exactly when the script's context is no longer scheduled -/
theorem C12_scriptDone_exact (id : Nat) (m : M) :
    uop_scriptdone (.script id) m = some (m, [], .bool (!m.alive.contains id)) := by
  simp [uop_scriptdone, pure']

/-- a context leaves the set of live handles exactly when it is dropped from the scheduling list -/
theorem C12_drop_marks_done (ctxs : List Ctx) (i : Nat) (c : Ctx) (m : M) :
    (dropCtx ctxs i c m).2.alive.contains c.id = false ∧ (dropCtx ctxs i c m).1 = ctxs.eraseIdx i := by
  simp [dropCtx]

/-- `spawn` makes the new script live (not done) until the scheduler drops it -/
theorem C12_spawn_alive (l : Val) (c : List Instr) (m : M) :
    ∃ m', bop_spawn l (.code c) m = some (m', [], .script m.nextCtx) ∧ m'.alive.contains m.nextCtx = true := by
  refine ⟨_, rfl, ?_⟩
  simp

/-! ## terminate: nothing executes after the next scheduling point -/

/-- when the scheduler reaches a terminated context it drops it without executing anything of it -/
theorem C12_terminate_stops (sliceLen fuel : Nat) (ctxs : List Ctx) (i : Nat) (c : Ctx) (m : M) (res : StepRes)
    (hne : ctxs.isEmpty = false) (hc : ctxs[i]? = some c) (ht : isTerminated c m = true) :
    sched sliceLen (fuel + 1) ctxs i m res =
      (if (dropCtx ctxs i c m).1.isEmpty then finishStart (dropCtx ctxs i c m).1 (dropCtx ctxs i c m).2 .empty
       else sched sliceLen fuel (dropCtx ctxs i c m).1 i (dropCtx ctxs i c m).2 .empty) := by
  rw [sched]
  simp [hne, hc, ht]

/-- `terminate h` marks the target -/
theorem C12_terminate_marks (id : Nat) (m : M) (ha : m.alive.contains id = true) (hn : m.termReq.contains id = false) :
    ∃ m' effs, uop_terminate (.script id) m = some (m', effs, .nil) ∧ m'.termReq.contains id = true := by
  unfold uop_terminate
  simp only [ha, hn, Bool.not_true, Bool.false_eq_true, if_false]
  split
  · exact ⟨_, _, rfl, by simp⟩
  · exact ⟨_, _, rfl, by simp⟩

/-! ## Round robin: no skip when a script finishes, spawned scripts join the round -/

/-- when the script at index `i` finishes it is erased and the scheduler continues *at the same index*:
the script that followed it is neither skipped nor delayed -/
theorem C12_no_skip_on_finish (ctxs : List Ctx) (i : Nat) (c : Ctx) (m : M) (next : Ctx)
    (hn : ctxs[i + 1]? = some next) :
    (dropCtx ctxs i c m).1[i]? = some next := by
  simp [dropCtx, List.getElem?_eraseIdx, hn]

/-- scripts in front of the finished one keep their positions -/
theorem C12_erase_keeps_earlier (ctxs : List Ctx) (i j : Nat) (c : Ctx) (m : M) (hj : j < i) :
    (dropCtx ctxs i c m).1[j]? = ctxs[j]? := by
  simp [dropCtx, List.getElem?_eraseIdx, hj]

/-- a script that neither finishes nor fails is followed by its right-hand neighbour: index `i + 1` -/
theorem C12_next_in_turn (sliceLen fuel : Nat) (ctxs : List Ctx) (i : Nat) (c : Ctx) (m : M) (res : StepRes)
    (hne : ctxs.isEmpty = false) (hc : ctxs[i]? = some c) (ht : isTerminated c m = false)
    (hok : (schedOne sliceLen c m).2 = .ok) (hex : (schedOne sliceLen c m).1.exitReq = false) :
    sched sliceLen (fuel + 1) ctxs i m res =
      sched sliceLen fuel (ctxs.set i (schedOne sliceLen c m).1.ctx ++ (schedOne sliceLen c m).1.spawned) (i + 1)
        { (schedOne sliceLen c m).1 with spawned := [] } .ok := by
  rw [sched]
  simp [hne, hc, ht, hok, hex]

/-- scripts spawned during a slice are appended behind everybody else: they join the current round and
do not disturb the order of the scripts already scheduled -/
theorem C12_spawn_joins_round (ctxs : List Ctx) (i j : Nat) (c' : Ctx) (spawned : List Ctx) (hj : j < ctxs.length) :
    (ctxs.set i c' ++ spawned)[j]? = (ctxs.set i c')[j]? := by
  rw [List.getElem?_append_left (by simpa using hj)]

/-- at the end of the list the scheduler starts the next round at the first script -/
theorem C12_wrap_around (sliceLen fuel : Nat) (ctxs : List Ctx) (i : Nat) (m : M) (res : StepRes)
    (hne : ctxs.isEmpty = false) (hi : ctxs[i]? = none) :
    sched sliceLen (fuel + 1) ctxs i m res = sched sliceLen fuel ctxs 0 m res := by
  rw [sched]
  simp [hne, hi]

/-! ## Isolation: each script owns its frames and operand stack -/

/-- a slice of one context leaves every other context of the scheduling list untouched -/
theorem C12_contexts_disjoint (ctxs : List Ctx) (i j : Nat) (c' : Ctx) (spawned : List Ctx)
    (hij : i ≠ j) (hj : j < ctxs.length) :
    (ctxs.set i c' ++ spawned)[j]? = ctxs[j]? := by
  rw [List.getElem?_append_left (by simpa using hj)]
  simp [List.getElem?_set, hij]

/-- the partition invariant of the running context is preserved across its slice -/
theorem C12_slice_inv : ∀ (n : Nat) (m : M), m.Inv → (slice n m).1.Inv := by
  intro n
  induction n with
  | zero => intro m h; exact h
  | succ n ih =>
    intro m h
    rw [slice]
    split
    · exact h
    · split
      · exact h
      · have hs := inv_step 200000 h
        split
        · next m' heq => rw [heq] at hs; exact ih m' hs
        · next m' r _ heq => rw [heq] at hs; exact hs

/-! ## waitUntil waits until its condition holds -/

/-- the decision of `waitUntil` after one evaluation of its condition: only `true` ends the wait; `false`
evaluates the condition again after a suspension of 10 ms, without any diagnostic -/
theorem C12_waitUntil_decides (count : Nat) (m : M) :
    (behDecide (.waitUntil count) (some (.bool true)) m).2.2.1 = .ok ∧
    (behDecide (.waitUntil count) (some (.bool false)) m).2.2.1 = .seekStart ∧
    (behDecide (.waitUntil count) (some (.bool false)) m).1 = [.suspend 10, .clearV, .setVars []] ∧
    (behDecide (.waitUntil count) (some (.bool false)) m).2.1 = .waitUntil (count + 1) := by
  simp [behDecide]

/-- a value that is no boolean never ends the wait either -/
theorem C12_waitUntil_other (count : Nat) (v : Val) (m : M) (hv : ∀ b, v ≠ .bool b) :
    (behDecide (.waitUntil count) (some v) m).2.2.1 = .seekStart := by
  cases v with
  | bool b => exact absurd rfl (hv b)
  | _ => simp [behDecide]

/-! ## Non-vacuity -/

example : sliceSteps 3 { ctx := { frames := [{ code := [.push (.bool true), .endStatement, .push .nil, .endStatement] }] } } = 3 := by
  decide

end Sqf.Props.C12
