import SqfModel.Basic
/-!
# The reference expander (model of `src/parser/preprocessor/default.cpp` / `default.h`)

Two layers, as in the implementation:

* `strip` — the character reader (`preprocessorfileinfo::next`): outside double-quoted strings it removes
  `//` comments (up to, not including, the newline) and `/* */` comments (their newlines are kept) and joins
  lines continued with a backslash; inside strings only the continuation is removed. Carriage returns are
  dropped. Every delivered character carries the reader's line counter (C14 uses it);
* `runFile` — `parse_file`: identifiers are looked up as whole words in the macro table, strings are passed
  through, a `#` that is the first non-blank character of a line starts a directive, output is gated by the
  conditionals of the current file.

Includes are resolved by a parameter `Env.files` (virtual path ↦ content); the physical path of a file is
`Env.root ++ virtual path`.
-/
namespace Sqf.Pp
open Sqf

def isWordChar (c : B) : Bool := isAlpha c || isDigit c || c == 95
def quote : B := 34
def nl : B := 10

/-- a delivered character and the reader's line counter after it was read -/
abbrev Ch := B × Nat

/-! ## The reader -/

/-- state of the reader: in code, in a string, in a block or line comment, or holding back a character whose
    meaning depends on the next one (`/`, the `*` in a block comment, a backslash, a backslash and a carriage
    return; the flag says whether the backslash was met inside a string) -/
inductive RS where
  | code | str | block | line | slash | star
  | bs (inStr : Bool)
  | bscr (inStr : Bool)
  deriving DecidableEq, Repr

def RS.base (inStr : Bool) : RS := if inStr then .str else .code

/-- a character met in code (`inStr = false`) or in a string -/
def base (inStr : Bool) (ln : Nat) (c : B) : List Ch × RS × Nat :=
  if c = 13 then ([], RS.base inStr, ln)
  else if c = 92 then ([], .bs inStr, ln)
  else if c = 47 ∧ inStr = false then ([], .slash, ln)
  else if c = 34 then ([(34, ln)], RS.base (!inStr), ln)
  else if c = 10 then ([(10, ln + 1)], RS.base inStr, ln + 1)
  else ([(c, ln)], RS.base inStr, ln)

/-- one raw character: the characters delivered, the new state, the new line counter -/
def stepC (s : RS) (ln : Nat) (c : B) : List Ch × RS × Nat :=
  match s with
  | .code => base false ln c
  | .str => base true ln c
  | .block => if c = 10 then ([(10, ln + 1)], .block, ln + 1) else if c = 42 then ([], .star, ln) else ([], .block, ln)
  | .star =>
    if c = 47 then ([], .code, ln) else if c = 42 then ([], .star, ln)
    else if c = 10 then ([(10, ln + 1)], .block, ln + 1) else ([], .block, ln)
  | .line => if c = 10 then ([(10, ln + 1)], .code, ln + 1) else ([], .line, ln)
  | .slash =>
    if c = 42 then ([], .block, ln) else if c = 47 then ([], .line, ln)
    else let r := base false ln c; ((47, ln) :: r.1, r.2)
  | .bs inStr =>
    if c = 10 then ([], RS.base inStr, ln + 1) else if c = 13 then ([], .bscr inStr, ln)
    else let r := base inStr ln c; ((92, ln) :: r.1, r.2)
  | .bscr inStr =>
    if c = 10 then ([], RS.base inStr, ln + 1)
    else let r := base inStr ln c; ((92, ln) :: r.1, r.2)

/-- what is held back when the text ends -/
def flush (s : RS) (ln : Nat) : List Ch :=
  match s with
  | .slash => [(47, ln)]
  | .bs _ => [(92, ln)]
  | .bscr _ => [(92, ln)]
  | _ => []

/-- the character stream `next()` delivers; `ln` is the line counter (starts at 1, counts raw newlines) -/
def strip : RS → Nat → List B → List Ch
  | s, ln, [] => flush s ln
  | s, ln, c :: rest => (stepC s ln c).1 ++ strip (stepC s ln c).2.1 (stepC s ln c).2.2 rest

def stripAll (s : List B) : List Ch := strip .code 1 s

def txt (cs : List Ch) : List B := cs.map (·.1)

/-! ## Macros -/

inductive MKind where
  | text | line | file
  deriving DecidableEq, Repr

structure Macro where
  name : List B
  callable : Bool := false
  params : List (List B) := []
  body : List B := []
  kind : MKind := .text
  deriving Repr, DecidableEq

abbrev Table := List Macro

def Table.find (t : Table) (n : List B) : Option Macro := List.find? (fun m => m.name == n) t
def Table.define (t : Table) (m : Macro) : Table := m :: List.filter (fun x => x.name != m.name) t
def Table.undef (t : Table) (n : List B) : Table := List.filter (fun x => x.name != n) t

abbrev Res := Except Nat (List B)

def errArgCount : Nat := 10001
def errRecursiveInclude : Nat := 10003
def errIncludeFailed : Nat := 10004
def errUnexpectedElse : Nat := 10009
def errUnexpectedEndif : Nat := 10010
def errMissingEndif : Nat := 10011
def errUnknownInstruction : Nat := 10012
def errRecursiveMacro : Nat := 10015
/-- the model ran out of fuel (never with the fuel `run` provides on the generated domain) -/
def errFuel : Nat := 1

/-- what a callback macro sees -/
structure Ctx where
  line : Nat
  file : List B

def takeWord (s : List B) : List B × List B := (s.takeWhile isWordChar, s.dropWhile isWordChar)

/-- `replace_skip`: copies everything up to the next word, newline, backslash or `#`; strings are copied whole -/
def skip : Bool → List B → List B × List B
  | _, [] => ([], [])
  | true, c :: r => let p := skip (c != quote) r; (c :: p.1, p.2)
  | false, c :: r =>
    if isWordChar c || c == nl || c == 92 || c == 35 then ([], c :: r)
    else let p := skip (c == quote) r; (c :: p.1, p.2)

/-- the argument scan of `handle_macro` behind the opening parenthesis: raw segments between top-level
    commas; the scan ends at the closing parenthesis (a last segment is only delivered when no square or curly
    bracket is open) or at the end of the text (the unfinished segment is dropped) -/
def splitArgs : List B → List B → Int → Int → Int → Bool → List (List B) → List (List B) × List B
  | [], _, _, _, _, _, acc => (acc, [])
  | c :: rest, cur, rb, cb, eb, inStr, acc =>
    if inStr then splitArgs rest (cur ++ [c]) rb cb eb (c != quote) acc
    else if c == quote then splitArgs rest (cur ++ [c]) rb cb eb true acc
    else if c == 91 then splitArgs rest (cur ++ [c]) rb cb (eb + 1) false acc
    else if c == 93 then splitArgs rest (cur ++ [c]) rb cb (eb - 1) false acc
    else if c == 123 then splitArgs rest (cur ++ [c]) rb (cb + 1) eb false acc
    else if c == 125 then splitArgs rest (cur ++ [c]) rb (cb - 1) eb false acc
    else if c == 40 then splitArgs rest (cur ++ [c]) (rb + 1) cb eb false acc
    else if c == 41 then
      if rb != 0 then splitArgs rest (cur ++ [c]) (rb - 1) cb eb false acc
      else if eb == 0 && cb == 0 then (acc ++ [cur], rest)
      else (acc, rest)
    else if c == 44 && rb == 0 && eb == 0 && cb == 0 then splitArgs rest [] rb cb eb false (acc ++ [cur])
    else splitArgs rest (cur ++ [c]) rb cb eb false acc

def quoted (s : List B) : List B := [quote] ++ s ++ [quote]

abbrev PMap := List (List B × List B)
def PMap.get (pm : PMap) (w : List B) : Option (List B) := (List.find? (fun p => p.1 == w) pm).map (·.2)

mutual
/-- `replace`: the expansion of macro `m` with the (already expanded) arguments `args`;
    `stack`: the macros being expanded (meeting one of them again is an error) -/
def expandBody (t : Table) (cx : Ctx) : Nat → List (List B) → Macro → List (List B) → Res
  | 0, _, _, _ => .error errFuel
  | f + 1, stack, m, args =>
    if m.params.length != args.length then .error errArgCount
    else match m.kind with
    | .line => .ok (natDigits cx.line)
    | .file => .ok (quoted cx.file)
    | .text =>
      if stack.contains m.name then .error errRecursiveMacro
      else scanBody t cx f (m.name :: stack) (m.params.zip args) m.body []

/-- the word `w` met in a macro body or argument, `rest` behind it: a parameter, a macro or itself -/
def resolveWord (t : Table) (cx : Ctx) : Nat → List (List B) → PMap → Bool → List B → List B → Except Nat (List B × List B)
  | 0, _, _, _, _, _ => .error errFuel
  | f + 1, stack, pm, paramFirst, w, rest =>
    match (if paramFirst then pm.get w else none) with
    | some v => .ok (v, rest)
    | none =>
      match t.find w with
      | some mm => expandCall t cx f stack mm rest pm
      | none =>
        match pm.get w with
        | some v => .ok (v, rest)
        | none => .ok (w, rest)

/-- the loop of `replace` over the body text -/
def scanBody (t : Table) (cx : Ctx) : Nat → List (List B) → PMap → List B → List B → Res
  | 0, _, _, _, _ => .error errFuel
  | f + 1, stack, pm, body, out =>
    let p := skip false body
    let out := out ++ p.1
    match p.2 with
    | [] => .ok out
    | c :: r1 =>
      if c == nl then .ok out
      else if c == 35 then
        let p2 := skip false r1
        match p2.2 with
        | 35 :: r3 =>
          let p3 := skip false r3
          let w := takeWord p3.2
          match resolveWord t cx f stack pm true w.1 w.2 with
          | .error e => .error e
          | .ok (v, r5) => scanBody t cx f stack pm r5 (out ++ p2.1 ++ p3.1 ++ v)
        | r2 =>
          let w := takeWord r2
          match resolveWord t cx f stack pm true w.1 w.2 with
          | .error e => .error e
          | .ok (v, r5) => scanBody t cx f stack pm r5 (out ++ p2.1 ++ quoted v)
      else if isWordChar c then
        let w := takeWord (c :: r1)
        match resolveWord t cx f stack pm true w.1 w.2 with
        | .error e => .error e
        | .ok (v, r5) => scanBody t cx f stack pm r5 (out ++ v)
      else scanBody t cx f stack pm r1 (out ++ [c])

/-- `handle_macro`: macro `mm` met with `rest` behind its name; returns the expansion and what is left of
    the text. A function-like macro not followed by `(` stays as its name. -/
def expandCall (t : Table) (cx : Ctx) : Nat → List (List B) → Macro → List B → PMap → Except Nat (List B × List B)
  | 0, _, _, _, _ => .error errFuel
  | f + 1, stack, mm, rest, pm =>
    if !mm.callable then
      match expandBody t cx f stack mm [] with
      | .error e => .error e
      | .ok v => .ok (v, rest)
    else
      match rest with
      | 40 :: r1 =>
        let sp := splitArgs r1 [] 0 0 0 false []
        match expandArgs t cx f stack (sp.1.filter (fun a => !a.isEmpty || !mm.params.isEmpty)) pm with
        | .error e => .error e
        | .ok args =>
          match expandBody t cx f stack mm args with
          | .error e => .error e
          | .ok v => .ok (v, sp.2)
      | _ => .ok (mm.name, rest)

/-- `handle_arg` on every raw argument -/
def expandArgs (t : Table) (cx : Ctx) : Nat → List (List B) → List (List B) → PMap → Except Nat (List (List B))
  | 0, _, _, _ => .error errFuel
  | _ + 1, _, [], _ => .ok []
  | f + 1, stack, a :: as, pm =>
    match scanArg t cx f stack pm a false [] with
    | .error e => .error e
    | .ok x =>
      match expandArgs t cx f stack as pm with
      | .error e => .error e
      | .ok xs => .ok (x :: xs)

/-- `handle_arg`: macros are expanded and the parameters of the enclosing macro substituted; strings and
    everything else are copied -/
def scanArg (t : Table) (cx : Ctx) : Nat → List (List B) → PMap → List B → Bool → List B → Res
  | 0, _, _, _, _, _ => .error errFuel
  | _ + 1, _, _, [], _, out => .ok out
  | f + 1, stack, pm, c :: rest, inStr, out =>
    if inStr then scanArg t cx f stack pm rest (c != quote) (out ++ [c])
    else if c == quote then scanArg t cx f stack pm rest true (out ++ [c])
    else if isWordChar c then
      let w := takeWord (c :: rest)
      match resolveWord t cx f stack pm false w.1 w.2 with
      | .error e => .error e
      | .ok (v, r2) => scanArg t cx f stack pm r2 false (out ++ v)
    else scanArg t cx f stack pm rest false (out ++ [c])
end

/-! ## Directives -/

def isBlank (c : B) : Bool := c == 32 || c == 9
/-- `util::trim` (blanks and tabs) -/
def trim (s : List B) : List B := ((s.dropWhile isBlank).reverse.dropWhile isBlank).reverse

/-- `get_line(true)` on the delivered characters: the rest of the line; a backslash in front of a newline
    continues it, any other backslash is kept. Returns the text, the characters behind the consumed newline
    and the line counter after the last character consumed. -/
def getLine : List Ch → Bool → List B → Nat → List B × List Ch × Nat
  | [], _, acc, ln => (acc, [], ln)
  | (c, l) :: rest, esc, acc, _ =>
    if c == 92 then getLine rest true acc l
    else if c == nl then (if esc then getLine rest false acc l else (acc, rest, l))
    else getLine rest false (if esc then acc ++ [92, c] else acc ++ [c]) l

def splitOn (sep : B) (s : List B) : List (List B) :=
  let rec go : List B → List B → List (List B) → List (List B)
    | [], cur, acc => (cur.reverse :: acc).reverse
    | c :: cs, cur, acc => if c == sep then go cs [] (cur.reverse :: acc) else go cs (c :: cur) acc
  go s [] []

/-- the macro a `#define` line (behind the directive word, trimmed) declares -/
def parseDefine (line : List B) : Macro :=
  let name := line.takeWhile isWordChar
  match line.dropWhile isWordChar with
  | [] => { name := name }
  | 40 :: r =>
    let inside := r.takeWhile (· != 41)
    let behind := (r.dropWhile (· != 41)).drop 1
    { name := name, callable := true,
      params := ((splitOn 44 inside).map trim).filter (fun p => !p.isEmpty),
      body := trim (match behind with | 32 :: b => b | b => b) }
  | c :: r => { name := name, body := trim (if c == 32 then r else c :: r) }

/-- the path of an `#include` line: leading quotes removed, cut at the next quote -/
def includePath (line : List B) : List B := (line.dropWhile (· == quote)).takeWhile (· != quote)

/-! ## Files -/

structure Env where
  /-- virtual path (forward slashes, leading slash) ↦ content -/
  files : List (List B × List B)
  /-- prefix of the physical paths -/
  root : List B

def Env.lookup (e : Env) (p : List B) : Option (List B) := (List.find? (fun f => f.1 == p) e.files).map (·.2)

/-- an include path as the virtual file system sees it: backslashes are separators, it is taken from the root -/
def virtPath (p : List B) : List B :=
  let q := p.map (fun c => if c == 92 then 47 else c)
  if q.head? == some 47 then q else 47 :: q

/-- number of newlines in a text -/
def newlines (s : List B) : Nat := (s.filter (· = 10)).length

def lineMarker (n : Nat) (phys : List B) : List B := n!"#line " ++ natDigits n ++ n!" \"" ++ phys ++ n!"\"\n"

structure St where
  table : Table
  /-- the conditions of the open `#ifdef`s of the current file, innermost first -/
  conds : List Bool := []
  out : List B := []
  /-- the line a reader of `out` is at behind everything written so far: 1 behind the `#line 0` marker
      that starts a file, one more for every newline written, set by every further marker -/
  ol : Nat := 1

def St.writing (s : St) : Bool := s.conds.all id

/-- append to the output -/
def St.write (s : St) (x : List B) : St := { s with out := s.out ++ x, ol := s.ol + newlines x }
/-- append to the output if the conditionals allow it -/
def St.emit (s : St) (x : List B) : St := if s.writing then s.write x else s

/-- `sync_line`: end the line (`atNl`) or go on in it such that what is written next is at line `ln` of the
    input: lines consumed without output are made up for with newlines; if more lines were written than
    consumed (or the count is right although a line ends), a `#line` marker sets it right -/
def St.sync (s : St) (phys : List B) (ln : Nat) (atNl : Bool) : St :=
  if s.ol < ln then { s with out := s.out ++ List.replicate (ln - s.ol) nl, ol := ln }
  else if decide (ln < s.ol) || atNl then { s with out := s.out ++ [nl] ++ lineMarker (ln - 1) phys, ol := ln }
  else s

def upper (s : List B) : List B := s.map toUpper

/-- the string token at the head of the text (behind its opening quote): up to and including the closing quote -/
def takeString : List Ch → List B × List Ch
  | [] => ([], [])
  | (c, _) :: rest => if c == quote then ([c], rest) else let p := takeString rest; (c :: p.1, p.2)

def lastLine (consumed : List Ch) (dflt : Nat) : Nat := match consumed.getLast? with | some c => c.2 | none => dflt

/-- the directives -/
inductive Dir where
  | ifdef | ifndef | else_ | endif | define | undef | pragma | include | unknown
  deriving DecidableEq, Repr

/-- the directive a (capitalised) word behind `#` names -/
def classify (inst : List B) : Dir :=
  if inst == n!"IFDEF" then .ifdef else if inst == n!"IFNDEF" then .ifndef else if inst == n!"ELSE" then .else_
  else if inst == n!"ENDIF" then .endif else if inst == n!"DEFINE" then .define else if inst == n!"UNDEF" then .undef
  else if inst == n!"PRAGMA" then .pragma else if inst == n!"INCLUDE" then .include else .unknown

/-- position of the main loop: what is left of the file, whether only blanks were seen since the beginning of
    the line, and the reader's line counter -/
abbrev Pos := List Ch × Bool × Nat

mutual
/-- `parse_file` -/
def runFile (e : Env) : Nat → List (List B) → Table → List B → List B → Except Nat (Table × List B)
  | 0, _, _, _, _ => .error errFuel
  | f + 1, stack, table, virt, content =>
    match loop e f ((e.root ++ virt) :: stack) (e.root ++ virt) { table := table, out := lineMarker 0 (e.root ++ virt), ol := 1 } (stripAll content) true 1 with
    | .error c => .error c
    | .ok st => if st.conds.isEmpty then .ok (st.table, st.out) else .error errMissingEndif

/-- the main loop: `step` until the text is used up -/
def loop (e : Env) : Nat → List (List B) → List B → St → List Ch → Bool → Nat → Except Nat St
  | 0, _, _, _, _, _, _ => .error errFuel
  | _ + 1, _, _, st, [], _, _ => .ok st
  | f + 1, stack, phys, st, ch :: rest, bol, ln =>
    match step e f stack phys st ch rest bol ln with
    | .error c => .error c
    | .ok (st', rest', bol', ln') => loop e f stack phys st' rest' bol' ln'

/-- one token of the file, or one directive -/
def step (e : Env) : Nat → List (List B) → List B → St → Ch → List Ch → Bool → Nat → Except Nat (St × Pos)
  | 0, _, _, _, _, _, _, _ => .error errFuel
  | f + 1, stack, phys, st, (c, l), rest, bol, _ =>
    if c == quote then
      let p := takeString rest
      .ok (st.emit (c :: p.1), p.2, false, lastLine ((c, l) :: rest.take p.1.length) l)
    else if c == nl then .ok (st.sync phys l true, rest, true, l)
    else if c == 35 && bol then
      directive e f stack phys st rest l
    else if isWordChar c then
      let w := takeWord (c :: txt rest)
      let wl := lastLine (((c, l) :: rest).take w.1.length) l
      if !st.writing then .ok (st, rest.drop (w.1.length - 1), false, wl)
      else match st.table.find w.1 with
        | none => .ok (st.emit w.1, rest.drop (w.1.length - 1), false, wl)
        | some m =>
          match expandCall st.table { line := wl, file := phys } f [] m w.2 [] with
          | .error code => .error code
          | .ok (v, r) =>
            .ok ((st.write v).sync phys (lastLine (((c, l) :: rest).take (((c, l) :: rest).length - r.length)) wl) false,
                 ((c, l) :: rest).drop (((c, l) :: rest).length - r.length), false,
                 lastLine (((c, l) :: rest).take (((c, l) :: rest).length - r.length)) wl)
    else .ok (st.emit [c], rest, bol && isBlank c, l)

/-- `parse_ppinstruction`, behind the `#` -/
def directive (e : Env) : Nat → List (List B) → List B → St → List Ch → Nat → Except Nat (St × Pos)
  | 0, _, _, _, _, _ => .error errFuel
  | f + 1, stack, phys, st, rest, ln =>
    let inst := upper ((txt rest).takeWhile isWordChar)
    let g := getLine (rest.drop inst.length) false [] ln
    let line := trim g.1
    let st1 := st.sync phys g.2.2 (g.2.2 != ln)
    let pos : Pos := (g.2.1, true, g.2.2)
    match classify inst with
    | .ifdef => .ok ({ st1 with conds := (st.table.find line).isSome :: st.conds }, pos)
    | .ifndef => .ok ({ st1 with conds := (st.table.find line).isNone :: st.conds }, pos)
    | .else_ =>
      match st.conds with
      | [] => .error errUnexpectedElse
      | b :: cs => .ok ({ st1 with conds := (!b) :: cs }, pos)
    | .endif =>
      match st.conds with
      | [] => .error errUnexpectedEndif
      | _ :: cs => .ok ({ st1 with conds := cs }, pos)
    | d =>
      if !st.writing then .ok (st1, pos)     -- no other directive has an effect in an inactive section
      else match d with
      | .define => .ok ({ st1 with table := st.table.define (parseDefine line) }, pos)
      | .undef => .ok ({ st1 with table := st.table.undef line }, pos)
      | .pragma => .ok (st1, pos)
      | .include =>
        match e.lookup (virtPath (includePath line)) with
        | none => .error errIncludeFailed
        | some content =>
          if stack.contains (e.root ++ virtPath (includePath line)) then .error errRecursiveInclude
          else match runFile e f stack st.table (virtPath (includePath line)) content with
            | .error code => .error code
            | .ok (table, text) =>
              .ok ({ st with table := table, ol := g.2.2,
                             out := st.out ++ lineMarker 1 (e.root ++ virtPath (includePath line)) ++ text ++ [nl] ++ lineMarker (g.2.2 - 1) phys }, pos)
      | _ => .error errUnknownInstruction
end


/-- the macros every preprocessor instance starts with that have a fixed text -/
def builtins : Table :=
  [{ name := n!"_SQFVM" }, { name := n!"__LINE__", kind := .line }, { name := n!"__FILE__", kind := .file }]

/-- `preprocess(text, /main.sqf)` -/
def run (e : Env) (table : Table) (text : List B) : Res :=
  let fuel := 4 * (text.length + (e.files.map (fun f => f.2.length + 8)).sum) + 64
  match runFile e fuel [] table n!"/main.sqf" text with
  | .error c => .error c
  | .ok r => .ok r.2

end Sqf.Pp
