import SqfModel.Decorated
/-!
# Model of the CLI pretty printer (`src/parser/sqf/sqf_formatter.cpp`, `formatter::prettify`)

Two views of the same walk over the syntax tree.

* `prettyText`: the bytes `prettify` writes (layout, indentation, lower-cased operator names, `$ff` respelled `0xff`);
  compared byte for byte with the implementation by the correspondence check.
* `prettyD`: the same output at token level, as a decorated tree (`D`): which parentheses the printer re-emits. The
  theorems of `Props/C06` show that these parentheses are enough: the parser reads the printed tokens back as the tree
  that was printed.
-/
namespace Sqf.Pretty
open Sqf D

def isBinary : Ast → Bool
  | .binary _ _ _ _ => true
  | _ => false

def astLvl : Ast → Nat
  | .binary l _ _ _ => l
  | _ => top

/-- `node.token.contents` as far as `prettify` looks at it: the operator of an operator node -/
def tokText : Ast → Name
  | .unary n _ => n
  | .binary _ n _ _ => n
  | _ => []

def kwIf : Name := [105, 102]

/-- the parentheses around the operand of a unary operator: a binary operand needs them; `if` gets them unless its
    operand is a `!`; `!` always gets them -/
def unaryParen (n : Name) (a : Ast) : Bool :=
  if isBinary a then true
  else if lower n == kwIf && tokText a != [33] then true
  else lower n == [33]

def parenLeft (l : Nat) (x : Ast) : Bool := isBinary x && decide (astLvl x < l)
def parenRight (l : Nat) (y : Ast) : Bool := isBinary y && decide (astLvl y ≤ l)

/-! ## Token level -/

def leafTok (tk : Name → PTok) : Leaf → PTok
  | .str s => .string s
  | .num t => .number t
  | .hex t => .hexnumber t
  | .tru => .tTrue
  | .fls => .tFalse
  | .ident n => .ident n
  | .nular n => tk n

def unTok (tk : Name → PTok) (n : Name) : PTok := if n == kwPrivate then .tPrivate else tk n

def wrap (b : Bool) (d : D) : D := if b then .paren d else d

mutual
def prettyD (tk : Name → PTok) : Ast → D
  | .leaf l => .leaf (leafTok tk l) l
  | .unary n a => .unary (unTok tk n) n (wrap (unaryParen n a) (prettyD tk a))
  | .binary l n x y => .binary (tk n) l n (wrap (parenLeft l x) (prettyD tk x)) (wrap (parenRight l y) (prettyD tk y))
  | .array es => .array (prettyDList tk es)
  | .code ss => .code [] (prettyDSeq tk ss)
  | .assign lhs e => .assign (prettyD tk lhs) (prettyD tk e)
  | .assignLocal n e => .assignLocal n (prettyD tk e)
def prettyDList (tk : Name → PTok) : List Ast → List D
  | [] => []
  | a :: as => prettyD tk a :: prettyDList tk as
/-- every statement is followed by `;` -/
def prettyDSeq (tk : Name → PTok) : List Ast → List D
  | [] => []
  | s :: ss => .seq (prettyD tk s) [.semicolon] :: prettyDSeq tk ss
end

/-- the whole output at token level -/
def prettyProgram (tk : Name → PTok) (ss : List Ast) : Program := { lead := [], stmts := prettyDSeq tk ss }

/-! ## Byte level -/

def spaces (n : Nat) : List B := List.replicate n 32

def hexSpelling (t : Name) : Name :=
  match t with
  | 36 :: r => [48, 120] ++ r
  | _ => t

def leafText : Leaf → List B
  | .str s => s
  | .num t => t
  | .hex t => hexSpelling t
  | .tru => [116, 114, 117, 101]
  | .fls => [102, 97, 108, 115, 101]
  | .ident n => n
  | .nular n => n

def parens (b : Bool) (t : List B) : List B := if b then [40] ++ t ++ [41] else t

mutual
def prettyText (depth : Nat) : Ast → List B
  | .leaf l => leafText l
  | .unary n a => lower n ++ [32] ++ parens (unaryParen n a) (prettyText depth a)
  | .binary l n x y =>
    parens (parenLeft l x) (prettyText depth x) ++ [32] ++ lower n ++ [32] ++ parens (parenRight l y) (prettyText depth y)
  | .array es => [91] ++ prettyElems depth es ++ [93]
  | .code ss =>
    if ss.isEmpty then [123] ++ spaces (depth * 4) ++ [125]
    else [123, 10] ++ prettyStmts (depth + 1) ss ++ spaces (depth * 4) ++ [125]
  | .assign lhs e =>
    (match lhs with
     | .leaf (.ident n) => n ++ [32, 61, 32]
     | .leaf (.nular n) => n ++ [32, 61, 32]
     | _ => []) ++ prettyText depth e
  | .assignLocal n e => kwPrivate ++ [32] ++ n ++ [32, 61, 32] ++ prettyText depth e
def prettyElems (depth : Nat) : List Ast → List B
  | [] => []
  | [a] => prettyText depth a
  | a :: as@(_ :: _) => prettyText depth a ++ [44, 32] ++ prettyElems depth as
def prettyStmts (depth : Nat) : List Ast → List B
  | [] => []
  | s :: ss => spaces (depth * 4) ++ prettyText depth s ++ [59, 10] ++ prettyStmts depth ss
end

/-! ## What the printer normalises: operator names in lower case, `$ff` spelled `0xff` -/

mutual
def norm : Ast → Ast
  | .leaf (.hex t) => .leaf (.hex (hexSpelling t))
  | .leaf l => .leaf l
  | .unary n a => .unary (lower n) (norm a)
  | .binary l n x y => .binary l (lower n) (norm x) (norm y)
  | .array es => .array (normList es)
  | .code ss => .code (normList ss)
  | .assign lhs e => .assign (norm lhs) (norm e)
  | .assignLocal n e => .assignLocal n (norm e)
def normList : List Ast → List Ast
  | [] => []
  | a :: as => norm a :: normList as
end

/-- what `--pretty-print` writes for a parsed text -/
def prettyFile (ss : List Ast) : List B := prettyStmts 0 ss

end Sqf.Pretty
