import SqfModel.Basic
/-!
# Values and instructions

Scalars are modelled as exact decimals `(-1)^neg · mant · 10^exp` (the implementation uses IEEE
single floats; the generators of the correspondence checks stay inside the range where the two
agree: integers below 2^24 and short dyadic fractions).  Arrays are references into a heap
(`Val.ref`), code is an immutable instruction list.
-/
namespace Sqf

/-- exact decimal: `(-1)^neg * mant * 10^exp` -/
structure Dec where
  neg : Bool
  mant : Nat
  exp : Int
deriving DecidableEq, Repr

namespace Dec
def ofNat (n : Nat) : Dec := { neg := false, mant := n, exp := 0 }
def ofInt (i : Int) : Dec := { neg := decide (i < 0), mant := i.natAbs, exp := 0 }
def zero : Dec := ofNat 0
def negate (d : Dec) : Dec := { d with neg := !d.neg }

/-- strip trailing decimal zeros of the mantissa (fuel = number of digits is plenty) -/
def stripZeros : Nat → Nat → Int → Nat × Int
  | 0, m, e => (m, e)
  | f + 1, m, e => if m != 0 && m % 10 == 0 then stripZeros f (m / 10) (e + 1) else (m, e)

/-- canonical form: no trailing zeros in the mantissa; zero has exponent 0 -/
def norm (d : Dec) : Dec :=
  if d.mant == 0 then { d with exp := 0 }
  else let (m, e) := stripZeros 64 d.mant d.exp; { d with mant := m, exp := e }

/-- bring two decimals to a common exponent -/
def align (a b : Dec) : Nat × Nat × Int :=
  if a.exp ≤ b.exp then (a.mant, b.mant * 10 ^ (b.exp - a.exp).toNat, a.exp)
  else (a.mant * 10 ^ (a.exp - b.exp).toNat, b.mant, b.exp)

def toSigned (neg : Bool) (m : Nat) : Int := if neg then - (m : Int) else (m : Int)

def add (a b : Dec) : Dec :=
  let (ma, mb, e) := align a b
  let s := toSigned a.neg ma + toSigned b.neg mb
  -- IEEE: x + (-x) = +0, (-0) + (-0) = -0
  if s == 0 then norm { neg := a.neg && b.neg, mant := 0, exp := 0 }
  else norm { neg := decide (s < 0), mant := s.natAbs, exp := e }
def sub (a b : Dec) : Dec := add a (negate b)
def mul (a b : Dec) : Dec := norm { neg := a.neg != b.neg, mant := a.mant * b.mant, exp := a.exp + b.exp }

/-- numeric comparison (±0 equal) -/
def cmpKey (a b : Dec) : Int × Int :=
  let (ma, mb, _) := align a b
  (toSigned a.neg ma, toSigned b.neg mb)
/-- canonical key of the numeric value: normal form, with the two zeros identified -/
def eqKey (d : Dec) : Bool × Nat × Int :=
  let n := norm d
  if n.mant == 0 then (false, 0, 0) else (n.neg, n.mant, n.exp)
/-- `==` on floats (±0 equal): equality of canonical keys -/
def eq (a b : Dec) : Bool := decide (eqKey a = eqKey b)
def lt (a b : Dec) : Bool := let (x, y) := cmpKey a b; decide (x < y)
def le (a b : Dec) : Bool := let (x, y) := cmpKey a b; decide (x ≤ y)

/-- integer value if the decimal is a non-negative integer -/
def toNat? (d : Dec) : Option Nat :=
  let n := norm d
  if n.mant == 0 then some 0
  else if n.neg then none
  else if n.exp < 0 then none
  else some (n.mant * 10 ^ n.exp.toNat)

/-- truncation toward zero, as a C cast `(int)f` does -/
def trunc (d : Dec) : Int :=
  let m : Nat := if d.exp ≥ 0 then d.mant * 10 ^ d.exp.toNat else d.mant / 10 ^ (-d.exp).toNat
  toSigned d.neg m
end Dec

mutual
/-- SQF values as far as the models need them. `ref` = array in the heap (arrays are shared,
    mutable references), `code` = immutable instruction list; the remaining constructors are the
    helper types of the control structures (`IF`, `WHILE`, `FOR`, `SWITCH`, `WITH`, `EXCEPTION`, …). -/
inductive Val where
  | nil
  | num (d : Dec)
  | nan
  | bool (b : Bool)
  | str (s : List B)
  | ref (id : Nat)
  | code (is : List Instr)
  | ifv (b : Bool)
  | whilev (cond : List Instr)
  | forv (var : Name) (frm to step : Dec)
  /-- the `d_switch` object: value switched on, `match_now`, `has_match`, `target_code` -/
  | sw (v : Val) (matchNow hasMatch : Bool) (target : List Instr)
  | ns (id : Nat)
  | withv (id : Nat)
  | exc (code : List Instr)
  | script (ctx : Nat)
  /-- stack trace object carrying a payload (thrown value / array of error messages) -/
  | strace (payload : Val)
  | mapref (id : Nat)
  | other (tag : Name)
/-- The nine opcodes of `src/opcodes`. -/
inductive Instr where
  | push (v : Val)
  | callNular (n : Name)
  | callUnary (n : Name)
  | callBinary (n : Name) (prec : Nat)
  | assignTo (n : Name)
  | assignToLocal (n : Name)
  | getVariable (n : Name)
  | makeArray (k : Nat)
  | endStatement
end

instance : Inhabited Val := ⟨.nil⟩
instance : Inhabited Instr := ⟨.endStatement⟩

end Sqf
